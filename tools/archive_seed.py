#!/venv/bin/python
"""tools/archive_seed.py <PROP> <src dir> <name> <result text>: store a confirmed seeded change under /verif/seeded/<name>/"""
import json, shutil, sys
from pathlib import Path
prop, src, name, result = sys.argv[1], Path(sys.argv[2]), sys.argv[3], sys.argv[4]
dst = Path('/verif/seeded') / name
dst.mkdir(parents=True, exist_ok=True)
for f in ('patch.diff', 'demo.py'):
    shutil.copy(src / f, dst / f)
meta = json.loads((src / 'meta.json').read_text()) if (src / 'meta.json').exists() else {}
meta['property'] = prop
meta['confirmed_by_me'] = 'demo exits 0 on a clean worktree of /repo HEAD and non-zero with the patch applied (tools/try_seed.sh)'
meta['check_result'] = result
(dst / 'meta.json').write_text(json.dumps(meta, indent=1))
print('archived', dst)
