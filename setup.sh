#!/bin/sh
# Build the Lean library (shared infrastructure + every claimed property's model and theorems), offline.
cd "$(dirname "$0")/lean" || exit 2
lake build || exit 1
mods=$(ls LokiModel/Props/*.lean 2>/dev/null | sed 's#/#.#g; s#\.lean$##')
[ -n "$mods" ] && { lake build $mods || exit 1; }
exit 0
