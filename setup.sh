#!/bin/sh
# Build the Lean library (shared infrastructure + every claimed property's model and theorems), offline.
# The tables under lean/LokiModel/Generated are first regenerated from /repo's current working tree, so the build never depends on
# what happened to be committed there.  Findings modules (witness theorems about open defects) are built but do not gate anything.
cd "$(dirname "$0")" || exit 2
./check tables || exit 1
cd lean || exit 2
lake build || exit 1
for id in $(cat ../tools/claimed.txt); do
  mods="LokiModel.Props.$id"
  [ -f "LokiModel/$id/Codec.lean" ] && mods="$mods LokiModel.$id.Codec"
  [ -f "LokiModel/$id/Model.lean" ] && mods="$mods LokiModel.$id.Model"
  lake build $mods || exit 1
  [ -f "LokiModel/Findings/$id.lean" ] && { lake build "LokiModel.Findings.$id" >/dev/null 2>&1 || echo "note: LokiModel.Findings.$id does not build (non-gating)"; }
done
exit 0
