#!/bin/sh
# Build the Lean library (shared infrastructure + every claimed property's model and theorems), offline.
cd "$(dirname "$0")/lean" || exit 2
lake build || exit 1
for id in $(cat ../tools/claimed.txt); do
  mods="LokiModel.Props.$id"
  [ -f "LokiModel/$id/Codec.lean" ] && mods="$mods LokiModel.$id.Codec"
  [ -f "LokiModel/$id/Model.lean" ] && mods="$mods LokiModel.$id.Model"
  [ -f "LokiModel/Findings/$id.lean" ] && mods="$mods LokiModel.Findings.$id"
  lake build $mods || exit 1
done
exit 0
