"""
Reference evaluator for Loki expression trees under *Fortran* semantics (harness oracle).

Written from the Fortran standard, independently of Loki's own ``LokiEvaluationMapper``
(which uses Python semantics, e.g. true division) and of the Lean model:

* integers are Python ``int``; integer division truncates toward zero;
* reals are ``fractions.Fraction`` (exact; generated inputs are dyadic so that real
  hardware would be exact too);
* logicals are ``bool``;
* ``**`` with integer operands: negative exponent follows Fortran (``2**(-1) == 0``,
  ``1**(-k) == 1``, ``(-1)**(-k) == ±1``, ``0**negative`` is an error);
* n-ary ``Sum``/``Product`` fold left; a bare Python number child is an integer constant.

Errors (division by zero, type errors, unknown node kinds) raise ``EvalError``.
"""
from fractions import Fraction

import pymbolic.primitives as pmbl

from loki.expression import symbols as sym


class EvalError(Exception):
    pass


def tdiv(a, b):
    if b == 0:
        raise EvalError('div0')
    q = abs(a) // abs(b)
    return q if (a >= 0) == (b >= 0) else -q


def _num(x):
    if isinstance(x, bool):
        raise EvalError('logical in arithmetic')
    return x


def _div(a, b):
    a, b = _num(a), _num(b)
    if isinstance(a, int) and isinstance(b, int):
        return tdiv(a, b)
    if b == 0:
        raise EvalError('div0')
    return Fraction(a) / Fraction(b)


def _pow(a, b):
    a, b = _num(a), _num(b)
    if isinstance(b, int) and (abs(b) > 48 or (isinstance(a, int) and a.bit_length() > 4096)
                               or (isinstance(a, Fraction) and (a.numerator.bit_length() > 4096 or a.denominator.bit_length() > 4096))):
        raise EvalError('power too large for the harness evaluator')
    if isinstance(b, int):
        if isinstance(a, int):
            if b >= 0:
                return a ** b
            if a == 0:
                raise EvalError('0**neg')
            if a == 1:
                return 1
            if a == -1:
                return 1 if b % 2 == 0 else -1
            return 0
        if b >= 0:
            return Fraction(a) ** b
        if a == 0:
            raise EvalError('0**neg')
        return Fraction(a) ** b
    raise EvalError('real exponent')


def feval(e, env):
    """Evaluate Loki expression ``e`` with variable values from ``env`` (lower-case names)."""
    # bare Python numbers (Loki puts -1 into Product((-1, x)))
    if isinstance(e, bool):
        return e
    if isinstance(e, int):
        return e
    if isinstance(e, float):
        return Fraction(e)
    if isinstance(e, sym.IntLiteral):
        return int(e.value)
    if isinstance(e, sym.FloatLiteral):
        s = str(e.value).lower().replace('d', 'e')
        return Fraction(s)
    if isinstance(e, sym.LogicLiteral):
        return bool(e.value)
    if isinstance(e, (sym.Scalar, sym.DeferredTypeSymbol)) or type(e).__name__ in ('Variable',):
        key = e.name.lower()
        if key not in env:
            raise EvalError(f'unbound {key}')
        return env[key]
    if isinstance(e, pmbl.Sum):
        ch = [feval(c, env) for c in e.children]
        acc = _num(ch[0])
        for c in ch[1:]:
            acc = acc + _num(c)
        return acc
    if isinstance(e, pmbl.Product):
        ch = [feval(c, env) for c in e.children]
        acc = _num(ch[0])
        for c in ch[1:]:
            acc = acc * _num(c)
        return acc
    if isinstance(e, pmbl.Quotient):
        return _div(feval(e.numerator, env), feval(e.denominator, env))
    if isinstance(e, pmbl.Power):
        return _pow(feval(e.base, env), feval(e.exponent, env))
    if isinstance(e, pmbl.Comparison):
        a, b = _num(feval(e.left, env)), _num(feval(e.right, env))
        op = e.operator
        return {'==': a == b, '!=': a != b, '<': a < b, '<=': a <= b, '>': a > b, '>=': a >= b}[op]
    if isinstance(e, pmbl.LogicalAnd):
        vals = [feval(c, env) for c in e.children]
        if not all(isinstance(v, bool) for v in vals):
            raise EvalError('non-logical in .and.')
        return all(vals)
    if isinstance(e, pmbl.LogicalOr):
        vals = [feval(c, env) for c in e.children]
        if not all(isinstance(v, bool) for v in vals):
            raise EvalError('non-logical in .or.')
        return any(vals)
    if isinstance(e, pmbl.LogicalNot):
        v = feval(e.child, env)
        if not isinstance(v, bool):
            raise EvalError('non-logical in .not.')
        return not v
    if isinstance(e, sym.InlineCall):
        name = str(e.function.name).lower()
        args = [feval(a, env) for a in e.parameters]
        if name == 'mod' and len(args) == 2:
            a, b = args
            if isinstance(a, int) and isinstance(b, int):
                return a - tdiv(a, b) * b
            raise EvalError('real mod')
        if name == 'abs' and len(args) == 1:
            return abs(_num(args[0]))
        if name in ('min', 'max') and args:
            return (min if name == 'min' else max)(_num(a) for a in args)
        raise EvalError(f'call {name}')
    raise EvalError(f'unsupported node {type(e).__name__}')


def same_value(a, b):
    """Fortran-level equality of two results (int 2 and real 2 are different kinds of result)."""
    if isinstance(a, bool) or isinstance(b, bool):
        return isinstance(a, bool) and isinstance(b, bool) and a == b
    if isinstance(a, int) != isinstance(b, int):
        return False
    return a == b
