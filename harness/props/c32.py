"""C32 — constant propagation and code removal preserve behaviour.

Request:  (c32 OP FLAG KMODE PROG (INPUTS ...))
  OP    = dc   RemoveDeadCodeTransformer (do_remove_dead_code), FLAG = simp | nosimp  (use_simplify)
        | cp   ConstantPropagationTransformer (do_constant_propagation), FLAG = plain | unroll (unroll_loops=True, oracle only)
        | uv   do_remove_unused_vars + unused dummy arguments with the call-site arguments, FLAG = all | arrays
  KMODE = k    correspondence case: the program is inside the class the Lean model covers; the response is
               (ok PROG') | (error KIND), compared with the Lean driver's `T_model`
        | o    oracle only (response `(oracle-only)` on both sides)
  PROG  = FIR program in wire form (harness/fir.py), INPUTS = input sets for the main unit
The direct oracle runs the original and the really transformed program (exported back to FIR, and re-parsed from
Loki's own fgen text) on every input set with the Python FIR interpreter; the thorough tier adds gfortran.
"""
import os
import random
from collections import Counter
from fractions import Fraction

from ..core import Prop, Case, Failure
from ..sexpr import A, dumps, loads
from .. import fir
from ..fir import (I, R, Bl, V, IDX, BIN, NEG, NOT, CALL, NONE, ilit, _h, _is_none, iter_stmts, prog_units, find_unit,
                   decl_fields)

# ====================================================================== real code

def _loki():
    from loki.transformations.constant_propagation import do_constant_propagation
    from loki.transformations import remove_code as rc
    from loki import fgen
    return do_constant_propagation, rc, fgen


def apply_real(op, flag, prog):
    """parse(emit(prog)) -> real transformation on every routine -> Sourcefile"""
    do_cp, rc, _ = _loki()
    src = fir.emit_fortran(prog, wrap_program=False)
    sf = fir.parse_fortran(src)
    routines = list(sf.routines)
    if op == 'dc':
        for r in routines:
            rc.do_remove_dead_code(r, use_simplify=(flag == 'simp'))
    elif op == 'cp':
        for r in routines:
            do_cp(r, unroll_loops=(flag == 'unroll'))
    elif op == 'uv':
        # the utilities RemoveCodeTransformation.transform_subroutine strings together, callees first
        for r in routines:
            r.enrich(routines)
        for r in routines:
            rc.do_remove_unused_vars(r, remove_only_arrays=(flag == 'arrays'))
        pairs = []
        for r in routines[1:]:
            ua, _ = rc.find_unused_dummy_args_and_vars(r)
            pairs.append((r, ua))
        for r in routines:
            # (Subroutine objects hash by content: build the lookup table afresh after every mutation)
            rc.do_remove_unused_call_args(r, {rr: ua for rr, ua in pairs})
        for r, ua in pairs:
            rc.do_remove_unused_dummy_args(r, ua)
    else:
        raise ValueError(op)
    return sf


def exc_kind(e):
    return type(e).__name__.lower()


_cache = {}


def real_transformed(op, flag, prog):
    """('ok', prog', fgen text) | ('error', kind, message) | ('unsupported', kind, '') — memoised per request (impl and
    oracle of the same case share one run of the real transformation)"""
    key = (op, flag, dumps(prog))
    if key in _cache:
        return _cache[key]
    _, _, fgen = _loki()
    try:
        sf = apply_real(op, flag, prog)
    except Exception as e:   # the transformation raised on valid input
        r = ('error', exc_kind(e), str(e)[:160])
    else:
        try:
            r = ('ok', fir.export_unit(sf, main=str(prog[1])), fgen(sf))
        except fir.Unsupported as e:
            r = ('unsupported', e.kind, '')
    if len(_cache) > 4000:
        _cache.clear()
    _cache[key] = r
    return r


def real_via_fgen(text, main):
    """Loki's own fgen text of the transformed source, parsed again and exported"""
    try:
        sf2 = fir.parse_fortran(text)
        return ('ok', fir.export_unit(sf2, main=main), text)
    except fir.Unsupported as e:
        return ('unsupported', e.kind, text)
    except Exception as e:
        return ('error', exc_kind(e) + ': ' + str(e)[:120], text)


# ====================================================================== syntactic helpers on wire programs

def ex_children(e):
    h = _h(e)
    if h in ('idx', 'call'):
        return list(e[2:])
    if h == 'sec':
        out = []
        for d in e[2:]:
            if _h(d) == 'at':
                out.append(d[1])
            else:
                out += [x for x in d[1:] if not _is_none(x)]
        return out
    if h in ('neg', 'not'):
        return [e[1]]
    if h == 'bin':
        return [e[2], e[3]]
    return []


def ex_nodes(e):
    yield e
    for c in ex_children(e):
        yield from ex_nodes(c)


def ex_names(e):
    return {str(n[1]) for n in ex_nodes(e) if _h(n) in ('v', 'idx', 'sec')}


def stmt_exprs(s):
    """expressions directly held by statement s (not those of nested statements)"""
    h = _h(s)
    if h == 'assign':
        return [s[1], s[2]]
    if h == 'do':
        return [V(str(s[1])), s[2], s[3]] + ([] if _is_none(s[4]) else [s[4]])
    if h in ('while', 'if', 'select'):
        return [s[1]]
    if h == 'assoc':
        return [b[1] for b in s[1]] + [V(str(b[0])) for b in s[1]]
    if h == 'callsub':
        return list(s[2:])
    if h == 'print':
        return list(s[1:])
    return []


def body_names(stmts):
    out = set()
    for s in iter_stmts(stmts):
        for e in stmt_exprs(s):
            out |= ex_names(e)
    return out


def assigned_scalars(stmts, arrays):
    """names of scalar variables assigned (by assignment or as DO variable) anywhere in stmts"""
    out = set()
    for s in iter_stmts(stmts):
        if _h(s) == 'assign' and _h(s[1]) == 'v' and str(s[1][1]) not in arrays:
            out.add(str(s[1][1]))
        if _h(s) == 'do':
            out.add(str(s[1]))
    return out


def unit_arrays(u):
    return {str(d[1]) for d in u[3] if d[4]}


def unit_types(u):
    return {str(d[1]): str(d[2]) for d in u[3]}


def static_type(e, types):
    """syntactic type of an expression: int | real | logical | None (unknown)"""
    h = _h(e)
    if h == 'i':
        return 'int'
    if h == 'r':
        return 'real'
    if h == 'b':
        return 'logical'
    if h in ('v', 'idx', 'sec'):
        return types.get(str(e[1]))
    if h == 'neg':
        return static_type(e[1], types)
    if h == 'not':
        return 'logical'
    if h == 'bin':
        op = str(e[1])
        if op in fir.CMPS or op in ('and', 'or'):
            return 'logical'
        a, b = static_type(e[2], types), static_type(e[3], types)
        if op == 'pow':
            return a
        if a is None or b is None:
            return None
        return 'real' if 'real' in (a, b) else a
    if h == 'call':
        f = str(e[1])
        if f == 'real':
            return 'real'
        if f in ('int', 'mod'):
            return 'int'
        ts = [static_type(a, types) for a in e[2:]]
        if None in ts:
            return None
        return 'real' if 'real' in ts else 'int'
    return None


# ---------------------------------------------------------------------- known-finding class predicates
# All decidable on the program text.  Lean side: the cp classes are outside the theorem domain `cpOKL` (loops, conditionals,
# assignments with type-correct recorded literals) in lean/LokiModel/C32/Model.lean; the Python predicates below are
# syntactic over-approximations of the failing families, used only to label oracle failures.

def known_cp_assoc(prog):
    """an ASSOCIATE block that binds a name to a scalar variable and whose body contains a scalar assignment:
    the constants map is keyed by name and knows nothing about the alias"""
    for u in prog[2:]:
        arrays = unit_arrays(u)
        for s in iter_stmts(u[4]):
            if _h(s) == 'assoc':
                if any(_h(b[1]) == 'v' and str(b[1][1]) not in arrays for b in s[1]) and \
                        any(_h(t) == 'assign' and _h(t[1]) == 'v' for t in iter_stmts(s[2])):
                    return True
    return False


def known_cp_select(prog):
    """a SELECT CASE with a scalar assignment in one of its blocks: the blocks are visited one after the other with
    the same constants map, as if they were executed in sequence"""
    for u in prog[2:]:
        arrays = unit_arrays(u)
        for s in iter_stmts(u[4]):
            if _h(s) == 'select':
                blocks = [c[1] for c in s[2]] + [s[3]]
                if any(assigned_scalars(b, arrays) for b in blocks):
                    return True
    return False


def known_cp_type(prog):
    """a scalar assignment whose right-hand side has (syntactically) another type than the variable: the literal is
    recorded without the conversion the assignment performs"""
    for u in prog[2:]:
        arrays, types = unit_arrays(u), unit_types(u)
        for s in iter_stmts(u[4]):
            if _h(s) == 'assign' and _h(s[1]) == 'v' and str(s[1][1]) not in arrays:
                t = static_type(s[2], types)
                if t is not None and t != types.get(str(s[1][1])):
                    return True
        for d in u[3]:
            if not _is_none(d[5]) and static_type(d[5], types) not in (None, str(d[2])):
                return True
    return False


def _has_real_operand(e, types):
    return any(static_type(c, types) == 'real' for c in ex_children(e))


def known_simplify_arith(prog, which):
    """inherited from `simplify` (C08), reached through ConstantPropagationMapper / RemoveDeadCodeTransformer:
    an expression the transformation rewrites contains a division or a power (integer division is distributed and
    cancelled as if it were exact; real quotients with a variable operand raise AttributeError), or real literal
    arithmetic (evaluated in binary floating point and printed with repr)"""
    for u in prog[2:]:
        types = unit_types(u)
        for s in iter_stmts(u[4]):
            h = _h(s)
            if which == 'cp':
                exprs = stmt_exprs(s) if h in ('assign', 'if') else (stmt_exprs(s)[1:] if h == 'do' else [])
            else:
                exprs = stmt_exprs(s) if h in ('if', 'select') else []
            for e in exprs:
                for n in ex_nodes(e):
                    if _h(n) == 'bin' and str(n[1]) in ('div', 'pow'):
                        return True
                    if _h(n) == 'bin' and str(n[1]) in ('add', 'sub', 'mul') and _has_real_operand(n, types):
                        return True
                    if _h(n) == 'neg' and static_type(n, types) == 'real':
                        return True
    return False


def known_assoc_nested(prog):
    """an ASSOCIATE inside another ASSOCIATE whose selector is an expression mentioning a name bound by the enclosing
    one: rebuilding the inner node (any non-inplace Transformer, here RemoveDeadCodeTransformer) re-derives the selector
    shapes with the outer name still of deferred type and raises ValueError('Non-matching dimensions') — the Associate /
    ExpressionDimensionsMapper defect recorded in notes/FIR.md (L2), not a property of dead-code removal"""
    def walk(stmts, bound):
        for s in stmts:
            h = _h(s)
            if h == 'assoc':
                for b in s[1]:
                    if _h(b[1]) not in ('v', 'idx', 'sec') and ex_names(b[1]) & bound:
                        return True
                if walk(s[2], bound | {str(b[0]) for b in s[1]}):
                    return True
            elif h == 'do':
                if walk(s[5], bound):
                    return True
            elif h == 'while':
                if walk(s[2], bound):
                    return True
            elif h == 'if':
                if walk(s[2], bound) or walk(s[3], bound):
                    return True
            elif h == 'select':
                if any(walk(c[1], bound) for c in s[2]) or walk(s[3], bound):
                    return True
        return False
    return any(walk(u[4], set()) for u in prog[2:])


def known_uv_assoc(prog):
    """an ASSOCIATE whose selector is an expression (not a variable, element or section): get_used_or_defined_symbols
    meets the expression itself among the used symbols — a Sum raises AttributeError (no name_parts), a Product passes but
    the variables inside it are not counted as used, so a name that occurs only there loses its declaration"""
    for u in prog[2:]:
        for s in iter_stmts(u[4]):
            if _h(s) == 'assoc' and any(_h(b[1]) not in ('v', 'idx', 'sec') for b in s[1]):
                return True
    return False


CP_CLASSES = [('cp-associate-alias', known_cp_assoc), ('cp-select-sequential', known_cp_select),
              ('cp-literal-type-conversion', known_cp_type),
              ('simplify-arithmetic-inherited', lambda p: known_simplify_arith(p, 'cp'))]


def classify(op, flag, prog, kind=''):
    """known-finding class of a failing input (None = outside every class).  ``kind``: 'raise <exception>' | 'diff' |
    'reject'"""
    if op == 'cp':
        table = list(CP_CLASSES)
        if kind.startswith('raise'):     # exceptions come out of the expression simplifier
            table = [CP_CLASSES[-1]] + CP_CLASSES[:-1]
    elif op == 'dc':
        table = []
        if kind.startswith('raise valueerror'):
            table.append(('associate-rebuild-inherited', known_assoc_nested))
        # symbolic_op(expr, eq, value) of visit_MultiConditional calls simplify even with use_simplify=False
        table.append(('simplify-arithmetic-inherited', lambda p: known_simplify_arith(p, 'dc')))
    elif op == 'uv':
        table = [('uv-associate-expression-selector', known_uv_assoc)]
    else:
        table = []
    for name, pred in table:
        if pred(prog):
            return name
    return None


# ====================================================================== direct oracle

def run_oracle(op, flag, prog, inputs, gfortran=False):
    """[(what, cls)] — original vs really transformed program on every input set"""
    out = []
    res = real_transformed(op, flag, prog)
    if res[0] == 'error':
        return [(f'{op}: the transformation raised {res[1]}: {res[2]}', classify(op, flag, prog, 'raise ' + res[1]))]
    cls = classify(op, flag, prog, 'diff')
    if res[0] == 'unsupported':
        return [(f'{op}: transformed IR left the FIR subset: {res[1]}', cls)]
    q, text = res[1], res[2]
    viaf = real_via_fgen(text, str(prog[1]))
    if viaf[0] != 'ok':
        # is it the transformation, or does Loki's fgen text of the UNtransformed routine fail the same way (C01/C02/C06)?
        base = real_via_fgen(_loki()[2](fir.parse_fortran(fir.emit_fortran(prog, wrap_program=False))), str(prog[1]))
        if base[0] == 'ok':
            return [(f'{op}: fgen text of the transformed code is not accepted again ({viaf[0]} {viaf[1]})', cls)]
        q2 = q
    else:
        q2 = viaf[1]
    gf_items = []
    for inp in inputs:
        st = {}
        ref = fir.interp(prog, inp, stats=st)
        if ref[0] != 'ok':
            continue        # only finished runs are in the property's scope
        for tag, qq in (('exported IR', q), ('fgen text', q2)):
            got = fir.interp(qq, inp)
            d = fir.compare_results(ref, got)
            if d:
                out.append((f'{op}: transformed program ({tag}) differs from the original: {d}', cls))
                break
        if out:
            break
        if gfortran and fir.exact_in_hardware(st):
            gf_items.append((ref, inp))
    if gfortran and gf_items and not out:
        items = [(prog, inp) for _, inp in gf_items] + [(q2, inp) for _, inp in gf_items]
        rs = fir.run_gfortran(items, batch=20, jobs=2)
        n = len(gf_items)
        for k, (ref, inp) in enumerate(gf_items):
            a, b = rs[k], rs[n + k]
            if a[0] != 'ok':
                continue     # the original itself is not accepted / fails in gfortran: not this property
            if b[0] in ('compile-error', 'emit-error'):
                out.append((f'{op}: gfortran rejects the transformed program: {str(b[1])[:160]}', cls))
                break
            d = fir.compare_results(a, b, undef_wild=False)
            if d:
                out.append((f'{op}: gfortran runs of original and transformed program differ: {d}', cls))
                break
    return out


# ====================================================================== generators

def _in_scalars(u, ty):
    """intent(in) scalar dummies of type ty: defined everywhere in the unit"""
    return [str(d[1]) for d in u[3] if not d[4] and str(d[3]) == 'in' and str(d[2]) == ty and _is_none(d[5])]


def gen_cond(rng, ints, logs, depth=2):
    """a condition inside the class the model of `simplify` covers: logical literals / variables, comparisons of
    integer atoms (foldable when both are literals), .not. / .and. / .or."""
    r = rng.random()
    if depth > 0 and r < 0.35:
        k = rng.random()
        if k < 0.3:
            return NOT(gen_cond(rng, ints, logs, depth - 1))
        return BIN('and' if k < 0.65 else 'or', gen_cond(rng, ints, logs, depth - 1), gen_cond(rng, ints, logs, depth - 1))
    if r < 0.55:
        return Bl(rng.random() < 0.5)
    if r < 0.65 and logs:
        return V(rng.choice(logs))

    def atom():
        if ints and rng.random() < 0.4:
            return V(rng.choice(ints))
        return ilit(rng.randint(-3, 6))
    return BIN(rng.choice(fir.CMPS), atom(), atom())


def rewrite_conditions(rng, prog, mode):
    """mode 'lit': some IF conditions become .true. / .false.; mode 'class': every IF condition is replaced by one of
    the modelled class; SELECT expressions become atoms in both modes"""
    units = []
    for u in prog[2:]:
        ints, logs = _in_scalars(u, 'int'), _in_scalars(u, 'logical')

        def fs(stmts, ints=ints, logs=logs):
            out = []
            for s in stmts:
                h = _h(s)
                if h == 'if':
                    if mode == 'class':
                        s = [s[0], gen_cond(rng, ints, logs), s[2], s[3]]
                    elif rng.random() < 0.5:
                        s = [s[0], Bl(rng.random() < 0.5), s[2], s[3]]
                elif h == 'select':
                    vals = [int(str(v)) for c in s[2] for v in c[0]] or [0]
                    e = V(rng.choice(ints)) if ints and rng.random() < 0.4 else ilit(rng.choice(vals + [rng.randint(-2, 9)]))
                    s = [s[0], e, s[2], s[3]]
                out.append(s)
            return out
        body = fs([fir._map_stmt(lambda e: e, s, fs) for s in u[4]])
        units.append([u[0], u[1], u[2], u[3], body])
    return fir.canon([prog[0], prog[1]] + units)


def add_unused(rng, prog):
    """inject unused locals into every unit and an unused dummy (with its actual at every call site) into callees"""
    names = [str(u[1]) for u in prog[2:]]
    pos = {}
    units = []
    for k, u in enumerate(prog[2:]):
        decls = list(u[3])
        args = list(u[2])
        if rng.random() < 0.8:
            decls.append([A('decl'), A('u1'), A(rng.choice(['int', 'real'])), A('none'), [], NONE])
        if rng.random() < 0.8:
            decls.append([A('decl'), A('ua1'), A('int'), A('none'), [[ilit(1), ilit(rng.randint(2, 4))]], NONE])
        if k > 0 and rng.random() < 0.8:
            p = rng.randint(0, len(args))
            pos[str(u[1])] = p
            args.insert(p, A('ud1'))
            decls.insert(0, [A('decl'), A('ud1'), A('int'), A('in'), [], NONE])
        units.append([u[0], u[1], args, decls, u[4]])

    def fs(stmts):
        out = []
        for s in stmts:
            if _h(s) == 'callsub' and str(s[1]) in pos:
                a = list(s[2:])
                a.insert(pos[str(s[1])], ilit(rng.randint(0, 9)))
                s = [s[0], s[1]] + a
            out.append(s)
        return out
    units = [[u[0], u[1], u[2], u[3], fs([fir._map_stmt(lambda e: e, s, fs) for s in u[4]])] for u in units]
    return fir.canon([prog[0], prog[1]] + units)


class _CpGen:
    """small integer / logical / real-copy programs inside the expression class of the constant-propagation model"""

    def __init__(self, rng, loops=True, extras=True):
        self.rng = rng
        self.loops, self.extras = loops, extras
        self.ints = ['x1', 'x2', 'x3', 'x4']
        self.logs = ['p1', 'p2']
        self.reals = ['t1', 't2']
        self.consts = ['j1', 'j2']
        self.defined = {'n', 'k1', 'k2', 'q1', 's1', 'j1', 'j2'}
        self.loopvars = []
        self.left = rng.randint(6, 16)
        self.calls = False
        self.in_while = False

    def atom_i(self, lit_p=0.4):
        rng = self.rng
        cands = [x for x in self.ints + ['k1', 'k2', 'j1', 'j2'] + self.loopvars if x in self.defined or x in self.loopvars]
        if self.has_c1 and rng.random() < 0.1:
            return V('c1')
        if rng.random() < lit_p or not cands:
            return I(rng.choice((0, 0, 1, 1, 2, 3, 4, 5)))
        if rng.random() < 0.12:
            return IDX('a1', self.subscript())
        return V(rng.choice(cands))

    def subscript(self):
        rng = self.rng
        c = [V(v) for v in self.loopvars] + [V('j1'), V('j2'), I(rng.randint(1, 5))]
        return rng.choice(c)

    def expr_i(self):
        rng = self.rng
        r = rng.random()
        if r < 0.35:
            return self.atom_i()
        if r < 0.42:
            a = self.atom_i(0.2)
            return NEG(a) if _h(a) != 'i' or int(str(a[1])) > 0 else a
        op = rng.choice(('add', 'add', 'sub', 'mul'))
        return BIN(op, self.atom_i(), self.atom_i())

    def cond(self, depth=2):
        rng = self.rng
        r = rng.random()
        if depth > 0 and r < 0.3:
            k = rng.random()
            if k < 0.3:
                return NOT(self.cond(depth - 1))
            return BIN('and' if k < 0.65 else 'or', self.cond(depth - 1), self.cond(depth - 1))
        if r < 0.42:
            return Bl(rng.random() < 0.5)
        logs = [x for x in self.logs + ['q1'] if x in self.defined]
        if r < 0.6 and logs:
            return V(rng.choice(logs))
        a, b = self.atom_i(), self.atom_i()
        if rng.random() < 0.15:
            b = ilit(-rng.randint(1, 3))
        return BIN(rng.choice(fir.CMPS), a, b)

    def stmts(self, depth, in_loop=False):
        out = []
        n = self.rng.randint(1, 4)
        for _ in range(n):
            if self.left <= 0:
                break
            out += self.stmt(depth, in_loop)
        return out

    def stmt(self, depth, in_loop):
        rng = self.rng
        self.left -= 1
        r = rng.random()
        if r < 0.42:
            x = rng.choice(self.ints)
            s = [A('assign'), V(x), self.expr_i()]
            self.defined.add(x)
            return [s]
        if r < 0.52:
            x = rng.choice(self.logs)
            s = [A('assign'), V(x), self.cond(1)]
            self.defined.add(x)
            return [s]
        if r < 0.58:
            x = rng.choice(self.reals)
            src = [y for y in self.reals + ['s1'] if y in self.defined]
            e = V(rng.choice(src)) if src and rng.random() < 0.5 else R(Fraction(rng.randint(0, 24), 8))
            self.defined.add(x)
            return [[A('assign'), V(x), e]]
        if r < 0.66:
            return [[A('assign'), IDX('a1', self.subscript()), self.expr_i()]]
        if r < 0.72:
            vs = [x for x in self.ints + self.logs + self.reals if x in self.defined]
            if vs:
                return [[A('print')] + [V(v) for v in rng.sample(vs, min(len(vs), rng.randint(1, 2)))]]
            return []
        if r < 0.86 and depth > 0:
            c = self.cond()
            d0 = set(self.defined)
            t = self.stmts(depth - 1, in_loop)
            d1, self.defined = self.defined, set(d0)
            e = self.stmts(depth - 1, in_loop) if rng.random() < 0.6 else []
            self.defined = d1 & self.defined
            return [[A('if'), c, t, e]]
        if r < 0.96 and depth > 0 and self.loops and len(self.loopvars) < 2:
            v = 'i%d' % (len(self.loopvars) + 1)
            lo = rng.choice([I(1), I(1), I(2), V('j1')])
            hi = rng.choice([I(3), I(4), I(5), V('n'), V('j2'), I(0)])
            d0 = set(self.defined)
            self.loopvars.append(v)
            body = self.stmts(depth - 1, True)
            self.loopvars.pop()
            self.defined = d0 | {v}
            if not body:
                return []
            return [[A('do'), A(v), lo, hi, NONE, body]]
        if self.extras and depth > 0 and not self.in_while and rng.random() < 0.35:
            # DO WHILE with a counter (the increment comes first, so CYCLE cannot skip it)
            self.in_while = True
            d0 = set(self.defined) | {'w1'}
            self.defined = set(d0)
            body = [[A('assign'), V('w1'), BIN('add', V('w1'), I(1))]] + self.stmts(depth - 1, True)
            self.defined = d0
            self.in_while = False
            return [[A('assign'), V('w1'), I(0)],
                    [A('while'), BIN('lt', V('w1'), I(rng.randint(0, 3))), body]]
        if in_loop and rng.random() < 0.12:
            return [[A('if'), self.cond(1), [[A(rng.choice(['exit', 'cycle']))]], []]]
        if self.extras and rng.random() < 0.45:
            xs = [x for x in self.ints if x in self.defined]
            if xs:
                self.calls = True
                b = self.atom_i()
                if _h(b) == 'idx':
                    b = I(2)
                return [[A('callsub'), A('sub1'), V(rng.choice(xs)), b]]
        if self.extras and depth > 0 and rng.random() < 0.5:
            # SELECT CASE on an atom
            e = self.atom_i(0.2)
            d0 = set(self.defined)
            blocks = []
            for vals in ([1], [2, 3]):
                self.defined = set(d0)
                blocks.append([vals, self.stmts(depth - 1, in_loop) or [[A('nop'), A('comment'), 'empty']]])
            self.defined = set(d0)
            dflt = self.stmts(depth - 1, in_loop)
            self.defined = set(d0)
            return [[A('select'), e, blocks, dflt]]
        return [[A('nop'), A('comment'), 'note']]

    def build(self):
        rng = self.rng
        self.has_c1 = rng.random() < 0.3
        D = lambda x, ty, it='none', dims=(), p=NONE: [A('decl'), A(x), A(ty), A(it), [list(d) for d in dims], p]
        decls = [D('n', 'int', 'in'), D('k1', 'int', 'in'), D('k2', 'int', 'in'), D('q1', 'logical', 'in'),
                 D('s1', 'real', 'in'), D('a1', 'int', 'inout', [(ilit(1), ilit(5))]),
                 D('o1', 'int', 'out'), D('o2', 'int', 'out'), D('l1', 'logical', 'out'), D('r1', 'real', 'out')]
        decls += [D(x, 'int') for x in self.ints + self.consts + ['i1', 'i2', 'w1']]
        decls += [D(x, 'logical') for x in self.logs] + [D(x, 'real') for x in self.reals]
        if self.has_c1:
            decls.append(D('c1', 'int', 'none', (), I(rng.randint(0, 4))))
        body = [[A('assign'), V('j1'), I(rng.randint(1, 2))], [A('assign'), V('j2'), I(rng.randint(3, 5))]]
        while self.left > 0:
            body += self.stmt(2, False)
        ints = [x for x in self.ints if x in self.defined]
        body.append([A('assign'), V('o1'), V(rng.choice(ints)) if ints else I(0)])
        body.append([A('assign'), V('o2'), self.expr_i()])
        logs = [x for x in self.logs if x in self.defined]
        body.append([A('assign'), V('l1'), V(rng.choice(logs)) if logs else self.cond(1)])
        reals = [x for x in self.reals if x in self.defined]
        body.append([A('assign'), V('r1'), V(rng.choice(reals)) if reals else V('s1')])
        args = ['n', 'k1', 'k2', 'q1', 's1', 'a1', 'o1', 'o2', 'l1', 'r1']
        u = [A('unit'), A('kernel'), [A(a) for a in args], decls, body]
        units = [u]
        if self.calls:
            units.append([A('unit'), A('sub1'), [A('a'), A('b')], [D('a', 'int', 'inout'), D('b', 'int', 'in')],
                          [[A('assign'), V('a'), BIN('add', V('b'), I(1))]]])
        return fir.canon([A('program'), A('kernel')] + units)


STRIDE_KINDS = ('asc-negstep', 'desc-posstep', 'prop-bounds-negstep', 'runtime-step-asc', 'prop-posstep-desc',
                'prop-negstep', 'desc-negstep', 'asc-step2', 'runtime-step-desc', 'asc-nostep')


def _stride_loop(rng, kind):
    """(lo, hi, step, index range stays inside 1..5) of a DO loop of the given family; the first six are zero-trip (the
    run-time ones for some inputs)"""
    if kind == 'asc-negstep':            # start <= stop, negative literal stride: no iteration
        return I(rng.randint(1, 2)), I(rng.randint(3, 5)), ilit(-rng.randint(1, 3))
    if kind == 'desc-posstep':           # start > stop, positive (or absent) stride: no iteration
        return I(rng.randint(3, 5)), I(rng.randint(0, 2)), rng.choice([NONE, I(1), I(2)])
    if kind == 'prop-bounds-negstep':    # bounds known only after propagation (j1 <= j2), negative stride
        return V('j1'), V('j2'), ilit(-rng.randint(1, 2))
    if kind == 'runtime-step-asc':       # stride known at run time only: zero-trip iff negative
        return I(1), I(rng.randint(3, 5)), V(rng.choice(['k1', 'k2']))
    if kind == 'prop-posstep-desc':      # stride known after propagation, positive, descending bounds
        return I(rng.randint(3, 5)), I(1), V('j1')
    if kind == 'prop-negstep':           # stride negative only after propagation: -j1
        return I(1), I(rng.randint(2, 5)), NEG(V('j1'))
    if kind == 'desc-negstep':           # executes
        return I(rng.randint(3, 5)), I(rng.randint(1, 2)), ilit(-rng.randint(1, 2))
    if kind == 'asc-step2':              # executes
        return I(1), I(rng.randint(2, 5)), I(rng.randint(2, 3))
    if kind == 'runtime-step-desc':      # executes iff the stride is negative
        return V('j2'), V('j1'), V(rng.choice(['k1', 'k2']))
    return I(1), I(rng.randint(1, 5)), NONE


def gen_stride_program(rng):
    """probes for the loop rule: a scalar that holds a constant before a DO loop (all stride families, half of them
    zero-trip), is reassigned in the body and read afterwards"""
    D = lambda x, ty, it='none', dims=(), p=NONE: [A('decl'), A(x), A(ty), A(it), [list(d) for d in dims], p]
    outs = ['o1', 'o2', 'o3']
    decls = [D('k1', 'int', 'in'), D('k2', 'int', 'in'), D('a1', 'int', 'inout', [(ilit(1), ilit(5))])] + \
        [D(o, 'int', 'out') for o in outs] + [D(x, 'int') for x in ('x1', 'x2', 'x3', 'j1', 'j2', 'i1', 'i2')]
    body = [[A('assign'), V('j1'), I(rng.randint(1, 2))], [A('assign'), V('j2'), I(rng.randint(3, 5))]]
    kinds = rng.sample(STRIDE_KINDS, 3)
    for x, o, kind in zip(('x1', 'x2', 'x3'), outs, kinds):
        lo, hi, st = _stride_loop(rng, kind)
        c1, c2 = rng.sample(range(0, 9), 2)
        inner = [[A('assign'), V(x), I(c2)]]
        r = rng.random()
        if r < 0.3:
            inner.insert(0, [A('assign'), IDX('a1', V('i1')), V(x)])       # read before the reassignment
        elif r < 0.5:
            inner.append([A('assign'), V(x), BIN('add', V(x), I(1))])
        elif r < 0.6:
            inner = [[A('if'), BIN('lt', V('k1'), I(0)), inner, []]]          # conditional reassignment
        elif r < 0.7:
            inner = [[A('do'), A('i2'), I(1), I(rng.randint(0, 2)), NONE, inner]]   # nested, maybe zero-trip
        body.append([A('assign'), V(x), I(c1)])
        body.append([A('do'), A('i1'), lo, hi, st, inner])
        body.append([A('assign'), V(o), BIN(rng.choice(['add', 'mul', 'sub']), V(x), rng.choice([V('k2'), I(2), V('j1')]))])
    u = [A('unit'), A('kernel'), [A(a) for a in ['k1', 'k2', 'a1'] + outs], decls, body]
    return fir.canon([A('program'), A('kernel'), u])


def stride_inputs(rng, prog):
    """three input sets: negative, positive and arbitrary run-time strides"""
    ins = fir.gen_inputs(rng, prog, 3, max_extent=5)
    for row, sign in zip(ins, (-1, 1, None)):
        for e in row:
            if str(e[0]) in ('k1', 'k2') and sign is not None:
                e[1] = fir.encode_val(sign * rng.randint(1, 3))
    return ins


def gen_cp_program(rng, loops=True, extras=True):
    for _ in range(20):
        p = _CpGen(rng, loops, extras).build()
        ok = True
        prng = random.Random(rng.getrandbits(32))
        for inp in fir.gen_inputs(prng, p, 2, max_extent=5):
            st = {}
            r = fir.interp(p, inp, fuel=20000, stats=st)
            if r[0] != 'ok' or st.get('max_int', 0) >= 2 ** 28:
                ok = False
        if ok:
            return p
    return p


# ====================================================================== the property

WIDE_CFG = {'max_stmts': 14, 'n_callees': (0, 1), 'callee_stmts': 5}
DC_CFG = {'max_stmts': 14, 'n_callees': (0, 1), 'callee_stmts': 5, 'weights': {'if': 25, 'select': 8}}
UV_CFG = {'max_stmts': 12, 'n_callees': (1, 2), 'callee_stmts': 5, 'weights': {'call': 20}}


def mkreq(op, flag, kmode, prog, inputs):
    return [A('c32'), A(op), A(flag), A(kmode), prog, inputs]


def dec_req(req):
    if not isinstance(req, list) or len(req) != 6 or str(req[0]) != 'c32':
        raise ValueError('malformed request')
    op, flag, kmode = str(req[1]), str(req[2]), str(req[3])
    if op not in ('dc', 'cp', 'uv') or kmode not in ('k', 'o', 'kg', 'og') or flag not in ('simp', 'nosimp', 'plain', 'unroll', 'all', 'arrays'):
        raise ValueError('malformed request')
    prog, inputs = req[4], req[5]
    if _h(prog) != 'program' or not isinstance(inputs, list):
        raise ValueError('malformed request')
    return op, flag, kmode, prog, inputs


class C32(Prop):
    id = 'C32'
    title = 'Constant propagation and code removal preserve behaviour'
    model_modules = ['LokiModel.C32.Model', 'LokiModel.C32.Encode']
    props_module = 'LokiModel.Props.C32'
    findings_module = 'LokiModel.Findings.C32'
    driver = 'Drivers/C32.lean'
    theorems = ['C32_deadcode_sound', 'C32_deadcode_runMain', 'C32_mapper_sound', 'C32_constprop_sound_loopfree',
                'C32_constprop_invariant', 'C32_constprop_sound', 'C32_loop_body_frame']
    design_ref = 'DESIGN.md 4.F C32'
    level = 'proof'
    level_text = (
        'Theorems (Lean kernel, all programs of the modelled class, all states, all fuel, FIR semantics of Fir/Sem.lean): '
        'C32_deadcode_sound / C32_deadcode_runMain — full strength: for the model of RemoveDeadCodeTransformer (IF pruning on '
        'literal or simplify-foldable conditions, SELECT CASE pruning on constant selectors, every other statement kind '
        'traversed, callee bodies transformed as well) every finished run of the original is reproduced by the transformed '
        'program (simulation over the four mutually recursive interpreter functions, fuel aligned by the monotonicity theorem). '
        'C32_mapper_sound — the model of ConstantPropagationMapper/simplify on the covered expression class preserves values '
        'under a constants map that holds in the state, outside two type-dependent folds (v - v -> 0, 0 * v -> 0). '
        'C32_constprop_sound_loopfree / C32_constprop_invariant — for loop-free bodies (scalar and element assignments, IF/ELSE, '
        'PRINT, comments) the invariant "every entry of the constants map holds in every state reaching this point" is '
        'maintained and the rewritten body computes the same run. C32_constprop_sound (since the fix: commit be169e3 repaired '
        'visit_Loop / added visit_WhileLoop) — the same through DO and DO WHILE loops with EXIT and CYCLE, any nesting: the map '
        'the body is visited with (everything the loop defines removed) holds at the top of every iteration because the body '
        'leaves every other scalar cell alone (C32_loop_body_frame), and the map after the loop (end-of-body map for loops that '
        'certainly run, agreement of the maps before the loop and at the end of the body otherwise, entry map when the body '
        'contains EXIT/CYCLE) holds once the loop is left. Hypotheses: alias-free state whose scalar cells have their declared '
        'type (Inv), map keys are scalars (KeysScalar), decidable domain predicate cpOKL (excludes the open class '
        'cp-literal-type-conversion and the two type-dependent folds). NOT covered by a theorem: SELECT CASE and ASSOCIATE under '
        'constant propagation (the unchanged code is wrong there: model mirrors it, witness theorems in Findings/C32.lean, oracle '
        'classes), CALL (repaired by 7abc3d8, correspondence and oracle only). Unused variable / dummy argument removal: direct '
        'oracle only (no model).')
    level_note = (
        'The model is hand-written from constant_propagation.py and remove_code.py; the expression mapper is modelled only on '
        'the class where SimplifyMapper acts by literal folding, unit laws and reordering (atoms, -a, a+b, a-b, a*b, comparisons, '
        '.not./.and./.or.) — outside it the model answers outside-class and only the oracle applies (the full simplifier is '
        'C08). Tied to the code by comparing export(T_real(parse(emit p))) with the Lean driver on generated programs. '
        'The Fortran semantics is the shared FIR interpreter (tied to gfortran by fir_selftest and by the thorough oracle).')
    technique = 'Lean 4 simulation proofs about a hand-written model over the shared FIR semantics + correspondence with the real transformers + direct oracle (Python FIR interpreter, gfortran in the thorough tier)'
    rule = ('programs: (cp-k) own generator of integer/logical/real-copy programs inside the modelled expression class with '
            'conditionals, DO loops, SELECT, array elements; (dc-k-lit / dc-k-simp) fir.gen_program biased to IF/SELECT with '
            'conditions replaced by literal / simplify-foldable ones; (cp-wide, dc-wide, uv) unrestricted fir.gen_program, the '
            'latter with injected unused locals and dummies; 2-3 input sets each; non-trivial = the transformation changed the '
            'program; distinct by request line')
    trusted_base = ['harness/fir.py (emitter, exporter, reference interpreter, gfortran runner; three-way self-test)',
                    'Loki fparser frontend and fgen backend for the round trip of the transformed code',
                    'lean/LokiModel/Fir/Sem.lean as the meaning of FIR programs', 'Lean driver evaluation of model definitions']
    assumptions = ['programs are standard-conforming FIR programs whose original run finishes without error (other runs are outside the property)',
                   'integers are unbounded and reals exact rationals in the model; generated programs stay inside 32-bit / exact doubles',
                   'do_constant_propagation without loop unrolling; RemoveCodeTransformation pieces are called directly, not through the Scheduler']
    extra_obligations = ['correspondence: dead-code removal (use_simplify on/off) real vs model',
                         'correspondence: constant propagation real vs model',
                         'oracle: original vs transformed program (exported IR and fgen text) on every input set',
                         'post: programs inside the theorem domain pass the oracle']

    def classes(self):
        return ['cp-associate-alias', 'cp-select-sequential', 'cp-literal-type-conversion', 'simplify-arithmetic-inherited',
                'uv-associate-expression-selector',
                'associate-rebuild-inherited']

    # ------------------------------------------------------------ generation
    def gen(self, rng, tier):
        n = {'quick': dict(cpk=36, dcl=10, dcs=16, cpw=8, dcw=6, uv=8, stride=8),
             'thorough': dict(cpk=300, dcl=60, dcs=110, cpw=60, dcw=45, uv=45, stride=60),
             'search': dict(cpk=200, dcl=50, dcs=80, cpw=50, dcw=30, uv=40, stride=40)}.get(tier, None) or \
            dict(cpk=36, dcl=10, dcs=16, cpw=8, dcw=6, uv=8, stride=8)
        g = (lambda k: 'g' if (tier == 'thorough' and k % 10 == 0) else '')
        for k in range(n['cpk']):
            p = gen_cp_program(rng, loops=(k % 3 != 0), extras=(k % 3 == 2))
            ins = fir.gen_inputs(rng, p, 2, max_extent=5)
            yield Case(mkreq('cp', 'plain', 'k' + g(k), p, ins), stream='cp-k' + ('' if k % 3 else '-loopfree'))
        def dc_prog(mode):
            for _ in range(20):
                p = rewrite_conditions(rng, fir.gen_program(rng, DC_CFG), mode)
                if not known_assoc_nested(p):      # the K streams stay out of the inherited ASSOCIATE-rebuild class
                    return p
            return p
        for k in range(n['dcl']):
            p = dc_prog('lit')
            yield Case(mkreq('dc', 'nosimp', 'k' + g(k), p, fir.gen_inputs(rng, p, 2)), stream='dc-k-lit')
        for k in range(n['dcs']):
            p = dc_prog('class')
            yield Case(mkreq('dc', 'simp', 'k' + g(k), p, fir.gen_inputs(rng, p, 2)), stream='dc-k-simp')
        for k in range(n['cpw']):
            p = fir.gen_program(rng, WIDE_CFG)
            yield Case(mkreq('cp', 'plain', 'o' + g(k), p, fir.gen_inputs(rng, p, 2)), stream='cp-wide')
        for k in range(n['dcw']):
            p = fir.gen_program(rng, DC_CFG)
            yield Case(mkreq('dc', 'simp', 'o' + g(k), p, fir.gen_inputs(rng, p, 2)), stream='dc-wide')
        for k in range(n['uv']):
            p = add_unused(rng, fir.gen_program(rng, UV_CFG))
            yield Case(mkreq('uv', 'all' if k % 2 else 'arrays', 'o' + g(k), p, fir.gen_inputs(rng, p, 2)), stream='uv')
        # loop-rule probes (after every other stream, so that the earlier streams keep their random sequence)
        for k in range(n['stride']):
            p = gen_stride_program(rng)
            ins = stride_inputs(rng, p)
            yield Case(mkreq('cp', 'plain', 'k' + g(k), p, ins), stream='cp-k-stride')
            if k % 2 == 0:
                yield Case(mkreq('cp', 'unroll', 'o', p, ins), stream='cp-o-stride-unroll')

    # ------------------------------------------------------------ real code
    def impl(self, req):
        op, flag, kmode, prog, inputs = dec_req(req)
        if kmode.startswith('o'):
            return [A('oracle-only')]
        r = real_transformed(op, flag, prog)
        if r[0] == 'ok':
            return [A('ok'), r[1]]
        return [A(r[0]), A(r[1])]

    def canon_model(self, resp):
        # (ok PROG (dom BOOL)): the domain flag is for the post hook
        if isinstance(resp, list) and len(resp) == 3 and str(resp[0]) == 'ok':
            return resp[:2]
        return resp

    # ------------------------------------------------------------ oracle
    def oracle(self, req):
        op, flag, kmode, prog, inputs = dec_req(req)
        gf = kmode.endswith('g')       # thorough tier: every 10th case also goes through gfortran
        return [Failure(what, cls) for what, cls in run_oracle(op, flag, prog, inputs, gfortran=gf)]

    def shrink_candidates(self, req):
        """drop statements / input sets (structure preserving)"""
        try:
            op, flag, kmode, prog, inputs = dec_req(req)
        except Exception:
            return
        if len(inputs) > 1:
            for i in range(len(inputs)):
                yield mkreq(op, flag, kmode, prog, inputs[:i] + inputs[i + 1:])

        def variants(stmts):
            for i, s in enumerate(stmts):
                yield stmts[:i] + stmts[i + 1:]
                h = _h(s)
                if h == 'do':
                    for b in variants(s[5]):
                        yield stmts[:i] + [[s[0], s[1], s[2], s[3], s[4], b]] + stmts[i + 1:]
                elif h in ('while', 'assoc'):
                    for b in variants(s[2]):
                        yield stmts[:i] + [[s[0], s[1], b]] + stmts[i + 1:]
                elif h == 'if':
                    yield stmts[:i] + s[2] + stmts[i + 1:]
                    yield stmts[:i] + s[3] + stmts[i + 1:]
                    for b in variants(s[2]):
                        yield stmts[:i] + [[s[0], s[1], b, s[3]]] + stmts[i + 1:]
                    for b in variants(s[3]):
                        yield stmts[:i] + [[s[0], s[1], s[2], b]] + stmts[i + 1:]
        for k, u in enumerate(prog[2:]):
            if k > 0 and not any(_h(s) == 'callsub' and str(s[1]) == str(u[1]) for v in prog[2:] for s in iter_stmts(v[4])):
                yield mkreq(op, flag, kmode, prog[:2 + k] + prog[3 + k:], inputs)
            for b in variants(u[4]):
                yield mkreq(op, flag, kmode, prog[:2 + k] + [[u[0], u[1], u[2], u[3], b]] + prog[3 + k:], inputs)

    # ------------------------------------------------------------ cross-checks
    def post(self, cases, impl_out, model_raw, oracle_fail):
        problems, cov = [], Counter()
        failing = {}
        for c, f in oracle_fail:
            failing.setdefault(c.line, []).append(f)
        if model_raw is None:
            return [], {}
        for c, a, raw in zip(cases, impl_out, model_raw):
            try:
                op, flag, kmode, prog, inputs = dec_req(c.req)
            except Exception:
                continue
            if not kmode.startswith('k'):
                cov['oracle_only_cases'] += 1
                continue
            m = loads(raw)
            if str(m[0]) == 'outside-class':
                cov['k_cases_outside_model_class'] += 1
                continue
            if str(m[0]) != 'ok':
                cov['k_cases_model_predicts_exception'] += 1
                continue
            changed = dumps(m[1]) != dumps(fir.normalize(prog))
            cov[f'{op}_k_changed' if changed else f'{op}_k_unchanged'] += 1
            dom = len(m) == 3 and str(m[2][1]) == 'true'
            if dom:
                cov[f'{op}_k_in_theorem_domain'] += 1
                fs = [f for f in failing.get(c.line, []) if not f.error]
                if fs and a == dumps(m[:2]):
                    problems.append(f'{op} program inside the theorem domain fails the direct oracle: {fs[0].what} '
                                    f'input={c.line[:300]}')
        return problems, dict(cov)


PROP = C32()
READY = True
