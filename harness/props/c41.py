"""C41 — built-in transformations leave a well-formed IR (scope chains, declared-or-imported, frontend and compiler accept fgen)."""
import re
from collections import Counter

from ..core import Prop, Case, Failure
from ..sexpr import A, dumps, loads
from .. import fir
from . import c40
from .c40 import h

stats = Counter()
STRICT_SCOPES = False     # True: every hop of a symbol's scope chain must be a node that is still part of the routine's tree

TRANSFORM_TIME_LIMIT = 90      # seconds per transformation run


class TransformTimeout(BaseException):
    """raised by the alarm handler; BaseException so that no `except Exception` inside Loki swallows it"""


class time_limit:
    def __init__(self, seconds):
        self.seconds = seconds

    def __enter__(self):
        import signal

        def handler(signum, frame):
            raise TransformTimeout()
        try:
            self.old = signal.signal(signal.SIGALRM, handler)
            signal.alarm(self.seconds)
            self.armed = True
        except ValueError:          # not in the main thread
            self.armed = False

    def __exit__(self, *exc):
        import signal
        if self.armed:
            signal.alarm(0)
            signal.signal(signal.SIGALRM, self.old)
        return False


# ====================================================================== registry of built-in transformations


def _each(fn):
    def run(sf):
        for r in sf.all_subroutines:
            fn(r)
    return run


def _imp(path, name):
    import importlib
    return getattr(importlib.import_module(path), name)


def _mk(path, name, **kw):
    return _each(lambda r: _imp(path, name)(r, **kw))


def _norm(name):
    return lambda sf: c40.apply_norm(name, sf)


T = 'loki.transformations.'
REGISTRY = {
    # the C40 normalisers
    'resolve_associates': _norm('assoc'),
    'resolve_associates(start_depth=1)': _mk(T + 'sanitise.associates', 'do_resolve_associates', start_depth=1),
    'merge_associates': _mk(T + 'sanitise.associates', 'do_merge_associates'),
    'resolve_vector_notation': _norm('vector'),
    'resolve_vector_notation(insert_comments)': _mk(T + 'array_indexing', 'resolve_vector_notation', insert_comments=True),
    'normalize_range_indexing': _norm('range'),
    'convert_to_lower_case': _norm('lower'),
    'sanitise_imports': _norm('imports'),
    'resolve_sequence_association': _norm('seqassoc'),
    'remove_dead_code': _norm('dead'),
    'remove_dead_code(use_simplify=False)': _norm('deadns'),
    'single_variable_declaration': _norm('single'),
    'single_variable_declaration(group_by_shape)': _norm('singleshape'),
    # loops
    'loop_unroll': _mk(T + 'transform_loop', 'do_loop_unroll', warn_iterations_length=False),
    'loop_fusion': _mk(T + 'transform_loop', 'do_loop_fusion'),
    'loop_fission': _mk(T + 'transform_loop', 'do_loop_fission'),
    'loop_fission(promote=False)': _mk(T + 'transform_loop', 'do_loop_fission', promote=False),
    'loop_interchange': _mk(T + 'transform_loop', 'do_loop_interchange'),
    # constants, dead code, unused
    'constant_propagation': _mk(T + 'constant_propagation', 'do_constant_propagation'),
    'constant_propagation(unroll_loops)': _mk(T + 'constant_propagation', 'do_constant_propagation', unroll_loops=True),
    'remove_unused_vars': _mk(T + 'remove_code', 'do_remove_unused_vars'),
    'remove_unused_vars(all)': _mk(T + 'remove_code', 'do_remove_unused_vars', remove_only_arrays=False),
    'remove_marked_regions': _mk(T + 'remove_code', 'do_remove_marked_regions'),
    # inlining
    'inline_constant_parameters': _mk(T + 'inline', 'inline_constant_parameters', external_only=False),
    'inline_internal_procedures': _mk(T + 'inline', 'inline_internal_procedures'),
    'inline_marked_subroutines': _mk(T + 'inline', 'inline_marked_subroutines'),
    'inline_elemental_functions': _mk(T + 'inline', 'inline_elemental_functions'),
    # regions
    'region_hoist': _mk(T + 'transform_region', 'region_hoist'),
    'outline_pragma_regions': _each(lambda r: _imp(T + 'extract', 'outline_pragma_regions')(r)),
    'extract_internal_procedures': _each(lambda r: _imp(T + 'extract', 'extract_internal_procedures')(r)),
    # array indexing
    'add_explicit_array_dimensions': _mk(T + 'array_indexing', 'add_explicit_array_dimensions'),
    'remove_explicit_array_dimensions': _mk(T + 'array_indexing', 'remove_explicit_array_dimensions'),
    'remove_explicit_array_dimensions(calls_only)': _mk(T + 'array_indexing', 'remove_explicit_array_dimensions', calls_only=True),
    'normalize_array_shape_and_access': _mk(T + 'array_indexing', 'normalize_array_shape_and_access'),
}


# ---- decorations of the source text that make pragma-driven transformations do something

def pragma_text(src, tname, rng):
    out = []
    lines = src.splitlines()
    for k, line in enumerate(lines):
        st = line.strip().lower()
        ind = line[:len(line) - len(line.lstrip())]
        if tname == 'loop_unroll' and st.startswith('do ') and not st.startswith('do while') and rng.random() < 0.6:
            out.append(ind + '!$loki loop-unroll')
        if tname.startswith('loop_fusion') and st.startswith('do ') and not st.startswith('do while') and rng.random() < 0.7:
            out.append(ind + '!$loki loop-fusion group(gg)')
        if tname == 'loop_interchange' and st.startswith('do ') and k + 1 < len(lines) and lines[k + 1].strip().lower().startswith('do ') \
                and not st.startswith('do while') and not lines[k + 1].strip().lower().startswith('do while') and rng.random() < 0.7:
            out.append(ind + '!$loki loop-interchange')
        if tname == 'inline_marked_subroutines' and st.startswith('call ') and rng.random() < 0.7:
            out.append(ind + '!$loki inline')
        out.append(line)
        if tname.startswith('loop_fission') and (st.startswith('print') or ' = ' in st) and ind.startswith('    ') and rng.random() < 0.25:
            out.append(ind + '!$loki loop-fission')
    return '\n'.join(out) + '\n'


def decorate(src, tname, rng):
    if tname.startswith('single_variable'):
        return c40.multi_decl_text(src, rng)
    if tname == 'normalize_range_indexing':
        return c40.one_bounds_text(src, rng)
    if tname == 'sanitise_imports':
        return c40.imports_text(src, rng)
    if tname == 'convert_to_lower_case':
        return c40.recase_text(src, rng)
    return pragma_text(src, tname, rng)


# ====================================================================== well-formedness checks on the real IR

INTRINSIC_NAMES = set(fir.INTRINSICS) | {'size', 'lbound', 'ubound', 'present', 'kind'}


def wf_problems(sf, gf):
    """list of (kind, text) — empty when every routine of the transformed source file is well formed"""
    from loki import fgen, Sourcefile, Subroutine, Module
    from loki.frontend import FP
    from loki.ir import FindVariables, FindNodes, nodes as ir
    from loki.expression import symbols as sym
    probs = []
    units = list(sf.all_subroutines)
    units += [m for r in list(units) for m in r.members]
    for r in units:
        allowed = {id(r)}
        p = r.parent
        while p is not None:
            allowed.add(id(p))
            p = p.parent
        assoc_names = set()
        live = set()           # scoped nodes that are part of the routine's tree now
        for a in FindNodes(ir.Associate).visit(r.body):
            for _, n in a.associations:
                if hasattr(n, 'name'):
                    assoc_names.add(str(n.name).lower())
                else:
                    probs.append(('assoc-name', f'{r.name}: the associate-name of an ASSOCIATE block is {n!s}, not a symbol'))
            live.add(id(a))
        for a in FindNodes((ir.TypeDef, ir.Interface)).visit(r.ir):
            live.add(id(a))
        declared = {str(v.name).lower() for v in r.variables}
        # declarations: no name declared twice, INTENT only on dummy arguments
        from collections import Counter as _Counter
        dsyms = [sy for d in FindNodes(ir.VariableDeclaration).visit(r.spec) for sy in d.symbols]
        for nme, cnt in _Counter(str(sy.name).lower() for sy in dsyms).items():
            if cnt > 1:
                probs.append(('duplicate-declaration', f'{r.name}: {nme} is declared {cnt} times'))
        dummies = {str(a).lower() for a in r._dummies}
        for sy in dsyms:
            if getattr(sy.type, 'intent', None) and str(sy.name).lower() not in dummies:
                probs.append(('intent-on-local', f'{r.name}: {sy.name} is declared with INTENT but is not a dummy argument'))
        imported = set()
        bare = False
        sc = r
        while sc is not None:
            for i in getattr(sc, 'imports', ()):
                if i.symbols:
                    imported |= {str(s.name).lower() for s in i.symbols}
                else:
                    bare = True
            if sc is not r:
                declared |= {str(v.name).lower() for v in getattr(sc, 'variables', ())}
            sc = sc.parent
        for v in FindVariables(unique=False).visit(r.ir):
            if not isinstance(v, (sym.Scalar, sym.Array, sym.DeferredTypeSymbol)):
                continue
            # scope chain
            s = getattr(v, 'scope', None)
            if s is None:
                probs.append(('scope', f'{r.name}: symbol {v} has no scope'))
            else:
                chain_ok = False
                hops = 0
                dangling = False
                while s is not None and hops < 50:
                    if id(s) in allowed:
                        chain_ok = True
                        break
                    if id(s) not in live and not isinstance(s, (Subroutine, Module)):
                        dangling = True      # e.g. an Associate node that was removed from the tree
                        break
                    s = s.parent
                    hops += 1
                if dangling and not STRICT_SCOPES:
                    # the stale node's own parent chain still reaches the routine: accepted (counted), see notes/C41.md
                    stats['stale-scope-node'] += 1
                    s2, hops2 = s, 0
                    while s2 is not None and hops2 < 50 and id(s2) not in allowed:
                        s2, hops2 = s2.parent, hops2 + 1
                    if s2 is None or hops2 >= 50:
                        probs.append(('scope', f'{r.name}: scope chain of symbol {v} does not reach the routine'))
                elif dangling:
                    probs.append(('scope', f'{r.name}: symbol {v} is scoped in a {type(s).__name__} node that is no longer part of the routine'))
                elif not chain_ok:
                    probs.append(('scope', f'{r.name}: scope chain of symbol {v} does not reach the routine'))
            # declared / imported / host associated / associate name
            name = str(v.name).lower().split('%')[0]
            if name not in declared and name not in imported and name not in assoc_names and not bare:
                probs.append(('undeclared', f'{r.name}: variable {name} is used but neither declared nor imported'))
        if probs:
            break
    try:
        text = fgen(sf.ir)
    except Exception as e:
        return probs + [('fgen', f'fgen raised {type(e).__name__}: {str(e)[:120]}')]
    try:
        Sourcefile.from_source(text, frontend=FP)
    except Exception as e:
        probs.append(('reparse', f'the frontend rejects the generated code: {type(e).__name__}: {str(e)[:120]}'))
    if gf and not probs:
        err = fir.gfortran_syntax_check(text)
        if err:
            probs.append(('gfortran', f'gfortran -fsyntax-only rejects the generated code: {err[:160]}'))
    return probs


# ---- classifier (mirrors of Lean Known… predicates / decidable text predicates)

def _dummy_spelled_differently(src):
    """some dummy argument of a routine of the source is spelled in two different letter cases"""
    dummies = set()
    for m in re.finditer(r'^\s*subroutine\s+\w+\s*\(([^)]*)\)', src, re.M | re.I):
        dummies |= {a.strip().lower() for a in m.group(1).split(',') if a.strip()}
    spell = {}
    for line in src.splitlines():
        for w in re.findall(r'[A-Za-z_]\w*', line.split('!')[0]):
            spell.setdefault(w.lower(), set()).add(w)
    return any(len(spell.get(d, ())) > 1 for d in dummies)


def _fission_array_used_outside(src):
    """an array assigned inside a DO loop that holds a `!$loki loop-fission` pragma is also referenced outside that loop
    (the emitted text is indented consistently, so a loop ends at the first `end do` with the indentation of its `do`)"""
    lines = src.splitlines()
    low = [l.lower() for l in lines]
    for k, l in enumerate(low):
        st = l.strip()
        if not (st.startswith('do ') and not st.startswith('do while')):
            continue
        ind = len(l) - len(l.lstrip())
        end = next((j for j in range(k + 1, len(low)) if low[j].strip().replace(' ', '') == 'enddo' and
                    len(low[j]) - len(low[j].lstrip()) == ind), None)
        if end is None or not any('!$loki loop-fission' in x for x in low[k + 1:end]):
            continue
        assigned = {m.group(1) for x in low[k + 1:end] for m in [re.match(r'\s*(\w+)\s*\(.*\)\s*=[^=]', x)] if m}
        outside = [x.split('!')[0] for x in low[:k] + low[end + 1:] if '::' not in x]
        if any(re.search(r'\b' + re.escape(a) + r'\b', x) for a in assigned for x in outside):
            return True
    return False


_STRIDE = re.compile(r'\w\s*\([^()]*:[^(),]*:[^()]*\)')


def _callee_units(src):
    """[(dummy names, lines)] of every routine of the source but the first"""
    units, cur = [], None
    for line in src.splitlines():
        m = re.match(r'^\s*subroutine\s+\w+\s*\(([^)]*)\)', line, re.I)
        if m:
            cur = ({a.strip().lower() for a in m.group(1).split(',') if a.strip()}, [])
            units.append(cur)
        elif cur is not None:
            cur[1].append(line.split('!')[0].lower())
    return units[1:]


def _callee_print_mentions_dummy(src):
    """a PRINT statement of a routine other than the first mentions one of that routine's dummy arguments"""
    for dummies, lines in _callee_units(src):
        for l in lines:
            if l.strip().startswith('print') and any(re.search(r'\b' + re.escape(d) + r'\b', l) for d in dummies):
                return True
    return False


def _print_mentions_parameter(src):
    """a PRINT statement mentions a name declared with the PARAMETER attribute"""
    low = [l.split('!')[0].lower() for l in src.splitlines()]
    params = {m.group(1) for l in low for m in [re.search(r'parameter\s*::\s*(\w+)', l)] if m}
    return any(l.strip().startswith('print') and any(re.search(r'\b' + re.escape(q) + r'\b', l) for q in params) for l in low)


def _callee_section_with_stride(src):
    """a routine other than the first contains an array section with a stride"""
    return any(_STRIDE.search(l) for _, lines in _callee_units(src) for l in lines if '::' not in l)


# open classes whose inputs are generated only once the class is listed: (class, applies to transformation, predicate on the source)
GATES = [
    ('loop-fission-promotes-outside-uses', lambda t: t == 'loop_fission', lambda src: _fission_array_used_outside(src)),
    ('inline-print-unsubstituted', lambda t: t.startswith('inline_'), lambda src: _callee_print_mentions_dummy(src)),
    ('inline-section-drops-stride', lambda t: t.startswith('inline_'), lambda src: _callee_section_with_stride(src)),
    ('inline-constants-print-unsubstituted', lambda t: t == 'inline_constant_parameters', lambda src: _print_mentions_parameter(src)),
]


def gated(tname, src):
    return any(ap(tname) and not class_listed(cls) and pred(src) for cls, ap, pred in GATES)


def class_listed(cls):
    """the class is listed (any status) in the known-findings file in use"""
    from ..core import load_known
    try:
        return any(k.get('property') == 'C41' and k.get('class') == cls for k in load_known())
    except Exception:
        return False


def classify(tname, src, probs):
    low = src.lower()
    if tname == 'loop_fission' and probs[0][0] in ('reparse', 'gfortran') and _fission_array_used_outside(src):
        return 'loop-fission-promotes-outside-uses'
    if tname == 'inline_constant_parameters' and probs[0][0] in ('undeclared', 'gfortran') and _print_mentions_parameter(src):
        return 'inline-constants-print-unsubstituted'
    if tname.startswith('inline_') and probs[0][0] in ('undeclared', 'gfortran') and _callee_print_mentions_dummy(src) and \
            ('implicit type' in probs[0][1].lower() or probs[0][0] == 'undeclared'):
        return 'inline-print-unsubstituted'
    if tname.startswith('inline_') and probs[0][0] in ('reparse', 'gfortran') and _callee_section_with_stride(src) and \
            ('shape' in probs[0][1].lower() or 'conformable' in probs[0][1].lower()):
        return 'inline-section-drops-stride'
    if tname.startswith('inline_') and probs[0][0] in ('scope', 'undeclared', 'reparse', 'gfortran') and _dummy_spelled_differently(src):
        return 'inline-dummy-case-mismatch'
    if tname == 'remove_unused_vars(all)' and probs[0][0] in ('undeclared', 'gfortran') and re.search(r'^\s*do\s+\w+\s*=', low, re.M):
        return 'remove-unused-vars-loop-variable'
    if tname.startswith('resolve_vector_notation') and probs[0][0] in ('reparse', 'gfortran') and \
            re.search(r'[(,]\s*:\s*[^,):\s]|[^,(:\s]\s*:\s*[,)]', low):
        return 'vector-notation-half-open-range'
    if tname == 'normalize_array_shape_and_access' and probs[0][0] in ('reparse', 'gfortran') and \
            re.search(r'\w\s*\([^()]*:[^(),]*:[^()]*\)', low):
        return 'normalize-shape-drops-stride'
    if tname == 'merge_associates' and probs[0][0] == 'scope' and re.search(r'^\s*associate\s*\(', low, re.M):
        return 'merge-associates-detached-scope'
    if tname in ('loop_unroll', 'constant_propagation(unroll_loops)') and probs[0][0] in ('reparse', 'gfortran') and re.search(r'^\s*(exit|cycle)\s*$', low, re.M):
        return 'loop-unroll-exit-cycle'
    if tname in ('inline_marked_subroutines', 'inline_internal_procedures') and probs[0][0] in ('reparse', 'gfortran') and \
            re.search(r'::\s*\w+\([^)]*:[^)]*\)', low) and re.search(r'[(,]\s*:\s*[,)]', low):
        return 'inline-offset-on-bare-range'
    return None


def wf_py(prog):
    """Python mirror of Lean `LokiModel.C41.wf`"""
    sigs = [(str(u[1]).lower(), len(u[2])) for u in prog[2:]]

    def lookup(env, x):
        x = str(x).lower()
        for n, info in env:
            if n == x:
                return (info,)
        return None

    def rank_ok(env, x, n):
        r = lookup(env, x)
        if r is None:
            return False
        return r[0] is None or r[0][1] == n

    def ex(env, e):
        k = h(e)
        if k in ('i', 'r', 'b'):
            return True
        if k == 'v':
            return lookup(env, e[1]) is not None
        if k == 'idx':
            return rank_ok(env, e[1], len(e) - 2) and all(ex(env, c) for c in e[2:])
        if k == 'sec':
            ok = rank_ok(env, e[1], len(e) - 2)
            for d in e[2:]:
                if h(d) == 'at':
                    ok = ok and ex(env, d[1])
                else:
                    ok = ok and all(fir._is_none(c) or ex(env, c) for c in d[1:])
            return ok
        if k in ('neg', 'not'):
            return ex(env, e[1])
        if k == 'bin':
            return ex(env, e[2]) and ex(env, e[3])
        if k == 'call':
            return all(ex(env, c) for c in e[2:])
        raise ValueError('malformed expression')

    def oex(env, e):
        return fir._is_none(e) or ex(env, e)

    def stmts(env, ss):
        return all(stmt(env, s) for s in ss)

    def stmt(env, s):
        k = h(s)
        if k == 'assign':
            return ex(env, s[1]) and ex(env, s[2])
        if k == 'do':
            r = lookup(env, s[1])
            return r is not None and r[0] == ('int', 0) and ex(env, s[2]) and ex(env, s[3]) and oex(env, s[4]) and stmts(env, s[5])
        if k == 'while':
            return ex(env, s[1]) and stmts(env, s[2])
        if k == 'if':
            return ex(env, s[1]) and stmts(env, s[2]) and stmts(env, s[3])
        if k == 'select':
            return ex(env, s[1]) and all(stmts(env, c[1]) for c in s[2]) and stmts(env, s[3])
        if k == 'assoc':
            return all(ex(env, b[1]) for b in s[1]) and stmts([(str(b[0]).lower(), None) for b in s[1]] + env, s[2])
        if k == 'callsub':
            f = str(s[1]).lower()
            m = [n for name, n in sigs if name == f]
            return bool(m) and m[0] == len(s) - 2 and all(ex(env, a) for a in s[2:])
        if k == 'print':
            return all(ex(env, a) for a in s[1:])
        return True
    for u in prog[2:]:
        env = [(str(d[1]).lower(), (str(d[2]), len(d[4]))) for d in u[3]]
        if not all(lookup(env, a) is not None for a in u[2]):
            return False
        for d in u[3]:
            if not all(ex(env, b[0]) and ex(env, b[1]) for b in d[4]) or not oex(env, d[5]):
                return False
        if not stmts(env, u[4]):
            return False
    return True


CORPUS_NOTE = 'hand-written witnesses live in corpus/C41/*.sexp'
RECASE_SHARE = 0.4
INLINE_CFG = dict(max_stmts=8, n_callees=(1, 2), callee_stmts=5, weights={'call': 30, 'assign_section': 8, 'if': 8, 'do': 10})
GEN_CFG = dict(max_stmts=8, n_callees=(0, 1), callee_stmts=5, weights={'assoc': 8, 'assign_section': 12, 'if': 10, 'select': 4, 'call': 10, 'do': 16,
                                                         'pragma': 3})


def decode(req):
    k = h(req)
    if k == 't':
        tname, flag, src = str(req[1]) if not isinstance(req[1], str) else req[1], str(req[2]), req[3]
        if len(req) != 4 or tname not in REGISTRY or flag not in ('gf', 'nogf') or not isinstance(src, str):
            raise ValueError('malformed request')
        return 't', tname, flag, src
    if k == 'wf':
        norm, prog = str(req[1]), req[2]
        if len(req) != 3 or norm not in ('lower', 'deadns') or h(prog) != 'program' or len(prog) < 3:
            raise ValueError('malformed request')
        for u in prog[2:]:
            if h(u) != 'unit' or len(u) != 5 or not all(isinstance(x, list) for x in u[2:]):
                raise ValueError('malformed unit')
        return 'wf', norm, 'gf', prog
    if k == 'impm':
        kind, norm, src, extra = c40.decode([A('imp')] + list(req[1:]))
        return 'impm', extra, 'gf', src
    if k == 'bare':
        if len(req) != 3 or not all(isinstance(x, list) for x in req[1:]):
            raise ValueError('malformed request')
        imps = []
        for i in req[2]:
            if h(i) != 'use' or len(i) != 3 or not isinstance(i[2], list):
                raise ValueError('malformed request')
            imps.append((str(i[1]), [str(s) for s in i[2]]))
        return 'bare', [str(x) for x in req[1]], 'gf', imps
    raise ValueError('malformed request')


class C41(Prop):
    id = 'C41'
    title = 'Built-in transformations leave a well-formed IR'
    model_modules = ['LokiModel.C41.Model', 'LokiModel.C40.Enc']
    props_module = 'LokiModel.Props.C41'
    findings_module = 'LokiModel.Findings.C41'
    driver = 'Drivers/C41.lean'
    theorems = ['lower_wf', 'lower_wf_eq', 'deadcode_wf', 'sanitise_imports_keeps', 'sanitise_imports_bare', 'sanitise_routine_keeps',
                'sanitise_routine_bare']
    design_ref = 'DESIGN.md 4.F C41'
    level = 'proof'
    level_text = ('Proved at full strength about the models: lower_wf / lower_wf_eq (convert_to_lower_case keeps wf, in fact does not change '
                  'it), deadcode_wf (do_remove_dead_code without simplify keeps wf whenever it returns), sanitise_imports_keeps '
                  '(explicitly imported used names stay imported) and sanitise_imports_bare (every USE statement without ONLY list stays; '
                  'full since the repair of eliminate_unused_imports).  Every other registered built-in transformation (34 entries with '
                  'option combinations): oracle only — scope chains, declared-or-imported, frontend re-parse of fgen, gfortran '
                  '-fsyntax-only; the open known-finding classes are decidable text predicates of c41.classify.')
    level_note = ('wf is stated on FIR (case-insensitive look-ups); the correspondence compares the Lean wf of the model result with a Python '
                  'mirror of wf evaluated on the export of the really transformed IR.  A transformation that raises leaves no IR to judge: '
                  'counted in the evidence and reported in notes/C41.md, not a C41 failure.')
    technique = 'Lean 4 theorems about wf and the C40 models + direct oracle on the real IR after every registered transformation'
    rule = ('fir.gen_program (loop/call/section heavy) printed as Fortran, decorated per transformation (pragmas for the pragma-driven ones, '
            'merged declarations, 1:n bounds, imports, letter case), every registry entry in turn; hand-written corpus for imports and '
            'assumed shapes; non-trivial = the transformation changed the printed code')
    trusted_base = ['harness/fir.py (generator, printer, exporter)', 'Loki fparser frontend, fgen', 'gfortran 12.2 -fsyntax-only']
    assumptions = ['a transformation that raises is outside the property (no IR to judge); counted and reported']
    extra_obligations = ['oracle: scope chains, declared-or-imported, re-parse and gfortran syntax check after every registered transformation']

    def classes(self):
        return ['remove-unused-vars-loop-variable', 'vector-notation-half-open-range', 'normalize-shape-drops-stride', 'merge-associates-detached-scope', 'loop-unroll-exit-cycle', 'inline-offset-on-bare-range', 'inline-dummy-case-mismatch', 'loop-fission-promotes-outside-uses', 'inline-print-unsubstituted', 'inline-section-drops-stride', 'inline-constants-print-unsubstituted']

    def gen(self, rng, tier):
        rounds = {'quick': 1, 'thorough': 8, 'search': 3}.get(tier, 1)
        gf_every = {'quick': 6, 'thorough': 1, 'search': 2}.get(tier, 6)
        k = 0
        for _ in range(rounds):
            for tname in list(REGISTRY) + ['inline_marked_subroutines'] * 3:
                def build():
                    prog = fir.gen_program(rng, INLINE_CFG if tname.startswith('inline_') else GEN_CFG)
                    if tname.startswith('inline_') and rng.random() < 0.7:
                        prog = c40.rename_callee_names(prog)       # callee names differ from every caller name
                    src = decorate(fir.emit_fortran(prog, wrap_program=False), tname, rng)
                    # Fortran is case-insensitive: every transformation must cope with any spelling
                    if tname.startswith('inline_'):
                        if rng.random() < 0.8:
                            # a definition spelled differently from a use is the open class inline-dummy-case-mismatch: generated
                            # only once it is listed; until then one spelling per identifier (still not the lower-case one)
                            src = c40.recase_text(src, rng, p=0.6) if class_listed('inline-dummy-case-mismatch') and rng.random() < 0.5 \
                                else c40.recase_text_consistent(src, rng)
                    elif tname != 'convert_to_lower_case' and rng.random() < RECASE_SHARE:
                        src = c40.recase_text(src, rng, p=0.6)
                    return src
                src = build()
                for _ in range(12):
                    # inputs inside an open class that is not listed yet are not generated (the clean tree must stay quiet)
                    if gated(tname, src):
                        src = build()
                    else:
                        break
                k += 1
                yield Case([A('t'), tname, A('gf' if k % gf_every == 0 else 'nogf'), src], stream='t:' + tname.split('(')[0])
            for norm in ('lower', 'deadns'):
                prog = fir.gen_program(rng, GEN_CFG)
                prog = c40.recase_prog(prog, rng) if norm == 'lower' else c40.literal_selects(c40.dead_decorate(prog, rng), rng)
                if c40.frontend_accepts(prog):
                    yield Case([A('wf'), A(norm), prog], stream='wf-' + norm)
            for _ in range(3):
                req, nt = c40.gen_imp_req(rng)
                yield Case([A('bare'), req[1], req[2]], stream='bare', nontrivial=nt)
            for _ in range(3):
                req, nt = c40.gen_imp_req(rng, member_only=True)
                yield Case([A('impm')] + req[1:], stream='impm', nontrivial=nt)

    def impl(self, req):
        kind, a, flag, b = decode(req)
        if kind == 'wf':
            src = fir.emit_fortran(b, wrap_program=False)
            sf = c40.parse_enriched(src)
            w0 = wf_py(fir.export_unit(sf, main=fir.prog_main(b)))
            try:
                c40.apply_norm(a, sf)
            except Exception:
                return [A('wf'), w0, A('raised')]
            return [A('wf'), w0, wf_py(fir.export_unit(sf, main=fir.prog_main(b)))]
        if kind == 'impm':
            return c40.PROP.impl([A('imp')] + list(req[1:]))
        if kind == 'bare':
            # real code: is a USE without ONLY list dropped?  (the abstract request is printed as a routine)
            src = c40.imp_source(a, b, [])
            sf = c40.parse_enriched(src)
            r = sf['simp']
            before = [m for m, ss in c40.imports_of(r) if not ss]
            c40._n_imports(r)
            after = [m for m, ss in c40.imports_of(r) if not ss]
            return [A('bare'), before != after]
        return [A('nomodel')]

    def oracle(self, req):
        from loki import fgen
        kind, a, flag, b = decode(req)
        if kind == 'wf':
            return []
        if kind == 'impm':
            tname, src = 'sanitise_imports', b
        elif kind == 'bare':
            tname, src = 'sanitise_imports', c40.imp_source(a, b, [])
        else:
            tname, src = a, b
        try:
            sf = c40.parse_enriched(src)
            t0 = fgen(sf.ir)
        except Exception as e:
            stats[f'input-rejected-by-frontend:{type(e).__name__}'] += 1
            return []
        try:
            with time_limit(TRANSFORM_TIME_LIMIT):
                REGISTRY[tname](sf)
        except TransformTimeout:
            # a transformation that does not come back leaves no IR to judge (counted, reported in notes/C41.md)
            stats[f'timeout:{tname}'] += 1
            return []
        except Exception as e:
            stats[f'raised:{tname}:{type(e).__name__}'] += 1
            return []
        probs = wf_problems(sf, flag == 'gf' or kind in ('bare', 'impm'))
        stats['applied:' + tname] += 1
        try:
            if fgen(sf.ir) != t0:
                stats['changed:' + tname] += 1
        except Exception:
            pass
        if not probs:
            return []
        # the input itself must be well formed (shrinking may produce inputs that are not): same checks on the untouched IR
        base = wf_problems(c40.parse_enriched(src), probs[0][0] in ('gfortran', 'undeclared'))
        if base:
            stats['input-not-wf'] += 1
            return []
        cls = classify(tname, src, probs)
        return [Failure(f'{tname}: {probs[0][1]}', cls)]

    def post(self, cases, impl_out, model_raw, oracle_fail):
        return [], {'transformation_runs': {k: v for k, v in sorted(stats.items())}}

    def shrink_candidates(self, req):
        if h(req) == 't':
            lines = req[3].split('\n')
            for k in range(len(lines)):
                yield [req[0], req[1], req[2], '\n'.join(lines[:k] + lines[k + 1:])]
        else:
            from ..core import _subterms_replace
            yield from _subterms_replace(req)


PROP = C41()
READY = True
