"""C40 — normalising transformations are idempotent (fgen after one real application == after two)."""
import re
import random as _random
from collections import Counter

from ..core import Prop, Case, Failure, REPO
from ..sexpr import A, dumps, loads
from .. import fir


def h(x):
    return str(x[0]) if isinstance(x, list) and x else None


# ====================================================================== the real normalisers

def _n_assoc(r):
    from loki.transformations.sanitise.associates import do_resolve_associates
    do_resolve_associates(r)


def _n_vector(r):
    from loki.transformations.array_indexing import resolve_vector_notation
    resolve_vector_notation(r)


def _n_range(r):
    from loki.transformations.array_indexing import normalize_range_indexing
    normalize_range_indexing(r)


def _n_lower(r):
    from loki.transformations.utilities import convert_to_lower_case
    convert_to_lower_case(r)


def _n_imports(r):
    from loki.transformations.utilities import sanitise_imports
    sanitise_imports(r)


def _n_seqassoc(r):
    from loki.transformations.sanitise.sequence_associations import do_resolve_sequence_association
    do_resolve_sequence_association(r)


def _n_dead(r):
    from loki.transformations.remove_code import do_remove_dead_code
    do_remove_dead_code(r, use_simplify=True)


def _n_deadns(r):
    from loki.transformations.remove_code import do_remove_dead_code
    do_remove_dead_code(r, use_simplify=False)


def _n_single(r):
    from loki.transformations.utilities import single_variable_declaration
    single_variable_declaration(r)


def _n_single_shape(r):
    from loki.transformations.utilities import single_variable_declaration
    single_variable_declaration(r, group_by_shape=True)


# name -> (callable on a Subroutine, applies to modules too)
NORMALISERS = {
    'assoc': (_n_assoc, False),
    'vector': (_n_vector, False),
    'range': (_n_range, False),
    'lower': (_n_lower, False),
    'imports': (_n_imports, True),
    'seqassoc': (_n_seqassoc, False),
    'dead': (_n_dead, False),
    'deadns': (_n_deadns, False),
    'single': (_n_single, False),
    'singleshape': (_n_single_shape, False),
}

stats = Counter()          # what happened in this process (reported through post())


class FirstApplicationRaised(Exception):
    pass


def parse_enriched(src):
    sf = fir.parse_fortran(src)
    routines = list(sf.all_subroutines)
    for r in routines:
        r.enrich(routines)
    return sf


def apply_norm(name, sf):
    """apply normaliser ``name`` to every routine of the source file (members after their parents; modules last for
    the normalisers that accept modules)"""
    fn, on_modules = NORMALISERS[name]
    for r in sf.all_subroutines:
        fn(r)
        if name != 'imports':      # sanitise_imports recurses into members itself
            for m in r.members:
                fn(m)
    if on_modules:
        for m in sf.modules:
            fn(m)


def once_twice(name, src):
    """(text after one application, text after two, problem) — problem is None or a description of an exception of the
    SECOND application / of fgen; an exception of the first application raises FirstApplicationRaised"""
    from loki import fgen
    sf = parse_enriched(src)
    try:
        apply_norm(name, sf)
        t1 = fgen(sf.ir)
    except Exception as e:
        raise FirstApplicationRaised(f'{type(e).__name__}: {str(e)[:160]}') from e
    try:
        apply_norm(name, sf)
        t2 = fgen(sf.ir)
    except Exception as e:
        return t1, None, f'second application raised {type(e).__name__}: {str(e)[:160]}'
    return t1, t2, None


def first_diff(a, b):
    la, lb = a.splitlines(), b.splitlines()
    for k, (x, y) in enumerate(zip(la, lb)):
        if x != y:
            return f'line {k + 1}: once {x.strip()!r} twice {y.strip()!r}'
    if len(la) != len(lb):
        k = min(len(la), len(lb))
        extra = (la[k:] or lb[k:])[0].strip()
        return f'line {k + 1}: {"once" if len(la) > len(lb) else "twice"} has extra {extra!r}'
    return 'texts differ in line ends'


# ====================================================================== decorations (bias generated programs towards a normaliser)

_KEYWORDS = set('''subroutine end implicit none integer real logical intent in out inout parameter do while if then else
select case default associate call print exit cycle and or not true false eqv neqv use only module contains'''.split())
_TOKEN = re.compile(r"[A-Za-z_][A-Za-z_0-9]*")


def recase_text(src, rng, p=0.5, keywords=True):
    """random letter case for identifiers (and keywords) outside comments; Fortran is case-insensitive"""
    out = []
    for line in src.splitlines():
        code, sep, com = line.partition('!')

        def f(m):
            w = m.group(0)
            if not keywords and w.lower() in _KEYWORDS:
                return w
            r = rng.random()
            if r < p * 0.5:
                return w.upper()
            if r < p:
                return ''.join(c.upper() if rng.random() < 0.5 else c for c in w)
            return w
        # keep .true./.false./.and. etc. intact in spelling, only case changes (harmless)
        out.append(_TOKEN.sub(f, code) + sep + com)
    return '\n'.join(out) + '\n'


_DECL = re.compile(r'^(\s*)((?:integer|real|logical)(?:,\s*intent\((?:in|out|inout)\))?)\s*::\s*(.+)$')


def _split_top(s):
    parts, depth, cur = [], 0, ''
    for c in s:
        if c == '(':
            depth += 1
        elif c == ')':
            depth -= 1
        if c == ',' and depth == 0:
            parts.append(cur.strip())
            cur = ''
        else:
            cur += c
    if cur.strip():
        parts.append(cur.strip())
    return parts


def multi_decl_text(src, rng, p=0.8):
    """merge neighbouring declaration lines with the same type and attributes into multi-variable declarations"""
    out = []
    for line in src.splitlines():
        m = _DECL.match(line)
        if m and out:
            pm = _DECL.match(out[-1])
            if pm and pm.group(2) == m.group(2) and rng.random() < p:
                out[-1] = f'{pm.group(1)}{pm.group(2)} :: {pm.group(3)}, {m.group(3)}'
                continue
        out.append(line)
    return '\n'.join(out) + '\n'


def one_bounds_text(src, rng, p=0.7):
    """declared extents `a(n)` written as `a(1:n)` (what normalize_range_indexing undoes)"""
    out = []
    for line in src.splitlines():
        m = _DECL.match(line)
        if m and '(' in m.group(3) and 'parameter' not in line:
            ents = []
            for ent in _split_top(m.group(3)):
                k = ent.find('(')
                if k < 0 or not ent.endswith(')'):
                    ents.append(ent)
                    continue
                dims = [('1:' + d) if ':' not in d and rng.random() < p else d for d in _split_top(ent[k + 1:-1])]
                ents.append(ent[:k] + '(' + ', '.join(dims) + ')')
            line = f'{m.group(1)}{m.group(2)} :: ' + ', '.join(ents)
        out.append(line)
    return '\n'.join(out) + '\n'


IMP_MODULE = '''module cmod
  implicit none
  integer, parameter :: ip = 4
  integer, parameter :: cp1 = 3
  integer, parameter :: cp2 = 5
  integer :: cv1 = 1
  integer :: cv2 = 2
  real :: cx1 = 0.5
end module cmod

module dmod
  implicit none
  integer, parameter :: dq1 = 7
  integer :: dv1 = 4
contains
  subroutine dsub(k)
    integer, intent(inout) :: k
    k = k + dv1
  end subroutine dsub
end module dmod

'''
_IMP_SYMS = {'cmod': ['ip', 'cp1', 'cp2', 'cv1', 'cv2', 'cx1'], 'dmod': ['dq1', 'dv1', 'dsub']}


def imports_text(src, rng):
    """put two modules in front, import random subsets of their symbols into every routine (one or two USE statements per
    module, sometimes without ONLY) and use a random subset of the imported names in the body / in a kind / in a bound"""
    out = []
    lines = src.splitlines()
    k = 0
    while k < len(lines):
        line = lines[k]
        out.append(line)
        if re.match(r'^\s*subroutine\s', line, re.I):
            imported = []
            uses = []
            for mod, syms in _IMP_SYMS.items():
                for _ in range(rng.choice((0, 1, 1, 2))):
                    if rng.random() < 0.12:
                        uses.append(f'  use {mod}')
                        continue
                    sel = [s for s in syms if rng.random() < 0.5]
                    if not sel and rng.random() < 0.7:
                        continue
                    if sel and rng.random() < 0.2:
                        a = rng.choice(sel)
                        ren = 'zr_' + a
                        sel2 = [s if s != a else f'{ren} => {a}' for s in sel]
                        imported += [s for s in sel if s != a] + [ren]
                        uses.append(f'  use {mod}, only: ' + ', '.join(sel2))
                    else:
                        imported += sel
                        uses.append(f'  use {mod}, only: ' + ', '.join(sel))
            out += uses
            # find the end of this routine and add uses of some imported names just before it
            j = k + 1
            while not re.match(r'^\s*end subroutine', lines[j], re.I):
                j += 1
            used = [s for s in dict.fromkeys(imported) if rng.random() < 0.5]
            body = lines[k + 1:j]
            # declarations come first: find the last declaration line
            last_decl = max([i for i, l in enumerate(body) if _DECL.match(l) or 'implicit none' in l], default=-1)
            decl_extra, stmt_extra = [], []
            base = lambda s: s[3:] if s.startswith('zr_') else s
            ints = [s for s in used if base(s) in ('cp1', 'cp2', 'cv1', 'cv2', 'dq1', 'dv1')]
            decl_extra.append('  integer :: zz_imp')
            if 'ip' in [base(s) for s in used]:
                nm = [s for s in used if base(s) == 'ip'][0]
                decl_extra.append(f'  integer(kind={nm}) :: zz_kind')
            pars = [s for s in ints if base(s) in ('cp1', 'cp2', 'dq1')]
            if pars and rng.random() < 0.6:
                decl_extra.append(f'  integer :: zz_arr({pars[0]})')
                ints = [s for s in ints if s != pars[0]] if rng.random() < 0.5 else ints
            stmt_extra.append('  zz_imp = ' + ' + '.join(['1'] + ints))
            if any(base(s) == 'cx1' for s in used):
                nm = [s for s in used if base(s) == 'cx1'][0]
                stmt_extra.append(f'  zz_imp = int({nm})')
            if any(base(s) == 'dsub' for s in used):
                nm = [s for s in used if base(s) == 'dsub'][0]
                stmt_extra.append(f'  call {nm}(zz_imp)')
            out += body[:last_decl + 1] + decl_extra + body[last_decl + 1:] + stmt_extra
            out.append(lines[j])
            k = j
        k += 1
    return IMP_MODULE + '\n'.join(out) + '\n'


# --- FIR level: constant conditions for dead-code removal

def _const_cond(rng, params):
    c = rng.random()
    T, F = fir.Bl(True), fir.Bl(False)
    if c < 0.25:
        return T
    if c < 0.5:
        return F
    if c < 0.6:
        return fir.BIN('eq', fir.I(1), fir.I(rng.choice((1, 2))))
    if c < 0.7:
        return fir.BIN(rng.choice(('and', 'or')), rng.choice((T, F)), rng.choice((T, F)))
    if c < 0.8:
        return fir.NOT(rng.choice((T, F)))
    if c < 0.9 and params:
        return fir.BIN(rng.choice(('gt', 'le', 'eq')), fir.V(rng.choice(params)), fir.I(rng.choice((2, 4))))
    return fir.BIN('lt', fir.BIN('add', fir.I(1), fir.I(1)), fir.I(rng.choice((1, 3))))


def dead_decorate(prog, rng, p=0.45):
    """constant conditions in IF statements (also wrapped around other statements, also as ELSE IF chains) and literal
    selectors in SELECT CASE"""
    out = [prog[0], prog[1]]
    for u in prog[2:]:
        params = [str(d[1]) for d in u[3] if not fir._is_none(d[5]) and str(d[2]) == 'int']

        def fs(stmts):
            res = []
            for s in stmts:
                k = h(s)
                r = rng.random()
                if k == 'if' and r < p:
                    s = [s[0], _const_cond(rng, params), s[2], s[3]]
                elif k == 'if' and r < p + 0.15:
                    # turn into an else-if chain with a constant link
                    s = [s[0], s[1], s[2], [[A('if'), _const_cond(rng, params), s[3] or [[A('cycle')]][:0], s[2][:1]]]]
                elif k == 'select' and r < p:
                    s = [s[0], fir.I(rng.choice([int(str(v)) for c in s[2] for v in c[0]] + [7])), s[2], s[3]]
                elif k in ('assign', 'print', 'callsub') and r < 0.12:
                    s = [A('if'), _const_cond(rng, params), [s], [] if rng.random() < 0.5 else [s]]
                res.append(s)
            return res
        body = fir.map_program([A('program'), u[1], u], fs=fs)[2][4]
        out.append([u[0], u[1], u[2], u[3], body])
    return fir.canon(out)
