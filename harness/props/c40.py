"""C40 — normalising transformations are idempotent (fgen after one real application == after two)."""
import re
import random as _random
from collections import Counter

from ..core import Prop, Case, Failure, REPO
from ..sexpr import A, dumps, loads
from .. import fir


def h(x):
    return str(x[0]) if isinstance(x, list) and x else None


# ====================================================================== the real normalisers

def _n_assoc(r):
    from loki.transformations.sanitise.associates import do_resolve_associates
    do_resolve_associates(r)


def _n_vector(r):
    from loki.transformations.array_indexing import resolve_vector_notation
    resolve_vector_notation(r)


def _n_range(r):
    from loki.transformations.array_indexing import normalize_range_indexing
    normalize_range_indexing(r)


def _n_lower(r):
    from loki.transformations.utilities import convert_to_lower_case
    convert_to_lower_case(r)


def _n_imports(r):
    from loki.transformations.utilities import sanitise_imports
    sanitise_imports(r)


def _n_seqassoc(r):
    from loki.transformations.sanitise.sequence_associations import do_resolve_sequence_association
    do_resolve_sequence_association(r)


def _n_dead(r):
    from loki.transformations.remove_code import do_remove_dead_code
    do_remove_dead_code(r, use_simplify=True)


def _n_deadns(r):
    from loki.transformations.remove_code import do_remove_dead_code
    do_remove_dead_code(r, use_simplify=False)


def _n_single(r):
    from loki.transformations.utilities import single_variable_declaration
    single_variable_declaration(r)


def _n_single_shape(r):
    from loki.transformations.utilities import single_variable_declaration
    single_variable_declaration(r, group_by_shape=True)


# name -> (callable on a Subroutine, applies to modules too)
NORMALISERS = {
    'assoc': (_n_assoc, False),
    'vector': (_n_vector, False),
    'range': (_n_range, False),
    'lower': (_n_lower, False),
    'imports': (_n_imports, True),
    'seqassoc': (_n_seqassoc, False),
    'dead': (_n_dead, False),
    'deadns': (_n_deadns, False),
    'single': (_n_single, False),
    'singleshape': (_n_single_shape, False),
}

stats = Counter()          # what happened in this process (reported through post())


class FirstApplicationRaised(Exception):
    pass


class InputRejected(Exception):
    """the Loki frontend (or fgen of the untouched IR) fails on the input: nothing to judge (C01 matter)"""


def frontend_accepts(prog):
    try:
        parse_enriched(fir.emit_fortran(prog, wrap_program=False))
        return True
    except Exception:
        return False


def parse_enriched(src):
    sf = fir.parse_fortran(src)
    routines = list(sf.all_subroutines)
    for r in routines:
        r.enrich(routines)
    return sf


def apply_norm(name, sf):
    """apply normaliser ``name`` to every routine of the source file (members after their parents; modules last for
    the normalisers that accept modules)"""
    fn, on_modules = NORMALISERS[name]
    for r in sf.all_subroutines:
        fn(r)
        if name != 'imports':      # sanitise_imports recurses into members itself
            for m in r.members:
                fn(m)
    if on_modules:
        for m in sf.modules:
            fn(m)


def once_twice(name, src):
    """(text after one application, text after two, problem) — problem is None or a description of an exception of the
    SECOND application / of fgen; an exception of the first application raises FirstApplicationRaised"""
    from loki import fgen
    sf = parse_enriched(src)
    try:
        apply_norm(name, sf)
        t1 = fgen(sf.ir)
    except Exception as e:
        raise FirstApplicationRaised(f'{type(e).__name__}: {str(e)[:160]}') from e
    try:
        apply_norm(name, sf)
        t2 = fgen(sf.ir)
    except Exception as e:
        return t1, None, f'second application raised {type(e).__name__}: {str(e)[:160]}'
    return t1, t2, None


def first_diff(a, b):
    la, lb = a.splitlines(), b.splitlines()
    for k, (x, y) in enumerate(zip(la, lb)):
        if x != y:
            return f'line {k + 1}: once {x.strip()!r} twice {y.strip()!r}'
    if len(la) != len(lb):
        k = min(len(la), len(lb))
        extra = (la[k:] or lb[k:])[0].strip()
        return f'line {k + 1}: {"once" if len(la) > len(lb) else "twice"} has extra {extra!r}'
    return 'texts differ in line ends'


# ====================================================================== decorations (bias generated programs towards a normaliser)

_KEYWORDS = set('''subroutine end implicit none integer real logical intent in out inout parameter do while if then else
select case default associate call print exit cycle and or not true false eqv neqv use only module contains'''.split())
_TOKEN = re.compile(r"[A-Za-z_][A-Za-z_0-9]*")


def recase_text(src, rng, p=0.5, keywords=True):
    """random letter case for identifiers (and keywords) outside comments; Fortran is case-insensitive"""
    out = []
    for line in src.splitlines():
        code, sep, com = line.partition('!')

        def f(m):
            w = m.group(0)
            if not keywords and w.lower() in _KEYWORDS:
                return w
            r = rng.random()
            if r < p * 0.5:
                return w.upper()
            if r < p:
                return ''.join(c.upper() if rng.random() < 0.5 else c for c in w)
            return w
        # keep .true./.false./.and. etc. intact in spelling, only case changes (harmless)
        out.append(_TOKEN.sub(f, code) + sep + com)
    return '\n'.join(out) + '\n'


def recase_text_consistent(src, rng, p=0.7):
    """random letter case per identifier, the same spelling at every occurrence (definition and uses agree)"""
    spell = {}
    out = []
    for line in src.splitlines():
        code, sep, com = line.partition('!')

        def f(m):
            w = m.group(0)
            k = w.lower()
            if k not in spell:
                spell[k] = _recase(w, rng, p)
            return spell[k]
        out.append(_TOKEN.sub(f, code) + sep + com)
    return '\n'.join(out) + '\n'


_DECL = re.compile(r'^(\s*)((?:integer|real|logical)(?:,\s*intent\((?:in|out|inout)\))?)\s*::\s*(.+)$')


def _split_top(s):
    parts, depth, cur = [], 0, ''
    for c in s:
        if c == '(':
            depth += 1
        elif c == ')':
            depth -= 1
        if c == ',' and depth == 0:
            parts.append(cur.strip())
            cur = ''
        else:
            cur += c
    if cur.strip():
        parts.append(cur.strip())
    return parts


def multi_decl_text(src, rng, p=0.8):
    """merge neighbouring declaration lines with the same type and attributes into multi-variable declarations"""
    out = []
    for line in src.splitlines():
        m = _DECL.match(line)
        if m and out:
            pm = _DECL.match(out[-1])
            if pm and pm.group(2) == m.group(2) and rng.random() < p:
                out[-1] = f'{pm.group(1)}{pm.group(2)} :: {pm.group(3)}, {m.group(3)}'
                continue
        out.append(line)
    return '\n'.join(out) + '\n'


def one_bounds_text(src, rng, p=0.7):
    """declared extents `a(n)` written as `a(1:n)` (what normalize_range_indexing undoes)"""
    out = []
    for line in src.splitlines():
        m = _DECL.match(line)
        if m and '(' in m.group(3) and 'parameter' not in line:
            ents = []
            for ent in _split_top(m.group(3)):
                k = ent.find('(')
                if k < 0 or not ent.endswith(')'):
                    ents.append(ent)
                    continue
                dims = [('1:' + d) if ':' not in d and rng.random() < p else d for d in _split_top(ent[k + 1:-1])]
                ents.append(ent[:k] + '(' + ', '.join(dims) + ')')
            line = f'{m.group(1)}{m.group(2)} :: ' + ', '.join(ents)
        out.append(line)
    return '\n'.join(out) + '\n'


IMP_MODULE = '''module cmod
  implicit none
  integer, parameter :: ip = 4
  integer, parameter :: cp1 = 3
  integer, parameter :: cp2 = 5
  integer :: cv1 = 1
  integer :: cv2 = 2
  real :: cx1 = 0.5
end module cmod

module dmod
  implicit none
  integer, parameter :: dq1 = 7
  integer :: dv1 = 4
contains
  subroutine dsub(k)
    integer, intent(inout) :: k
    k = k + dv1
  end subroutine dsub
end module dmod

'''
_IMP_SYMS = {'cmod': ['ip', 'cp1', 'cp2', 'cv1', 'cv2', 'cx1'], 'dmod': ['dq1', 'dv1', 'dsub']}


def imports_text(src, rng):
    """put two modules in front, import random subsets of their symbols into every routine (one or two USE statements per
    module, sometimes without ONLY) and use a random subset of the imported names in the body / in a kind / in a bound"""
    out = []
    lines = src.splitlines()
    k = 0
    while k < len(lines):
        line = lines[k]
        out.append(line)
        if re.match(r'^\s*subroutine\s', line, re.I):
            imported = []
            uses = []
            for mod, syms in _IMP_SYMS.items():
                for _ in range(rng.choice((0, 1, 1, 2))):
                    if rng.random() < 0.12:
                        uses.append(f'  use {mod}')
                        continue
                    sel = [s for s in syms if rng.random() < 0.5]
                    if not sel and rng.random() < 0.7:
                        continue
                    if sel and rng.random() < 0.2:
                        a = rng.choice(sel)
                        ren = 'zr_' + a
                        sel2 = [s if s != a else f'{ren} => {a}' for s in sel]
                        imported += [s for s in sel if s != a] + [ren]
                        uses.append(f'  use {mod}, only: ' + ', '.join(sel2))
                    else:
                        imported += sel
                        uses.append(f'  use {mod}, only: ' + ', '.join(sel))
            out += uses
            # find the end of this routine and add uses of some imported names just before it
            j = k + 1
            while not re.match(r'^\s*end subroutine', lines[j], re.I):
                j += 1
            used = [s for s in dict.fromkeys(imported) if rng.random() < 0.5]
            body = lines[k + 1:j]
            # declarations come first: find the last declaration line
            last_decl = max([i for i, l in enumerate(body) if _DECL.match(l) or 'implicit none' in l], default=-1)
            decl_extra, stmt_extra = [], []
            base = lambda s: s[3:] if s.startswith('zr_') else s
            ints = [s for s in used if base(s) in ('cp1', 'cp2', 'cv1', 'cv2', 'dq1', 'dv1')]
            decl_extra.append('  integer :: zz_imp')
            if 'ip' in [base(s) for s in used]:
                nm = [s for s in used if base(s) == 'ip'][0]
                decl_extra.append(f'  integer(kind={nm}) :: zz_kind')
            pars = [s for s in ints if base(s) in ('cp1', 'cp2', 'dq1')]
            if pars and rng.random() < 0.6:
                decl_extra.append(f'  integer :: zz_arr({pars[0]})')
                ints = [s for s in ints if s != pars[0]] if rng.random() < 0.5 else ints
            stmt_extra.append('  zz_imp = ' + ' + '.join(['1'] + ints))
            if any(base(s) == 'cx1' for s in used):
                nm = [s for s in used if base(s) == 'cx1'][0]
                stmt_extra.append(f'  zz_imp = int({nm})')
            if any(base(s) == 'dsub' for s in used):
                nm = [s for s in used if base(s) == 'dsub'][0]
                stmt_extra.append(f'  call {nm}(zz_imp)')
            out += body[:last_decl + 1] + decl_extra + body[last_decl + 1:] + stmt_extra
            out.append(lines[j])
            k = j
        k += 1
    return IMP_MODULE + '\n'.join(out) + '\n'


# --- FIR level: constant conditions for dead-code removal

def _const_cond(rng, params):
    c = rng.random()
    T, F = fir.Bl(True), fir.Bl(False)
    if c < 0.25:
        return T
    if c < 0.5:
        return F
    if c < 0.6:
        return fir.BIN('eq', fir.I(1), fir.I(rng.choice((1, 2))))
    if c < 0.7:
        return fir.BIN(rng.choice(('and', 'or')), rng.choice((T, F)), rng.choice((T, F)))
    if c < 0.8:
        return fir.NOT(rng.choice((T, F)))
    if c < 0.9 and params:
        return fir.BIN(rng.choice(('gt', 'le', 'eq')), fir.V(rng.choice(params)), fir.I(rng.choice((2, 4))))
    return fir.BIN('lt', fir.BIN('add', fir.I(1), fir.I(1)), fir.I(rng.choice((1, 3))))


def _prunable(rng, s, depth=0):
    """a construct around statement ``s`` that dead-code removal must prune completely, whatever encloses it: a constant IF,
    a SELECT CASE with a literal selector that matches a (not necessarily first) case, or either of them one level deeper
    inside an IF whose condition only `simplify` can decide (kept without simplify)"""
    T, F = fir.Bl(True), fir.Bl(False)
    c = rng.random()
    if c < 0.35 or depth >= 2:
        return [A('if'), rng.choice((T, F)), [s], [s]]
    if c < 0.75:
        v = rng.choice((1, 2, 3, 0, -2))
        inner = _prunable(rng, s, depth + 1) if rng.random() < 0.5 else s
        cases = [[[v + 5], [s]], [[v, v + 9] if rng.random() < 0.4 else [v], [inner]]]
        if rng.random() < 0.5:
            cases.reverse()
        return [A('select'), fir.ilit(v), cases, [s]]
    return [A('if'), fir.BIN('eq', fir.I(1), fir.I(rng.choice((1, 2)))), [_prunable(rng, s, depth + 1)], [s]]


def dead_decorate(prog, rng, p=0.45):
    """constant conditions in IF statements (also wrapped around other statements, also as ELSE IF chains) and literal
    selectors in SELECT CASE"""
    out = [prog[0], prog[1]]
    for u in prog[2:]:
        params = [str(d[1]) for d in u[3] if not fir._is_none(d[5]) and str(d[2]) == 'int']

        def fs(stmts):
            res = []
            for s in stmts:
                k = h(s)
                r = rng.random()
                if k == 'if' and r < p:
                    s = [s[0], _const_cond(rng, params), s[2], s[3]]
                elif k == 'if' and r < p + 0.15:
                    # turn into an else-if chain with a constant link
                    s = [s[0], s[1], s[2], [[A('if'), _const_cond(rng, params), s[3] or [[A('cycle')]][:0], s[2][:1]]]]
                elif k == 'select' and r < p + 0.25 and s[2]:
                    # literal selector; mostly one that matches a case, whose body then holds something prunable itself
                    # (the chosen branch must be returned in its pruned form)
                    j = rng.randrange(len(s[2]))
                    if rng.random() < 0.8 and s[2][j][0]:
                        sel = int(str(rng.choice(s[2][j][0])))
                        cases = [[c[0], ([_prunable(rng, c[1][0])] + list(c[1][1:])) if (i == j and c[1]) else c[1]]
                                 for i, c in enumerate(s[2])]
                        s = [s[0], fir.ilit(sel), cases, s[3]]
                    else:
                        s = [s[0], fir.ilit(rng.choice([int(str(v)) for c in s[2] for v in c[0]] + [7])), s[2], s[3]]
                elif k in ('assign', 'print', 'callsub') and r < 0.12:
                    s = [A('if'), _const_cond(rng, params), [s], [] if rng.random() < 0.5 else [s]]
                elif k in ('assign', 'print', 'callsub') and r < 0.2:
                    # constant IF nested in a constant IF: the pruned branch must itself have been pruned
                    inner = [A('if'), rng.choice((fir.Bl(True), fir.Bl(False))), [s], [s]]
                    s = [A('if'), rng.choice((fir.Bl(True), fir.Bl(False))), [inner], [inner]]
                elif k in ('assign', 'print', 'callsub') and r < 0.32:
                    # prunable construct inside the branch a literal SELECT CASE / constant IF chooses
                    s = _prunable(rng, _prunable(rng, s, 1), 0)
                res.append(s)
            return res
        body = fir.map_program([A('program'), u[1], u], fs=fs)[2][4]
        out.append([u[0], u[1], u[2], u[3], body])
    return fir.canon(out)


def literal_selects(prog, rng):
    """every SELECT CASE selector becomes an integer literal (covered class of the dead-code model)"""
    def fs(stmts):
        res = []
        for s in stmts:
            if h(s) == 'select' and h(s[1]) != 'i':
                vals = [int(str(v)) for c in s[2] for v in c[0]]
                s = [s[0], fir.ilit(rng.choice(vals + [7, -1])), s[2], s[3]]
            res.append(s)
        return res
    return fir.canon(fir.map_program(prog, fs=fs))


def _recase(w, rng, p):
    r = rng.random()
    if r < p * 0.5:
        return w.upper()
    if r < p:
        return ''.join(c.upper() if rng.random() < 0.5 else c for c in w)
    return w


def rename_callee_names(prog, suffix='q'):
    """every declared name of the non-main units gets a suffix (dummies, locals, loop variables, ASSOCIATE names), so that no
    callee name coincides with a name of the caller"""
    main = str(prog[1])

    def ren_unit(u):
        names = {str(d[1]) for d in u[3]}

        def nm(a):
            return A(str(a) + suffix) if str(a) in names else a

        def ex(e, bound):
            if not isinstance(e, list):
                return e
            k = h(e)
            if k in ('v', 'idx', 'sec'):
                n = A(str(e[1]) + suffix) if (str(e[1]) in names or str(e[1]) in bound) else e[1]
                return [e[0], n] + [ex(c, bound) for c in e[2:]]
            if k == 'call':
                return [e[0], e[1]] + [ex(c, bound) for c in e[2:]]
            return [e[0]] + [ex(c, bound) for c in e[1:]]

        def st(s, bound):
            k = h(s)
            if k == 'do':
                return [s[0], nm(s[1]), ex(s[2], bound), ex(s[3], bound), ex(s[4], bound), [st(x, bound) for x in s[5]]]
            if k == 'assoc':
                b2 = bound | {str(b[0]) for b in s[1]}
                return [s[0], [[A(str(b[0]) + suffix), ex(b[1], bound)] for b in s[1]], [st(x, b2) for x in s[2]]]
            if k == 'callsub':
                return [s[0], s[1]] + [ex(a, bound) for a in s[2:]]
            if k == 'nop':
                return s
            if k == 'select':
                return [s[0], ex(s[1], bound), [[c[0], [st(x, bound) for x in c[1]]] for c in s[2]], [st(x, bound) for x in s[3]]]
            if k == 'while':
                return [s[0], ex(s[1], bound), [st(x, bound) for x in s[2]]]
            if k == 'if':
                return [s[0], ex(s[1], bound), [st(x, bound) for x in s[2]], [st(x, bound) for x in s[3]]]
            return [s[0]] + [ex(c, bound) for c in s[1:]]
        decls = [[d[0], nm(d[1]), d[2], d[3], [[ex(b[0], set()), ex(b[1], set())] for b in d[4]], ex(d[5], set())] for d in u[3]]
        return [u[0], u[1], [nm(a) for a in u[2]], decls, [st(x, set()) for x in u[4]]]
    return fir.canon([prog[0], prog[1]] + [u if str(u[1]) == main else ren_unit(u) for u in prog[2:]])


def recase_prog(prog, rng, p=0.6):
    """FIR program with every name occurrence in random letter case (Fortran names are case-insensitive)"""
    def nm(a):
        return A(_recase(str(a), rng, p))

    def ex(e):
        if not isinstance(e, list):
            return e
        k = h(e)
        if k in ('v', 'idx', 'sec', 'call'):
            return [e[0], nm(e[1])] + [ex(c) for c in e[2:]]
        return [e[0]] + [ex(c) for c in e[1:]]

    def st(s):
        k = h(s)
        if k == 'do':
            return [s[0], nm(s[1]), ex(s[2]), ex(s[3]), ex(s[4]), [st(x) for x in s[5]]]
        if k == 'assoc':
            return [s[0], [[nm(b[0]), ex(b[1])] for b in s[1]], [st(x) for x in s[2]]]
        if k == 'callsub':
            return [s[0], nm(s[1])] + [ex(a) for a in s[2:]]
        if k == 'nop':
            return s
        if k == 'select':
            return [s[0], ex(s[1]), [[c[0], [st(x) for x in c[1]]] for c in s[2]], [st(x) for x in s[3]]]
        if k in ('while',):
            return [s[0], ex(s[1]), [st(x) for x in s[2]]]
        if k == 'if':
            return [s[0], ex(s[1]), [st(x) for x in s[2]], [st(x) for x in s[3]]]
        return [s[0]] + [ex(c) for c in s[1:]]
    out = [prog[0], prog[1]]
    for u in prog[2:]:
        decls = [[d[0], nm(d[1]), d[2], d[3], [[ex(b[0]), ex(b[1])] for b in d[4]], ex(d[5])] for d in u[3]]
        out.append([u[0], u[1] if str(u[1]) == str(prog[1]) else nm(u[1]), [nm(a) for a in u[2]], decls, [st(x) for x in u[4]]])
    return fir.canon(out)


# ====================================================================== observations for the correspondence

_FILTER = set('''subroutine end implicit none integer real logical intent in out inout parameter do while if then else elseif
select case default associate call print exit cycle and or not true false eqv neqv use only module contains int enddo endif
kind'''.split())
_LEX = re.compile(r"(?P<num>\d+\.?\d*(?:[eEdD][+-]?\d+)?(?:_\w+)?|\.\d+(?:[eEdD][+-]?\d+)?(?:_\w+)?)|(?P<id>[A-Za-z_]\w*)|(?P<other>.)", re.S)


def ident_tokens(text):
    """identifier tokens of Fortran text in order (comments, numbers, keywords and the conversion functions REAL/INT dropped;
    intrinsic names inside PRINT statements lower-cased)"""
    out = []
    joined = []
    for line in text.splitlines():
        code = line.split('!')[0].rstrip()
        if joined and joined[-1].endswith('&'):
            joined[-1] = joined[-1][:-1] + ' ' + code.lstrip().lstrip('&')
        else:
            joined.append(code)
    for code in joined:
        in_print = code.strip().lower().startswith('print')
        for m in _LEX.finditer(code):
            if m.lastgroup == 'id' and m.group('id').lower() not in _FILTER:
                w = m.group('id')
                # fgen prints intrinsic names inside PRINT items (never visited by the transformation) in upper case
                out.append(w.lower() if in_print and w.lower() in fir.INTRINSICS else w)
    return out


def decl_stmts_of(routine):
    """[(attrs, [(name, shape)…])…] of the VariableDeclaration nodes of the routine's spec, in order"""
    from loki.ir import FindNodes, VariableDeclaration
    out = []
    for d in FindNodes(VariableDeclaration).visit(routine.spec):
        syms = []
        attrs = None
        for s in d.symbols:
            t = s.type
            a = f"{t.dtype.name.lower()} {str(t.intent).lower() if t.intent else 'none'}"
            attrs = attrs or a
            sh = getattr(s, 'shape', None)
            syms.append((str(s.name), None if sh is None else [str(x).lower().replace(' ', '') for x in sh]))
        out.append((attrs, syms))
    return out


def imports_of(routine):
    return [(str(i.module).lower(), None if i.symbols is None else [str(s.name).lower() for s in i.symbols]) for i in routine.imports]


# ---- abstract requests -> source text

_TYTXT = {'integer': 'integer', 'real': 'real', 'logical': 'logical'}


def decl_source(stmts):
    """stmts: [(attrs 'type intent', [(name, shape or None)…])…] -> a routine with exactly these declaration statements"""
    args = [n for a, syms in stmts if a.split()[1] != 'none' for n, _ in syms]
    lines = [f"subroutine sdecl({', '.join(['n', 'm'] + args)})", '  implicit none', '  integer, intent(in) :: n', '  integer, intent(in) :: m']
    for a, syms in stmts:
        ty, it = a.split()
        pre = _TYTXT[ty] + ('' if it == 'none' else f', intent({it})')
        ents = [n if sh is None else f"{n}({', '.join(sh)})" for n, sh in syms]
        lines.append(f"  {pre} :: {', '.join(ents)}")
    lines += ['end subroutine sdecl', '']
    return '\n'.join(lines)


IMP_MODS = {'m1': ['va1', 'va2', 'va3', 'va4'], 'm2': ['vb1', 'vb2', 'vb3']}


def imp_source(used, imps, members):
    lines = []
    for m, vs in IMP_MODS.items():
        lines += [f'module {m}', '  implicit none'] + [f'  integer :: {v} = 1' for v in vs] + [f'end module {m}', '']

    def scope(name, used, imps, ind, inner=()):
        out = [f'{ind}subroutine {name}(k)']
        for m, ss in imps:
            out.append(f'{ind}  use {m}' + ('' if not ss else ', only: ' + ', '.join(ss)))
        out += [f'{ind}  implicit none', f'{ind}  integer, intent(inout) :: k']
        out.append(f'{ind}  k = ' + ' + '.join(['k'] + list(used)))
        if inner:
            out.append(f'{ind}contains')
            for j, (u, i) in enumerate(inner):
                out += scope(f'{name}_in{j + 1}', u, i, ind + '  ')
        out.append(f'{ind}end subroutine {name}')
        return out
    lines += scope('simp', used, imps, '', members) + ['']
    return '\n'.join(lines)


# ====================================================================== requests

def covered_dead(prog):
    """Python mirror of Lean `DeadCovered`: every SELECT CASE selector is an integer literal"""
    for u in prog[2:]:
        for s in fir.iter_stmts(u[4]):
            if h(s) == 'select' and not (h(s[1]) == 'i' or (h(s[1]) == 'neg' and h(s[1][1]) == 'i')):
                return False
    return True


def _dec_shape(x):
    return None if not isinstance(x, list) else [str(d) for d in x]


def decode(req):
    """-> (kind, normaliser key, source text, extra)"""
    k = h(req)
    if k == 'fir':
        norm, prog = str(req[1]), req[2]
        if len(req) != 3 or norm not in NORMALISERS or h(prog) != 'program' or len(prog) < 3:
            raise ValueError('malformed request')
        for u in prog[2:]:
            if h(u) != 'unit' or len(u) != 5 or not all(isinstance(x, list) for x in u[2:]):
                raise ValueError('malformed unit')
        return 'fir', norm, fir.emit_fortran(prog, wrap_program=False), prog
    if k == 'src':
        norm = str(req[1])
        if len(req) != 3 or norm not in NORMALISERS or not isinstance(req[2], str):
            raise ValueError('malformed request')
        return 'src', norm, req[2], None
    if k == 'decl':
        vars_ = None if not isinstance(req[1], list) else [str(v) for v in req[1]]
        g = str(req[2]) == 'true'
        stmts = []
        for s in req[3:]:
            if h(s) != 'stmt' or not isinstance(s[1], str) or len(s) < 3:
                raise ValueError('malformed decl request')
            syms = []
            for y in s[2:]:
                if h(y) != 'sym' or len(y) != 3:
                    raise ValueError('malformed decl request')
                syms.append((str(y[1]), _dec_shape(y[2])))
            stmts.append((s[1], syms))
        if not stmts:
            raise ValueError('malformed decl request')
        return 'decl', 'single', decl_source(stmts), (vars_, g, stmts)
    if k == 'imp':
        if len(req) != 4 or not all(isinstance(x, list) for x in req[1:]):
            raise ValueError('malformed imp request')

        def imps(xs):
            out = []
            for i in xs:
                if h(i) != 'use' or len(i) != 3 or not isinstance(i[2], list):
                    raise ValueError('malformed imp request')
                out.append((str(i[1]), [str(s) for s in i[2]]))
            return out
        used = [str(x) for x in req[1]]
        members = []
        for m in req[3]:
            if not isinstance(m, list) or len(m) != 2:
                raise ValueError('malformed imp request')
            members.append(([str(x) for x in m[0]], imps(m[1])))
        ii = imps(req[2])
        return 'imp', 'imports', imp_source(used, ii, members), (used, ii, members)
    raise ValueError('malformed request')


def _apply_for(kind, norm, extra):
    if kind == 'decl':
        vars_, g, _ = extra

        def f(sf):
            from loki.transformations.utilities import single_variable_declaration
            for r in sf.all_subroutines:
                single_variable_declaration(r, variables=None if vars_ is None else tuple(vars_), group_by_shape=g)
        return f
    return lambda sf: apply_norm(norm, sf)


def run_once_twice(kind, norm, src, extra):
    """-> (t0, t1, t2, problem, sf after the FIRST application is not kept)"""
    from loki import fgen
    try:
        sf = parse_enriched(src)
        t0 = fgen(sf.ir)
    except Exception as e:
        raise InputRejected(f'{type(e).__name__}: {str(e)[:80]}') from e
    f = _apply_for(kind, norm, extra)
    try:
        f(sf)
        t1 = fgen(sf.ir)
    except Exception as e:
        raise FirstApplicationRaised(f'{type(e).__name__}: {str(e)[:160]}') from e
    try:
        f(sf)
        t2 = fgen(sf.ir)
    except Exception as e:
        return t0, t1, None, f'second application raised {type(e).__name__}: {str(e)[:160]}'
    return t0, t1, t2, None


# ---- generators of abstract requests

def gen_decl_req(rng):
    names = iter(['a', 'b', 'c', 'd', 'e', 'f', 'g', 'p', 'q', 'r', 's', 't', 'u', 'v', 'w', 'x', 'y', 'z'])
    shapes = [None, None, ['n'], ['n'], ['m'], ['n', 'm'], ['0:n'], ['2'], ['n', '2']]
    stmts = []
    all_names = []
    for _ in range(rng.randint(1, 4)):
        ty = rng.choice(('integer', 'real', 'real', 'logical'))
        it = rng.choice(('none', 'none', 'in', 'inout'))
        syms = []
        for _ in range(rng.choice((1, 2, 2, 3, 4, 5))):
            try:
                n = next(names)
            except StopIteration:
                break
            syms.append((n, rng.choice(shapes)))
            all_names.append(n)
        if syms:
            stmts.append((f'{ty} {it}', syms))
    mode = rng.random()
    vars_ = None if mode < 0.4 else [n for n in all_names if rng.random() < 0.4] + (['zz'] if rng.random() < 0.2 else [])
    g = rng.random() < 0.5
    req = [A('decl'), A('none') if vars_ is None else [A(v) for v in vars_], g]
    for a, syms in stmts:
        req.append([A('stmt'), a] + [[A('sym'), A(n), A('none') if sh is None else list(sh)] for n, sh in syms])
    return req, any(len(s) > 1 for _, s in stmts)


def gen_imp_req(rng, member_only=False):
    def gen_imps(extra_visible=()):
        imps, visible = [], list(extra_visible)
        for m, vs in IMP_MODS.items():
            for _ in range(rng.choice((0, 1, 1, 2))):
                if rng.random() < 0.15:
                    imps.append((m, []))
                    visible += vs
                else:
                    sel = [v for v in vs if rng.random() < 0.5]
                    if sel:
                        imps.append((m, sel))
                        visible += sel
        return imps, list(dict.fromkeys(visible))
    imps, vis = gen_imps()
    used = [v for v in vis if rng.random() < 0.5]
    members = []
    for _ in range(rng.choice((1, 1, 2) if member_only else (0, 0, 1, 2))):
        mi, mv = gen_imps(vis)
        members.append(([v for v in mv if rng.random() < 0.4], mi))
    if member_only:
        # a name the host imports explicitly and only a member uses (host association)
        explicit = [v for m, ss in imps for v in ss]
        if explicit:
            v = rng.choice(explicit)
            used = [u for u in used if u != v]
            k = rng.randrange(len(members))
            members[k] = (list(dict.fromkeys(members[k][0] + [v])), [(m, [x for x in ss if x != v] or ss) if (ss and v in ss and len(ss) > 1) else (m, ss)
                                                                     for m, ss in members[k][1] if not (ss == [v])])

    def enc(ii):
        return [[A('use'), A(m), [A(s) for s in ss]] for m, ss in ii]
    req = [A('imp'), [A(u) for u in used], enc(imps), [[[A(u) for u in mu], enc(mi)] for mu, mi in members]]
    return req, bool(imps)


SEQ_CFG = dict(max_stmts=10, symbolic_prob=0.0, n_callees=(1, 2), weights={'call': 40, 'do': 10, 'if': 6})
GEN_CFG = dict(max_stmts=14, weights={'assoc': 10, 'assign_section': 14, 'if': 14, 'select': 6, 'call': 10})


class C40(Prop):
    id = 'C40'
    title = 'Normalising transformations are idempotent'
    model_modules = ['LokiModel.C40.Model', 'LokiModel.C40.Abstract', 'LokiModel.C40.Enc']
    props_module = 'LokiModel.Props.C40'
    findings_module = 'LokiModel.Findings.C40'
    driver = 'Drivers/C40.lean'
    theorems = ['lower_idem', 'deadcode_idem', 'deadcode_idem_stmts', 'single_decl_idem', 'sanitise_imports_idem',
                'sanitise_routine_idem']
    design_ref = 'DESIGN.md 4.F C40'
    level = 'proof'
    level_text = ('Proved at full strength (all inputs, no hypotheses) about the models: lower_idem (convert_to_lower_case on FIR programs '
                  'with names of any case), deadcode_idem / deadcode_idem_stmts (do_remove_dead_code with use_simplify=False on FIR '
                  'statement lists, including the fact that the second application does not raise), single_decl_idem '
                  '(single_variable_declaration for every combination of variables/group_by_shape on declaration lists), '
                  'sanitise_imports_idem / sanitise_routine_idem (eliminate_unused_imports on import lists, routine with member '
                  'procedures).  Correspondence ties each of the four models to the real function.  Oracle only (fgen after one vs two '
                  'real applications): associate resolution, vector-notation resolution, range-index normalisation, sequence-association '
                  'resolution, dead-code removal with simplify, and all the modelled ones again.')
    level_note = ('Trusted: the FIR printer/exporter of harness/fir.py, the Loki frontend (inputs are given as source text), the Lean '
                  'driver and codec.  Modelled rather than verified: the used-name set of sanitise_imports is an input of the model '
                  '(the real code computes it from the routine; the correspondence compares results); the lower-casing correspondence '
                  'observes the sequence of identifier tokens of the printed code; SELECT selectors other than integer literals go through '
                  'simplify and are outside the dead-code model (class DeadCovered).  A first application that raises is not a C40 matter '
                  '(counted in the evidence, reported in notes/C40.md).')
    technique = 'Lean 4 theorems about hand-written models of the normalisers + correspondence with the real code + once-vs-twice oracle'
    rule = ('fir.gen_program (assoc/section/if/select/call-heavy) decorated per normaliser (random letter case, constant conditions and '
            'literal selectors, merged declarations, 1:n bounds, module imports with used/unused symbols), random declaration lists with '
            'options, random import lists with member procedures, hand-written corpus; non-trivial = the first application changes the text')
    trusted_base = ['harness/fir.py (generator, printer, exporter)', 'Loki fparser frontend and fgen (observation of the result)']
    assumptions = ['a first application that raises makes the property inapplicable to that input (counted, reported in the note)']
    extra_obligations = ['oracle: fgen after one real application == after two, all listed normalisers']

    def classes(self):
        return []

    # ---- generation
    def gen(self, rng, tier):
        per = {'quick': 5, 'thorough': 45, 'search': 12}.get(tier, 5)
        nabs = {'quick': 30, 'thorough': 300, 'search': 80}.get(tier, 30)
        for j in range(per):
            base = fir.gen_program(rng, GEN_CFG)
            for norm in NORMALISERS:
                prog = base
                if norm == 'lower':
                    q = recase_prog(prog, rng)
                    if frontend_accepts(q):      # streams with a model need an input the frontend parses
                        yield Case([A('fir'), A(norm), q], stream='fir-lower')
                    continue
                if norm == 'deadns':
                    q = literal_selects(dead_decorate(prog, rng), rng)
                    if frontend_accepts(q):
                        yield Case([A('fir'), A(norm), q], stream='fir-deadns')
                    continue
                if norm == 'dead':
                    yield Case([A('fir'), A(norm), dead_decorate(prog, rng)], stream='fir-dead')
                    continue
                if norm == 'seqassoc':
                    yield Case([A('fir'), A(norm), fir.gen_program(rng, SEQ_CFG)], stream='fir-seqassoc')
                    continue
                if norm in ('assoc', 'vector'):
                    yield Case([A('fir'), A(norm), prog], stream='fir-' + norm)
                    continue
                src = fir.emit_fortran(prog, wrap_program=False)
                if norm in ('single', 'singleshape'):
                    src = multi_decl_text(src, rng)
                elif norm == 'range':
                    src = one_bounds_text(multi_decl_text(src, rng, 0.3), rng)
                elif norm == 'imports':
                    src = imports_text(src, rng)
                yield Case([A('src'), A(norm), src], stream='src-' + norm)
        for j in range(nabs):
            req, nt = gen_decl_req(rng)
            yield Case(req, stream='decl', nontrivial=nt)
        for j in range(nabs):
            req, nt = gen_imp_req(rng)
            yield Case(req, stream='imp', nontrivial=nt)

    # ---- real code
    def impl(self, req):
        from loki import fgen
        kind, norm, src, extra = decode(req)
        if kind == 'fir' and norm == 'lower':
            sf = parse_enriched(src)
            apply_norm('lower', sf)
            return [A('names')] + ident_tokens(fgen(sf.ir))
        if kind == 'fir' and norm == 'deadns':
            if not covered_dead(extra):
                return [A('uncovered')]
            sf = parse_enriched(src)
            try:
                apply_norm('deadns', sf)
            except Exception:
                return [A('raised')]
            return [A('result'), fir.export_unit(sf, main=fir.prog_main(extra))]
        if kind == 'decl':
            sf = parse_enriched(src)
            _apply_for(kind, norm, extra)(sf)
            out = [A('decls')]
            for a, syms in decl_stmts_of(sf['sdecl'])[2:]:      # the first two statements declare n and m
                out.append([A('stmt'), a] + [[A('sym'), A(n), A('none') if sh is None else list(sh)] for n, sh in syms])
            return out
        if kind == 'imp':
            sf = parse_enriched(src)
            r = sf['simp']
            _n_imports(r)

            def enc(ii):
                return [[A('use'), A(m), A('none') if ss is None else [A(s) for s in ss]] for m, ss in ii]
            return [A('imports'), enc(imports_of(r)), [enc(imports_of(m)) for m in r.members]]
        return [A('nomodel')]

    def canon_model(self, resp):
        k = h(resp)
        if k == 'result' and len(resp) == 2:
            return [A('names')] + ident_tokens(fir.emit_fortran(resp[1], wrap_program=False))
        if k in ('result', 'raised') and str(resp[1]) == 'false':
            return [A('uncovered')]
        if k == 'result':
            return [A('result'), fir.normalize(resp[2])]
        if k == 'raised':
            return [A('raised')]
        return resp

    # ---- direct oracle
    def oracle(self, req):
        kind, norm, src, extra = decode(req)
        tag = norm if kind != 'decl' else f'single(variables={extra[0]}, group_by_shape={extra[1]})'
        try:
            t0, t1, t2, prob = run_once_twice(kind, norm, src, extra)
        except InputRejected as e:
            stats[f'input-rejected-by-frontend:{str(e)[:50]}'] += 1
            return []
        except FirstApplicationRaised as e:
            stats[f'first-application-raised:{norm}:{str(e)[:60]}'] += 1
            return []
        stats['applied:' + norm] += 1
        if t0 != t1:
            stats['changed:' + norm] += 1
        if prob:
            return [Failure(f'{tag}: {prob}', None)]
        if t1 != t2:
            return [Failure(f'{tag}: fgen after two applications differs from fgen after one: {first_diff(t1, t2)}', None)]
        return []

    def post(self, cases, impl_out, model_raw, oracle_fail):
        cov = {'normaliser_runs': {k: v for k, v in sorted(stats.items())}}
        return [], cov

    def shrink_candidates(self, req):
        if h(req) == 'src':
            lines = req[2].split('\n')
            for k in range(len(lines)):
                yield [req[0], req[1], '\n'.join(lines[:k] + lines[k + 1:])]
        else:
            from ..core import _subterms_replace
            yield from _subterms_replace(req)


PROP = C40()
READY = True
