"""C03 — conservative output reproduces unmodified source verbatim.

Request:  (edit SRC UNIT (EDIT ...) TREE RTAB)
  SRC    = (text "fortran source") | (file "path relative to the repo")
  UNIT   = "name of the routine whose body is edited"
  EDIT   = (tr RS ((IDX HANDLE) ...))      Transformer(mapper, rebuild_scopes=RS).visit(body); IDX = pre-order index in the current body
           (sub RS "var" "new")            SubstituteExpressions({var: new}, rebuild_scopes=RS).visit(body)  (scalar rename, at most once)
  HANDLE = none | (node H) | (tuple H ...);  H = (ref IDX) an existing node (moved/copied) | (fresh J) the J-th fresh statement
  TREE   = export of the routine body as the frontend produced it:
           (KIND LBL (INLINE ELSEIF LABEL|none) STATUS L0 L1 (line ...) (body ...) (else ...))
  RTAB   = ((LBL ((hdr ...) (hdrEI ...) (mid ...) (ftr ...)) BIND NOIND ASG) ...)  what the regular backend prints for the node
           itself at depth 0 (children replaced by markers); entries for the original nodes, the fresh nodes (LBL >= 100000) and the
           substituted variants (LBL + 50000);  ASG = none | ("lhs" "rhs" "str(lhs)" "str(rhs)" "comment" PTR)
Response: (ok ((KIND LBL STATUS) ...) (line ...)) | (error unsupported|tree-mismatch|indexerror|typeerror|...)

TREE and RTAB are *derived data*: impl recomputes them from SRC with the real frontend/backend and answers (error tree-mismatch)
if the request carries something else, so the model never runs on data the real code would not produce.
"""
import functools
import re
import tokenize  # noqa: F401  (not used; Fortran tokens are scanned by `ftokens`)

from loki import Sourcefile
from loki.frontend import FP
from loki.frontend.source import SourceStatus
from loki.ir import nodes as ir, Transformer, SubstituteExpressions, FindVariables
from loki.ir.nodes import Node, ScopedNode
from loki.backend.fgen import FortranCodegen, fgen
from loki.backend.fgencon import FortranCodegenConservative
from loki.backend.style import FortranStyle
from loki.tools import flatten
from loki.expression import symbols as sym

from ..core import Prop, Case, Failure, REPO
from ..sexpr import A, dumps

SUBOFF = 50000
FRESHOFF = 100000

VERBATIM = {ir.Assignment: 'assign', ir.CallStatement: 'call', ir.Comment: 'comment', ir.VariableDeclaration: 'decl',
            ir.Import: 'imprt', ir.Loop: 'loop', ir.Conditional: 'cond', ir.Section: 'section'}


class Unsupported(Exception):
    pass


def kind_of(o):
    k = VERBATIM.get(type(o))
    if k:
        return k
    trav = list(o._traversable)
    nodefields = [f for f in trav if f in ('body', 'else_body', 'bodies', 'default', 'comments')]
    if nodefields == ['body']:
        return 'scoped' if isinstance(o, ScopedNode) else 'iother'
    if nodefields:
        return None
    if isinstance(o, ScopedNode) or any(isinstance(c, Node) for c in flatten(o.children)):
        return None
    return 'lother'


# ---------------------------------------------------------------- front end

@functools.lru_cache(maxsize=512)
def _read(path):
    return (REPO / path).read_text()


def src_text(src):
    return src[1] if str(src[0]) == 'text' else _read(src[1])


def parse(text):
    return Sourcefile.from_source(text, frontend=FP)


def all_routines(sf):
    out = []

    def rec(units):
        for u in units or ():
            if type(u).__name__ == 'Subroutine':
                out.append(u)
            rec(getattr(u, 'subroutines', ()))
    rec(sf.modules)
    rec(sf.routines)
    return out


def get_unit(sf, name):
    for r in all_routines(sf):
        if r.name.lower() == name.lower():
            return r
    raise KeyError(name)


# ---------------------------------------------------------------- export

STAT = {SourceStatus.VALID: 'valid', SourceStatus.INVALID_NODE: 'inode', SourceStatus.INVALID_CHILDREN: 'ichildren'}
BADCH = re.compile('[\r\x0b\x0c\x1c\x1d\x1e\x85  ]')


def status_of(o):
    return STAT[o.source.status] if o.source else 'none'


def node_kids(o):
    body = tuple(o.body) if 'body' in o._traversable else ()
    els = tuple(o.else_body) if 'else_body' in o._traversable else ()
    return body, els


def preorder(o):
    yield o
    b, e = node_kids(o)
    for c in b + e:
        yield from preorder(c)


MB, ME = '!@@B@@', '!@@E@@'


def _plain(o, **kw):
    return FortranCodegen(style=FortranStyle(), depth=0).visit(o, **kw)


def render_data(o):
    """[(hdr hdrEI mid ftr) bind noind asg] for one node: what the regular backend prints for the node itself at depth 0"""
    k = kind_of(o)
    asg = A('none')
    sp = lambda t: [] if t is None else t.split('\n')
    if k in ('assign', 'call', 'comment', 'decl', 'imprt'):
        if k == 'assign':
            cg = FortranCodegenConservative(style=FortranStyle(), depth=0)
            comment = str(cg.visit(o.comment)) if o.comment else ''
            asg = [cg.visit(o.lhs), cg.visit(o.rhs), str(o.lhs), str(o.rhs), comment, bool(o.ptr)]
        return [[sp(_plain(o)), [], [], []], 0, False, asg]
    if k == 'lother':
        # leaf kinds without a handler in the conservative visitor never look at their own source
        t0 = FortranCodegenConservative(style=FortranStyle(), depth=0).visit(o)
        t2 = FortranCodegenConservative(style=FortranStyle(), depth=2).visit(o)
        return [[sp(t0), [], [], []], 0, t0 == t2, asg]
    if k == 'section':
        return [[[], [], [], []], 0, False, asg]
    mb, me = ir.Comment(text=MB), ir.Comment(text=ME)
    if k == 'cond':
        if o.inline:
            txt = _plain(o.clone(body=(mb,), else_body=(), source=None))
            if not txt.endswith(MB) or '\n' in txt:
                raise Unsupported('inline conditional layout')
            return [[[txt[:-len(MB)]], [], [], []], 0, False, asg]
        c = o.clone(body=(mb,), else_body=(me,), has_elseif=False, source=None)
        lines = _plain(c).split('\n')
        ib = [i for i, l in enumerate(lines) if l.strip() == MB][0]
        ie = [i for i, l in enumerate(lines) if l.strip() == ME][0]
        bind = len(lines[ib]) - len(lines[ib].lstrip())
        ei = _plain(c, is_elseif=True).split('\n')
        ib2 = [i for i, l in enumerate(ei) if l.strip() == MB][0]
        return [[lines[:ib], ei[:ib2], lines[ib + 1:ie], lines[ie + 1:]], bind, False, asg]
    c = o.clone(body=(mb,), source=None)       # loop, scoped, iother: one body
    lines = _plain(c).split('\n')
    ib = [i for i, l in enumerate(lines) if l.strip() == MB][0]
    bind = len(lines[ib]) - len(lines[ib].lstrip())
    return [[lines[:ib], [], [], lines[ib + 1:]], bind, False, asg]


def content_key(o):
    """identifies the payload (all non-node fields) of a node across rebuilds"""
    s = o.source
    rd = render_data(o)
    return (type(o).__name__, (s.lines, s.string) if s else None, dumps(rd))


class World:
    """one parsed file, the routine body under edit, and the payload-id table"""

    def __init__(self, src, unit):
        self.text = src_text(src)
        self.sf = parse(self.text)
        self.routine = get_unit(self.sf, unit)
        self.body = self.routine.body
        self.keys = {}      # content key -> lbl
        self.rtab = {}      # lbl -> render data
        self.bypos = {}     # (class, lines, string) -> original lbl
        for i, o in enumerate(preorder(self.body)):
            if kind_of(o) is None:
                raise Unsupported(type(o).__name__)
            s = o.source
            if s is None or s.string is None or BADCH.search(s.string):
                raise Unsupported('source')
            self._register(o, i)
            self.bypos[(type(o).__name__, s.lines, s.string)] = i
        self.fresh = fresh_nodes(self.routine)
        j = 0
        for f in self.fresh:
            for o in preorder(f):
                self._register(o, FRESHOFF + j)
                j += 1

    def _register(self, o, lbl):
        self.keys.setdefault(content_key(o), lbl)
        self.rtab.setdefault(lbl, render_data(o))

    def lbl(self, o):
        k = content_key(o)
        if k in self.keys:
            return self.keys[k]
        s = o.source
        pos = (type(o).__name__, s.lines, s.string) if s else None
        if pos in self.bypos:                         # an original node whose expressions were substituted
            self._register(o, self.bypos[pos] + SUBOFF)
            return self.keys[k]
        raise Unsupported('unknown node ' + repr(o))

    def export(self, o):
        s = o.source
        if s:
            lines = s.string.split('\n')
            l0, l1 = s.lines[0], (s.lines[1] if s.lines[1] is not None else s.lines[0])
        else:
            lines, l0, l1 = [], 0, 0
        b, e = node_kids(o)
        lab = getattr(o, 'label', None)
        fl = [bool(getattr(o, 'inline', False)), bool(getattr(o, 'has_elseif', False)), A('none') if lab is None else str(lab)]
        return [A(kind_of(o)), self.lbl(o), fl, A(status_of(o)), l0, l1, lines,
                [self.export(c) for c in b], [self.export(c) for c in e]]

    def rtab_sexp(self):
        return [[l] + self.rtab[l] for l in sorted(self.rtab)]

    def statuses(self, o):
        return [[A(kind_of(n)), self.lbl(n), A(status_of(n))] for n in preorder(o)]


def fresh_nodes(routine):
    """a fixed family of fresh statements (no source): their variables need not be declared, the backend does not care"""
    v = lambda n: sym.Variable(name=n, scope=routine)
    lit = sym.IntLiteral
    out = []
    for j in range(4):
        out.append(ir.Assignment(lhs=v('w'), rhs=sym.Sum((v('w'), lit(j + 1)))))
    out.append(ir.Comment(text='! fresh comment'))
    out.append(ir.CallStatement(name=sym.ProcedureSymbol('fresh_sub', scope=routine), arguments=(v('w'),)))
    out.append(ir.Loop(variable=v('iw'), bounds=sym.LoopRange((lit(1), lit(3))),
                       body=(ir.Assignment(lhs=v('w'), rhs=sym.Product((v('w'), lit(7)))),)))
    out.append(ir.Conditional(condition=sym.Comparison(v('w'), '>', lit(0)),
                              body=(ir.Assignment(lhs=v('w'), rhs=lit(8)),),
                              else_body=(ir.Assignment(lhs=v('w'), rhs=lit(9)),)))
    return out


# ---------------------------------------------------------------- edits on the real IR

def resolve(world, body, h):
    nodes = list(preorder(body))
    if str(h[0]) == 'ref':
        return nodes[int(str(h[1]))]
    if str(h[0]) == 'fresh':
        return world.fresh[int(str(h[1]))]
    raise ValueError(h)


def apply_edit(world, body, ed):
    op = str(ed[0])
    rs = str(ed[1]) == 'true'
    if op == 'tr':
        nodes = list(preorder(body))
        mapper = {}
        for idx, h in ed[2]:
            k = nodes[int(str(idx))]
            if not isinstance(h, list):
                mapper[k] = None
            elif str(h[0]) == 'node':
                mapper[k] = resolve(world, body, h[1])
            else:
                mapper[k] = tuple(resolve(world, body, x) for x in h[1:])
        return Transformer(mapper, rebuild_scopes=rs).visit(body)
    if op == 'sub':
        old, new = ed[2], ed[3]
        vmap = {v: v.clone(name=new) for v in FindVariables(unique=False).visit(body) if v.name.lower() == old.lower()}
        return SubstituteExpressions(vmap, rebuild_scopes=rs).visit(body)
    raise ValueError(op)


def run_edits(world, edits):
    body = world.body
    for ed in edits:
        body = apply_edit(world, body, ed)
    return body


def cons(body):
    return fgen(body, conservative=True)


# ---------------------------------------------------------------- requests

_worlds = {}


def world_for(src, unit):
    """a *fresh* parse for every use: `SubstituteExpressions` flags the Source objects of the tree it is given"""
    return World(src, unit)


def derived(src, unit, edits):
    """(TREE, RTAB, FRESH) for a request; the substituted variants are obtained from a separate parse"""
    try:
        w = world_for(src, unit)
        tree = w.export(w.body)
        fresh = [w.export(f) for f in w.fresh]
        subs = [e for e in edits if str(e[0]) == 'sub']
        if len(subs) > 1:
            raise Unsupported('more than one substitution')
        if subs:
            w2 = world_for(src, unit)
            w2.export(w2.body)
            nb = apply_edit(w2, w2.body, [A('sub'), A('false'), subs[0][2], subs[0][3]])
            for n in preorder(nb):
                w2.lbl(n)
            for l, rd in w2.rtab.items():
                w.rtab.setdefault(l, rd)
        return tree, w.rtab_sexp(), fresh
    except Unsupported:
        return [A('unsupported')], [], []


def make_req(src, unit, edits):
    tree, rtab, fresh = derived(src, unit, edits)
    return [A('edit'), src, unit, edits, tree, rtab, fresh]


def split_req(req):
    if str(req[0]) != 'edit' or len(req) != 7:
        raise ValueError('bad request')
    src, unit, edits = req[1], req[2], req[3]
    if str(src[0]) not in ('text', 'file') or not isinstance(src[1], str) or not isinstance(unit, str):
        raise ValueError('bad request')
    return src, unit, edits, req[4], req[5], req[6]


EXC = {IndexError: 'indexerror', TypeError: 'typeerror', AttributeError: 'attributeerror', AssertionError: 'assertionerror'}


def run_real(req):
    """-> ('error', tag) | ('ok', world, new_body, text)"""
    src, unit, edits, tree, rtab, fresh = split_req(req)
    d = derived(src, unit, edits)
    if dumps(d[0]) == '(unsupported)':
        return ('error', 'unsupported')
    if dumps([tree, rtab, fresh]) != dumps(list(d)):
        return ('error', 'tree-mismatch')
    w = world_for(src, unit)
    w.export(w.body)
    for row in rtab:
        w.rtab.setdefault(int(str(row[0])), row[1:])
    nb = run_edits(w, edits)
    try:
        out = cons(nb)
    except tuple(EXC) as e:
        return ('error', EXC[type(e)], w, nb)
    return ('ok', w, nb, out)


def impl_edit(req):
    r = run_real(req)
    if r[0] == 'error':
        return [A('error'), A(r[1])]
    _, w, nb, out = r
    # the substituted variants must be the ones announced in RTAB
    return [A('ok'), w.statuses(nb), A('none') if out is None else out.split('\n')]


# ---------------------------------------------------------------- direct oracle helpers: Fortran text up to layout

_OLDOPS = {'.gt.': '>', '.lt.': '<', '.ge.': '>=', '.le.': '<=', '.eq.': '==', '.ne.': '/='}


def logical_lines(text):
    """free-form Fortran -> list of statements: comments removed, continuations joined, blanks removed and lower case outside
    character literals, old-style relational operators rewritten, `;` splits statements"""
    out, cur, cont = [], [], False
    for raw in text.split('\n'):
        if raw.lstrip().startswith('#'):
            out.append(''.join(raw.split()))
            continue
        buf, q, i = [], None, 0
        line = raw
        if cont:
            ls = line.lstrip()
            if ls.startswith('&'):
                line = ls[1:]
        stripped_any = False
        while i < len(line):
            c = line[i]
            if q:
                buf.append(c)
                if c == q:
                    q = None
            elif c in '\'"':
                q = c
                buf.append(c)
            elif c == '!':
                break
            elif c == ';':
                cur.append(''.join(buf))
                buf = []
                out.append(''.join(cur))
                cur = []
            elif c in ' \t':
                pass
            else:
                buf.append(c.lower())
            i += 1
        s = ''.join(buf)
        if not s and not cur and not cont:
            continue
        if not s and cont:
            continue            # comment or blank line inside a continued statement
        if s.endswith('&'):
            cur.append(s[:-1])
            cont = True
        else:
            cur.append(s)
            out.append(''.join(cur))
            cur, cont = [], False
    if cur:
        out.append(''.join(cur))
    res = []
    for s in out:
        if not s:
            continue
        for a, b in _OLDOPS.items():
            s = s.replace(a, b)
        m = re.fullmatch(r'((?:\d+)?call[a-z_][a-z0-9_%]*)', s)
        if m:
            s += '()'
        res.append(s)
    return res


def first_diff(a, b):
    for i, (x, y) in enumerate(zip(a, b)):
        if x != y:
            return f'statement {i}: {x!r} vs {y!r}'
    if len(a) != len(b):
        i = min(len(a), len(b))
        return f'statement {i}: {(a[i:i+1] or ["<end>"])[0]!r} vs {(b[i:i+1] or ["<end>"])[0]!r}'
    return None


def repo_fortran_files():
    out = []
    for p in sorted(REPO.rglob('*')):
        if p.suffix.lower() in ('.f90', '.f', '.f95', '.f03') and p.is_file():
            rel = p.relative_to(REPO)
            if rel.parts[0] in ('build', '.git') or 'egg-info' in str(rel):
                continue
            out.append(str(rel))
    return out
