"""C03 — conservative output reproduces unmodified source verbatim.

Request:  (edit SRC UNIT (EDIT ...) TREE RTAB)
  SRC    = (text "fortran source") | (file "path relative to the repo")
  UNIT   = "name of the routine whose body is edited"
  EDIT   = (tr RS ((IDX HANDLE) ...))      Transformer(mapper, rebuild_scopes=RS).visit(body); IDX = pre-order index in the current body
           (tri RS ((IDX HANDLE) ...))     the same with inplace=True (value-level the same result; moved nodes are leaves)
           (subi RS "var" "new")           SubstituteExpressions(..., inplace=True)
           (ntr RS ((IDX HANDLE) ...))     NestedTransformer           } outside the model: impl and driver answer (ok oracle-only),
           (upd RS ((IDX HANDLE) ...))     parent._update + invalidate } the direct oracle does the checking
           (sub RS "var" "new")            SubstituteExpressions({var: new}, rebuild_scopes=RS).visit(body)  (scalar rename, at most once)
  HANDLE = none | (node H) | (tuple H ...);  H = (ref IDX) an existing node (moved/copied) | (fresh J) the J-th fresh statement
  TREE   = export of the routine body as the frontend produced it:
           (KIND LBL (INLINE ELSEIF LABEL|none ENDDO NAME|none) STATUS L0 L1 (line ...) (body ...) (else ...))
  RTAB   = ((LBL ((hdr ...) (hdrEI ...) (mid ...) (ftr ...)) BIND NOIND ASG) ...)  what the regular backend prints for the node
           itself at depth 0 (children replaced by markers); entries for the original nodes, the fresh nodes (LBL >= 100000) and the
           substituted variants (LBL + 50000);  ASG = none | ("lhs" "rhs" "str(lhs)" "str(rhs)" "comment" PTR)
Response: (ok ((KIND LBL STATUS) ...) (line ...)) | (error unsupported|tree-mismatch|indexerror|typeerror|...)

TREE and RTAB are *derived data*: impl recomputes them from SRC with the real frontend/backend and answers (error tree-mismatch)
if the request carries something else, so the model never runs on data the real code would not produce.
"""
import functools
import re
import tokenize  # noqa: F401  (not used; Fortran tokens are scanned by `ftokens`)

from pydantic import ValidationError
from loki import Sourcefile
from loki.frontend import FP
from loki.frontend.source import SourceStatus
from loki.ir import nodes as ir, Transformer, NestedTransformer, SubstituteExpressions, FindVariables
from loki.ir.nodes import Node, ScopedNode
from loki.backend.fgen import FortranCodegen, fgen
from loki.backend.fgencon import FortranCodegenConservative
from loki.backend.style import FortranStyle
from loki.tools import flatten
from loki.expression import symbols as sym

from ..core import Prop, Case, Failure, REPO
from ..sexpr import A, dumps

SUBOFF = 50000
FRESHOFF = 100000

VERBATIM = {ir.Assignment: 'assign', ir.CallStatement: 'call', ir.Comment: 'comment', ir.VariableDeclaration: 'decl',
            ir.Import: 'imprt', ir.Loop: 'loop', ir.Conditional: 'cond', ir.Section: 'section'}


class Unsupported(Exception):
    pass


def kind_of(o):
    k = VERBATIM.get(type(o))
    if k:
        return k
    trav = list(o._traversable)
    nodefields = [f for f in trav if f in ('body', 'else_body', 'bodies', 'default', 'comments')]
    if nodefields == ['body']:
        return 'scoped' if isinstance(o, ScopedNode) else 'iother'
    if nodefields:
        return None
    if isinstance(o, ScopedNode) or any(isinstance(c, Node) for c in flatten(o.children)):
        return None
    return 'lother'


# ---------------------------------------------------------------- front end

@functools.lru_cache(maxsize=512)
def _read(path):
    return (REPO / path).read_text()


def src_text(src):
    return src[1] if str(src[0]) == 'text' else _read(src[1])


def parse(text):
    return Sourcefile.from_source(text, frontend=FP)


def all_routines(sf):
    out = []

    def rec(units):
        for u in units or ():
            if type(u).__name__ == 'Subroutine':
                out.append(u)
            rec(getattr(u, 'subroutines', ()))
    rec(sf.modules)
    rec(sf.routines)
    return out


def get_unit(sf, name):
    for r in all_routines(sf):
        if r.name.lower() == name.lower():
            return r
    raise KeyError(name)


# ---------------------------------------------------------------- export

STAT = {SourceStatus.VALID: 'valid', SourceStatus.INVALID_NODE: 'inode', SourceStatus.INVALID_CHILDREN: 'ichildren'}
BADCH = re.compile('[\r\x0b\x0c\x1c\x1d\x1e\x85  ]')


def status_of(o):
    return STAT[o.source.status] if o.source else 'none'


def node_kids(o):
    body = tuple(o.body) if 'body' in o._traversable else ()
    els = tuple(o.else_body) if 'else_body' in o._traversable else ()
    return body, els


def preorder(o):
    yield o
    b, e = node_kids(o)
    for c in b + e:
        yield from preorder(c)


MB, ME = '!@@B@@', '!@@E@@'


def _plain(o, **kw):
    return FortranCodegen(style=FortranStyle(), depth=0).visit(o, **kw)


_effname = {}      # (source lines, source string) of an ELSE IF branch -> the construct name handed down by the enclosing IF


def note_names(body):
    def walk(c, inherited):
        name = c.name or inherited
        if name and c.source:
            _effname[(c.source.lines, c.source.string)] = name
        if c.has_elseif and c.else_body and isinstance(c.else_body[0], ir.Conditional):
            walk(c.else_body[0], name)
    for o in preorder(body):
        if isinstance(o, ir.Conditional) and (o.source is None or (o.source.lines, o.source.string) not in _effname):
            walk(o, None)


def eff_name(o):
    if not isinstance(o, ir.Conditional):
        return None
    return o.name or (_effname.get((o.source.lines, o.source.string)) if o.source else None)


def render_data(o):
    """[(hdr hdrEI mid ftr) bind noind asg] for one node: what the regular backend prints for the node itself at depth 0"""
    k = kind_of(o)
    asg = A('none')
    sp = lambda t: [] if t is None else t.split('\n')
    if k in ('assign', 'call', 'comment', 'decl', 'imprt'):
        if k == 'assign':
            cg = FortranCodegenConservative(style=FortranStyle(), depth=0)
            comment = str(cg.visit(o.comment)) if o.comment else ''
            asg = [cg.visit(o.lhs), cg.visit(o.rhs), str(o.lhs), str(o.rhs), comment, bool(o.ptr)]
        return [[sp(_plain(o)), [], [], []], 0, False, asg]
    if k == 'lother':
        # leaf kinds without a handler in the conservative visitor never look at their own source
        t0 = FortranCodegenConservative(style=FortranStyle(), depth=0).visit(o)
        t2 = FortranCodegenConservative(style=FortranStyle(), depth=2).visit(o)
        return [[sp(t0), [], [], []], 0, t0 == t2, asg]
    if k == 'section':
        return [[[], [], [], []], 0, False, asg]
    mb, me = ir.Comment(text=MB), ir.Comment(text=ME)
    if k == 'cond':
        if o.inline:
            txt = _plain(o.clone(body=(mb,), else_body=(), source=None))
            if not txt.endswith(MB) or '\n' in txt:
                raise Unsupported('inline conditional layout')
            return [[[txt[:-len(MB)]], [], [], []], 0, False, asg]
        c = o.clone(body=(mb,), else_body=(me,), has_elseif=False, source=None)
        nm = eff_name(o)
        kw = {'name': f' {nm}'} if nm and not o.name else {}      # an ELSE IF branch gets the construct name through kwargs
        lines = _plain(c, **kw).split('\n')
        ib = [i for i, l in enumerate(lines) if l.strip() == MB][0]
        ie = [i for i, l in enumerate(lines) if l.strip() == ME][0]
        bind = len(lines[ib]) - len(lines[ib].lstrip())
        ei = _plain(c, is_elseif=True, **kw).split('\n')
        ib2 = [i for i, l in enumerate(ei) if l.strip() == MB][0]
        return [[lines[:ib], ei[:ib2], lines[ib + 1:ie], lines[ie + 1:]], bind, False, asg]
    c = o.clone(body=(mb,), source=None)       # loop, scoped, iother: one body
    lines = _plain(c).split('\n')
    ib = [i for i, l in enumerate(lines) if l.strip() == MB][0]
    bind = len(lines[ib]) - len(lines[ib].lstrip())
    return [[lines[:ib], [], [], lines[ib + 1:]], bind, False, asg]


_ckeys = {}


def content_key(o):
    """identifies the payload (all non-node fields) of a node across rebuilds"""
    hit = _ckeys.get(id(o))
    if hit is not None and hit[0] is o and not isinstance(o, ScopedNode):   # ScopedNodes are updated in place
        return hit[1]
    s = o.source
    rd = render_data(o)
    key = (type(o).__name__, (s.lines, s.string) if s else None, dumps(rd))
    if len(_ckeys) > 20000:
        _ckeys.clear()
    _ckeys[id(o)] = (o, key, rd)
    return key


class World:
    """one parsed file, the routine body under edit, and the payload-id table"""

    def __init__(self, src, unit):
        self.text = src_text(src)
        self.sf = parse(self.text)
        self.routine = get_unit(self.sf, unit)
        self.body = self.routine.body
        self.keys = {}      # content key -> lbl
        self.rtab = {}      # lbl -> render data
        self.bypos = {}     # (class, lines, string) -> original lbl
        note_names(self.body)
        for i, o in enumerate(preorder(self.body)):
            if kind_of(o) is None:
                raise Unsupported(type(o).__name__)
            s = o.source
            if s is None or s.string is None or BADCH.search(s.string):
                raise Unsupported('source')
            self._register(o, i)
            self.bypos[(type(o).__name__, s.lines, s.string)] = i
        self.fresh = fresh_nodes(self.routine)
        j = 0
        for f in self.fresh:
            for o in preorder(f):
                self._register(o, FRESHOFF + j)
                j += 1

    def _register(self, o, lbl):
        self.keys.setdefault(content_key(o), lbl)
        self.rtab.setdefault(lbl, _ckeys[id(o)][2])

    def lbl(self, o):
        k = content_key(o)
        if k in self.keys:
            return self.keys[k]
        s = o.source
        pos = (type(o).__name__, s.lines, s.string) if s else None
        if pos in self.bypos:                         # an original node whose expressions were substituted
            self._register(o, self.bypos[pos] + SUBOFF)
            return self.keys[k]
        raise Unsupported('unknown node ' + repr(o))

    def export(self, o):
        s = o.source
        if s:
            lines = s.string.split('\n')
            l0, l1 = s.lines[0], (s.lines[1] if s.lines[1] is not None else s.lines[0])
        else:
            lines, l0, l1 = [], 0, 0
        b, e = node_kids(o)
        lab = getattr(o, 'label', None)
        fl = [bool(getattr(o, 'inline', False)), bool(getattr(o, 'has_elseif', False)), A('none') if lab is None else str(lab),
              bool(getattr(o, 'has_end_do', True)), A('none') if eff_name(o) is None else str(eff_name(o))]
        return [A(kind_of(o)), self.lbl(o), fl, A(status_of(o)), l0, l1, lines,
                [self.export(c) for c in b], [self.export(c) for c in e]]

    def rtab_sexp(self):
        return [[l] + self.rtab[l] for l in sorted(self.rtab)]

    def statuses(self, o):
        return [[A(kind_of(n)), self.lbl(n), A(status_of(n))] for n in preorder(o)]


def fresh_nodes(routine):
    """a fixed family of fresh statements (no source): their variables need not be declared, the backend does not care"""
    v = lambda n: sym.Variable(name=n, scope=routine)
    lit = sym.IntLiteral
    out = []
    for j in range(4):
        out.append(ir.Assignment(lhs=v('w'), rhs=sym.Sum((v('w'), lit(j + 1)))))
    out.append(ir.Comment(text='! fresh comment'))
    out.append(ir.CallStatement(name=sym.ProcedureSymbol('fresh_sub', scope=routine), arguments=(v('w'),)))
    out.append(ir.Loop(variable=v('iw'), bounds=sym.LoopRange((lit(1), lit(3))),
                       body=(ir.Assignment(lhs=v('w'), rhs=sym.Product((v('w'), lit(7)))),)))
    out.append(ir.Conditional(condition=sym.Comparison(v('w'), '>', lit(0)),
                              body=(ir.Assignment(lhs=v('w'), rhs=lit(8)),),
                              else_body=(ir.Assignment(lhs=v('w'), rhs=lit(9)),)))
    return out


# ---------------------------------------------------------------- edits on the real IR

def resolve(world, body, h):
    nodes = list(preorder(body))
    if str(h[0]) == 'ref':
        return nodes[int(str(h[1]))]
    if str(h[0]) == 'fresh':
        return world.fresh[int(str(h[1]))]
    raise ValueError(h)


ORACLE_ONLY_OPS = ('ntr', 'upd')


def _mapper(world, body, pairs):
    nodes = list(preorder(body))
    mapper = {}
    for idx, h in pairs:
        k = nodes[int(str(idx))]
        if not isinstance(h, list):
            mapper[k] = None
        elif str(h[0]) == 'node':
            mapper[k] = resolve(world, body, h[1])
        else:
            mapper[k] = tuple(resolve(world, body, x) for x in h[1:])
    return mapper


def _path_to(body, target):
    """[(ancestor, field name)] from the root down to the parent of `target` (object identity)"""
    def rec(o, trail):
        for f in ('body', 'else_body'):
            if f in o._traversable:
                for c in getattr(o, f):
                    if c is target:
                        return trail + [(o, f)]
                    r = rec(c, trail + [(o, f)])
                    if r:
                        return r
        return None
    return rec(body, [])


def apply_edit(world, body, ed):
    """tr / tri: Transformer (rebuild / inplace=True); sub / subi: SubstituteExpressions (rebuild / inplace=True);
    ntr: NestedTransformer; upd: the node's parent is `_update`d directly and every ancestor's source invalidated by hand
    (the way `loki/lint/utils.py` does it)"""
    op = str(ed[0])
    rs = str(ed[1]).lower() == 'true'
    if op in ('tr', 'tri'):
        res = Transformer(_mapper(world, body, ed[2]), rebuild_scopes=rs, inplace=(op == 'tri')).visit(body)
    elif op == 'ntr':
        res = NestedTransformer(_mapper(world, body, ed[2]), rebuild_scopes=rs).visit(body)
    elif op in ('sub', 'subi'):
        old, new = ed[2], ed[3]
        vmap = {v: v.clone(name=new) for v in FindVariables(unique=False).visit(body) if v.name.lower() == old.lower()}
        res = SubstituteExpressions(vmap, rebuild_scopes=rs, inplace=(op == 'subi')).visit(body)
    elif op == 'upd':
        nodes = list(preorder(body))
        for idx, h in ed[2]:
            target = nodes[int(str(idx))]
            path = _path_to(body, target)
            if not path:
                continue
            parent, field = path[-1]
            new = () if not isinstance(h, list) else (resolve(world, body, h[1]),)
            kids = tuple(x for c in getattr(parent, field) for x in (new if c is target else (c,)))
            parent._update(**{field: kids})
            for anc, _ in path:
                # (only a still-valid source: `invalidate(children=True)` would downgrade an INVALID_NODE flag)
                if anc.source and anc.source.status == SourceStatus.VALID:
                    anc.source.invalidate(children=True)
        res = body
    else:
        raise ValueError(op)
    if op in ('tri', 'subi', 'upd', 'ntr'):
        _ckeys.clear()          # objects were changed in place: cached payload keys are stale
    return res


def run_edits(world, edits):
    body = world.body
    for ed in edits:
        body = apply_edit(world, body, ed)
    return body


def cons(body):
    return fgen(body, conservative=True)


# ---------------------------------------------------------------- requests

_worlds = {}


def world_for(src, unit):
    """a *fresh* parse for every use: `SubstituteExpressions` flags the Source objects of the tree it is given"""
    return World(src, unit)


_derived = {}


def derived(src, unit, edits):
    subs = [e for e in edits if str(e[0]) in ('sub', 'subi')]
    key = dumps([src, unit, [[s[1], s[2], s[3]] for s in subs]])
    if key not in _derived:
        if len(_derived) > 64:
            _derived.clear()
        _derived[key] = _derived_uncached(src, unit, edits)
    return _derived[key]


def _derived_uncached(src, unit, edits):
    """(TREE, RTAB, FRESH) for a request; the substituted variants are obtained from a separate parse"""
    try:
        w = world_for(src, unit)
        tree = w.export(w.body)
        fresh = [w.export(f) for f in w.fresh]
        subs = [e for e in edits if str(e[0]) in ('sub', 'subi')]
        if len(subs) > 1:
            raise Unsupported('more than one substitution')
        if subs and str(subs[0][1]).lower() == 'true' and any(isinstance(n, ScopedNode) for n in preorder(w.body)):
            # rebuild_scopes clones the Source before the children are visited; the in-place invalidation then hits the
            # original object only (Source aliasing, not modelled)
            raise Unsupported('substitution with rebuild_scopes on scoped nodes')
        if subs:
            w2 = world_for(src, unit)
            w2.export(w2.body)
            nb = apply_edit(w2, w2.body, [A('sub'), A('false'), subs[0][2], subs[0][3]])
            for n in preorder(nb):
                w2.lbl(n)
            for l, rd in w2.rtab.items():
                w.rtab.setdefault(l, rd)
        return tree, w.rtab_sexp(), fresh
    except Unsupported:
        return [A('unsupported')], [], []


def make_req(src, unit, edits):
    tree, rtab, fresh = derived(src, unit, edits)
    return [A('edit'), src, unit, edits, tree, rtab, fresh]


def split_req(req):
    if str(req[0]) != 'edit' or len(req) != 7:
        raise ValueError('bad request')
    src, unit, edits = req[1], req[2], req[3]
    if str(src[0]) not in ('text', 'file') or not isinstance(src[1], str) or not isinstance(unit, str):
        raise ValueError('bad request')
    return src, unit, edits, req[4], req[5], req[6]


EXC = {IndexError: 'indexerror', TypeError: 'typeerror', AttributeError: 'attributeerror', AssertionError: 'assertionerror'}


_real = {}


def run_real(req):
    key = dumps(req)
    if key not in _real:
        if len(_real) > 8:
            _real.clear()
        _real[key] = _run_real(req)
    return _real[key]


def _run_real(req):
    """-> ('error', tag) | ('error', tag, world, new_body) | ('ok', world, new_body, text)"""
    src, unit, edits, tree, rtab, fresh = split_req(req)
    d = derived(src, unit, edits)
    if dumps(d[0]) == '(unsupported)':
        return ('error', 'unsupported')
    if dumps([tree, rtab, fresh]) != dumps(list(d)):
        return ('error', 'tree-mismatch')
    w = world_for(src, unit)
    w.export(w.body)
    for row in rtab:
        w.rtab.setdefault(int(str(row[0])), row[1:])
    try:
        nb = run_edits(w, edits)
    except ValidationError:
        return ('error', 'validation')
    except Exception:       # pylint: disable=broad-except
        if oracle_only(edits):
            return ('error', 'edit-failed')     # e.g. NestedTransformer on a one-to-many value (C14's finding)
        raise
    try:
        out = cons(nb)
    except tuple(EXC) as e:
        return ('error', EXC[type(e)], w, nb)
    return ('ok', w, nb, out)


def oracle_only(edits):
    return any(str(e[0]) in ORACLE_ONLY_OPS for e in edits)


def impl_edit(req):
    if oracle_only(split_req(req)[2]):
        return [A('ok'), A('oracle-only')]      # modification paths outside the model: direct oracle only
    r = run_real(req)
    if r[0] == 'error':
        return [A('error'), A(r[1])]
    _, w, nb, out = r
    # the substituted variants must be the ones announced in RTAB
    return [A('ok'), w.statuses(nb), A('none') if out is None else out.split('\n')]


# ---------------------------------------------------------------- direct oracle helpers: Fortran text up to layout

_OLDOPS = {'.gt.': '>', '.lt.': '<', '.ge.': '>=', '.le.': '<=', '.eq.': '==', '.ne.': '/='}


def logical_lines(text):
    """free-form Fortran -> list of statements: comments removed, continuations joined, blanks removed and lower case outside
    character literals, old-style relational operators rewritten, `;` splits statements"""
    out, cur, cont = [], [], False
    for raw in text.split('\n'):
        if raw.lstrip().startswith('#'):
            out.append(''.join(raw.split()))
            continue
        buf, q, i = [], None, 0
        line = raw
        if cont:
            ls = line.lstrip()
            if ls.startswith('&'):
                line = ls[1:]
        stripped_any = False
        while i < len(line):
            c = line[i]
            if q:
                buf.append(c)
                if c == q:
                    q = None
            elif c in '\'"':
                q = c
                buf.append(c)
            elif c == '!':
                break
            elif c == ';':
                cur.append(''.join(buf))
                buf = []
                out.append(''.join(cur))
                cur = []
            elif c in ' \t':
                pass
            else:
                buf.append(c.lower())
            i += 1
        s = ''.join(buf)
        if not s and not cur and not cont:
            continue
        if not s and cont:
            continue            # comment or blank line inside a continued statement
        if s.endswith('&'):
            cur.append(s[:-1])
            cont = True
        else:
            cur.append(s)
            out.append(''.join(cur))
            cur, cont = [], False
    if cur:
        out.append(''.join(cur))
    res = []
    for s in out:
        if not s:
            continue
        for a, b in _OLDOPS.items():
            s = s.replace(a, b)
        s = re.sub(r'"([^"\']*)"', r"'\1'", s)      # the regular backend prints character literals with single quotes
        m = re.match(r'((?:[a-z_]\w*:)?do(?:\d+)?[a-z_]\w*=)(.*)$', s)
        if m:       # an explicit unit stride is dropped by the regular backend
            parts, depth, cur = [], 0, ''
            for ch in m.group(2):
                if ch == ',' and depth == 0:
                    parts.append(cur)
                    cur = ''
                else:
                    depth += ch == '('
                    depth -= ch == ')'
                    cur += ch
            parts.append(cur)
            if len(parts) == 3 and parts[2] == '1':
                s = m.group(1) + ','.join(parts[:2])
        m = re.fullmatch(r'((?:\d+)?call[a-z_][a-z0-9_%]*)', s)
        if m:
            s += '()'
        res.append(s)
    return res


def strip_construct_names(stmts):
    """`ELSE name`, `ELSE IF (..) THEN name`, `END IF name`: the name is optional on ELSE/ELSE IF and carries no meaning"""
    names = {m.group(1) for s in stmts for m in [re.match(r'(?:\d+)?([a-z_]\w*):if\(', s)] if m}
    out = []
    for s in stmts:
        for nm in names:
            if s.endswith(nm) and (s == 'else' + nm or s == 'endif' + nm or (s.startswith('elseif(') and s.endswith(')then' + nm))):
                s = s[:-len(nm)]
                break
        out.append(s)
    return out


def first_diff(a, b):
    a, b = strip_construct_names(a), strip_construct_names(b)
    for i, (x, y) in enumerate(zip(a, b)):
        if x != y:
            return f'statement {i}: {x!r} vs {y!r}'
    if len(a) != len(b):
        i = min(len(a), len(b))
        return f'statement {i}: {(a[i:i+1] or ["<end>"])[0]!r} vs {(b[i:i+1] or ["<end>"])[0]!r}'
    return None


def repo_fortran_files():
    out = []
    for p in sorted(REPO.rglob('*')):
        if p.suffix.lower() in ('.f90', '.f', '.f95', '.f03') and p.is_file():
            rel = p.relative_to(REPO)
            if rel.parts[0] in ('build', '.git') or 'egg-info' in str(rel):
                continue
            out.append(str(rel))
    return out


# ---------------------------------------------------------------- generator of routines (text)

class G:
    """random free-form Fortran routine bodies with varied layout; `spice` switches on the constructs behind the known classes"""

    SCAL = ['x', 'y', 'z']
    INTS = ['i', 'j', 'k']
    ARRS = ['a', 'b', 'c']

    def __init__(self, rng, spice):
        self.rng = rng
        self.spice = spice
        self.label = 10
        self.nloop = 0
        self.ncond = 0

    def p(self, q):
        return self.rng.random() < q

    def case(self, s):
        r = self.rng.random()
        return s.upper() if r < 0.2 else (s.capitalize() if r < 0.3 else s)

    def sp(self):
        return self.rng.choice(['', ' ', ' ', '  '])

    def ref(self, loopvars):
        r = self.rng.random()
        if r < 0.45:
            return self.rng.choice(self.SCAL)
        idx = self.rng.choice(loopvars) if loopvars and self.p(0.8) else str(self.rng.randint(1, 3))
        return f'{self.rng.choice(self.ARRS)}({self.sp()}{idx}{self.sp()})'

    def lit(self):
        return self.rng.choice(['1.0', '2.5', '0.', '3.0', '0.5'])

    def expr(self, loopvars, n=2):
        t = [self.ref(loopvars) if self.p(0.6) else self.lit() for _ in range(self.rng.randint(1, n))]
        out = t[0]
        for x in t[1:]:
            out += f'{self.sp()}{self.rng.choice("+-*")}{self.sp()}{x}'
        return out

    def cmp(self, loopvars):
        return f'{self.ref(loopvars)} {self.rng.choice([">", "<", ">=", "=="])} {self.lit()}'

    def assign(self, ind, loopvars):
        lhs = self.ref(loopvars)
        s1, s2 = self.sp(), self.sp()
        if self.p(0.12):
            return [f'{ind}{lhs}{s1}={s2}{self.expr(loopvars, 1)} {self.rng.choice("+*")} &', f'{ind}   & {self.expr(loopvars, 1)}']
        line = f'{ind}{lhs}{s1}={s2}{self.expr(loopvars)}'
        if self.p(0.12):
            line += '   ! note ' + str(self.rng.randint(0, 9))
        return [line]

    def call(self, ind, loopvars):
        args = [self.ref(loopvars) for _ in range(self.rng.randint(1, 3))]
        kw = self.case('call')
        name = self.rng.choice(['sub1', 'sub2', 'helper'])
        if self.p(0.15) and len(args) > 1:
            return [f'{ind}{kw} {name}({args[0]}, &', f'{ind}  & ' + ', '.join(args[1:]) + ')']
        return [f'{ind}{kw} {name}({self.sp()}' + ', '.join(args) + f'{self.sp()})']

    def simple(self, ind, loopvars):
        r = self.rng.random()
        if r < 0.55:
            return self.assign(ind, loopvars)
        if r < 0.7:
            return self.call(ind, loopvars)
        if r < 0.8:
            return [f'{ind}! comment {self.rng.randint(0, 99)}']
        if r < 0.87:
            return ['']
        if r < 0.94:
            return [f'{ind}{self.case("print")} *, {self.ref(loopvars)}']
        if self.spice and self.p(0.5):
            self.label += 10
            return [f'{self.label} ' + self.assign('', loopvars)[0].strip()] if self.p(0.5) else self.assign(ind, loopvars)
        return self.assign(ind, loopvars)

    def block(self, ind, loopvars, budget, depth):
        out = []
        n = self.rng.randint(1, max(1, min(4, budget)))
        for _ in range(n):
            out += self.stmt(ind, loopvars, max(1, budget // n), depth)
        return out

    def stmt(self, ind, loopvars, budget, depth):
        if depth >= 3 or budget <= 1 or self.p(0.45):
            return self.simple(ind, loopvars)
        r = self.rng.random()
        step = self.rng.choice(['  ', '  ', '   ', '    '])
        if r < 0.4:
            free = [v for v in self.INTS if v not in loopvars]
            if not free:
                return self.simple(ind, loopvars)
            v = free[0]
            body = self.block(ind + step, loopvars + [v], budget - 1, depth + 1)
            do = self.case('do')
            end = self.rng.choice(['end do', 'enddo', 'END DO', 'End Do'])
            hdr = f'{ind}{do} {v}{self.sp()}={self.sp()}1,{self.sp()}n'
            if self.spice and self.p(0.15):
                return [f'{ind}{do} {v} = 1, &', f'{ind}    & n'] + body + [f'{ind}{end}']
            if self.spice and self.p(0.12):
                self.label += 10
                return [f'{ind}{do} {self.label} {v} = 1, n'] + body + [f'{self.label} continue']
            if self.p(0.1):
                self.nloop += 1
                nm = f'lp{self.nloop}'
                return [f'{ind}{nm}: ' + hdr.strip()] + body + [f'{ind}{end} {nm}']
            return [hdr] + body + [f'{ind}{end}']
        if r < 0.8:
            kw = self.case('if')
            then = self.case('then')
            endif = self.rng.choice(['end if', 'endif', 'END IF'])
            if self.spice and self.p(0.15):
                return [f'{ind}{kw} ({self.cmp(loopvars)}) {self.ref(loopvars)} = {self.expr(loopvars)}']
            body = self.block(ind + step, loopvars, budget - 1, depth + 1)
            # a named construct: the name is required on END IF, optional on ELSE IF and ELSE
            nm = ''
            if self.p(0.2):
                self.ncond += 1
                nm = f'chk{self.ncond}'
            tag = lambda q: (' ' + self.case(nm)) if nm and self.p(q) else ''
            pre = f'{nm}: ' if nm else ''
            if self.spice and self.p(0.12):
                hdr = [f'{ind}{pre}{kw} ({self.cmp(loopvars)} .and. &', f'{ind}   & {self.cmp(loopvars)}) {then}']
            else:
                hdr = [f'{ind}{pre}{kw} ({self.cmp(loopvars)}) {then}']
            out = hdr + body
            n_ei = 0
            if self.p(0.3 if self.spice else 0.12):
                n_ei = 1 if self.p(0.6) else 2
            for _ in range(n_ei):
                out += [f'{ind}{self.case("else if")} ({self.cmp(loopvars)}) {then}{tag(0.5)}']
                out += self.block(ind + step, loopvars, budget - 1, depth + 1)
            if self.p(0.45):
                el = self.case('else') + tag(0.75)
                if self.spice and self.p(0.1):
                    el += '  ! otherwise'
                out += [f'{ind}{el}']
                if n_ei == 0 and self.p(0.4):
                    # lines that *start* with ELSE inside the else branch: a nested IF / ELSE IF (written with a blank)
                    out += self.nested_elseif(ind + step, loopvars)
                out += self.block(ind + step, loopvars, budget - 1, depth + 1)
            if nm:
                endif += ' ' + self.case(nm)
            if self.spice and self.p(0.1):
                endif += '  ! done'
            return out + [f'{ind}{endif}']
        if r < 0.9:
            body = self.block(ind + step, loopvars, budget - 1, depth + 1)
            return [f'{ind}do while ({self.rng.choice(self.SCAL)} < {self.lit()})'] + body + [f'{ind}end do']
        body = self.block(ind + step, loopvars, budget - 1, depth + 1)
        return [f'{ind}associate (q => {self.rng.choice(self.ARRS)}(1))'] + body + [f'{ind}end associate']

    def nested_elseif(self, ind, loopvars):
        step = '  '
        kw, then = self.case('if'), self.case('then')
        nm = ''
        if self.p(0.35):            # a nested *named* construct: its `ELSE name` line starts with ELSE too
            self.ncond += 1
            nm = f'nst{self.ncond}'
        tag = lambda q: (' ' + self.case(nm)) if nm and self.p(q) else ''
        out = [f'{ind}{nm + ": " if nm else ""}{kw} ({self.cmp(loopvars)}) {then}'] + self.assign(ind + step, loopvars)
        for _ in range(self.rng.randint(1, 2)):
            out += [f'{ind}{self.case("else if")} ({self.cmp(loopvars)}) {then}{tag(0.5)}'] + self.assign(ind + step, loopvars)
        if self.p(0.5 if nm else 0.4):
            out += [f'{ind}{self.case("else")}{tag(0.85)}'] + self.assign(ind + step, loopvars)
        return out + [f'{ind}{self.rng.choice(["end if", "endif", "END IF"])}{" " + self.case(nm) if nm else ""}']

    def else_nest_body(self, ind):
        """a block IF with a plain ELSE whose else branch holds lines that *start* with ELSE (nested ELSE IF, possibly inside a loop)"""
        step = '  '
        kw, then = self.case('if'), self.case('then')
        out = self.simple(ind, [])
        out += [f'{ind}{kw} ({self.cmp([])}) {then}'] + self.block(ind + step, [], 2, 2)
        out += [f'{ind}{self.case("else")}']
        if self.p(0.5):
            out += self.simple(ind + step, [])
        if self.p(0.35):
            out += [f'{ind}{step}do i = 1, n'] + self.nested_elseif(ind + step + step, ['i']) + [f'{ind}{step}end do']
        else:
            out += self.nested_elseif(ind + step, [])
        if self.p(0.5):
            out += self.simple(ind + step, [])
        out += [f'{ind}{self.rng.choice(["end if", "endif", "END IF"])}']
        return out + self.simple(ind, [])

    def routine(self, size, body=None):
        ind = self.rng.choice(['  ', '  ', '', '    '])
        body = body(ind) if body else self.block(ind, [], size, 0)
        while len(body) < 2:
            body += self.simple(ind, [])
        head = ['subroutine gen(n, a, b, c, x, y, z)', f'{ind}integer, intent(in) :: n',
                f'{ind}real, intent(inout) :: a(n), b(n), c(n), x, y, z', f'{ind}integer :: i, j, k, iw', f'{ind}real :: w']
        return '\n'.join(head + body + ['end subroutine gen']) + '\n'


# ---------------------------------------------------------------- sexp-level tree helpers (requests and exports)

def t_kind(n): return str(n[0])
def t_lbl(n): return int(str(n[1]))
def t_inline(n): return str(n[2][0]).lower() == 'true'
def t_elseif(n): return str(n[2][1]).lower() == 'true'
def t_label(n): return None if not isinstance(n[2][2], str) or isinstance(n[2][2], A) else n[2][2]
def t_status(n): return str(n[3])
def t_l0(n): return int(str(n[4]))
def t_l1(n): return int(str(n[5]))
def t_text(n): return list(n[6])
def t_body(n): return n[7]
def t_els(n): return n[8]


def t_pre(n):
    yield n
    for c in list(t_body(n)) + list(t_els(n)):
        yield from t_pre(c)


VERB = ('assign', 'call', 'comment', 'decl', 'imprt', 'loop', 'cond', 'section')


def strip_comment(line):
    q = None
    for i, c in enumerate(line):
        if q:
            if c == q:
                q = None
        elif c in '\'"':
            q = c
        elif c == '!':
            return line[:i]
    return line


def visited(n):
    """nodes the conservative visitor reaches (not below a verbatim node that is still valid), with their parent"""
    def rec(n, parent):
        yield n, parent
        if t_kind(n) in VERB and t_status(n) == 'valid':
            return
        for c in list(t_body(n)) + list(t_els(n)):
            yield from rec(c, n)
    yield from rec(n, None)


def reassembled(n):
    return t_kind(n) in ('loop', 'cond') and t_status(n) == 'ichildren' and not t_inline(n)


def classify(tree):
    """known-finding classes present in a (result) tree: decidable predicates on the exported data"""
    out = set()
    for n, parent in visited(tree):
        k = t_kind(n)
        if reassembled(n):
            first = strip_comment(t_text(n)[0]).rstrip() if t_text(n) else ''
            if first.endswith('&'):
                out.add('multiline-header-truncated')
        if parent is not None and k == 'comment' and t_status(n) == 'valid':
            sib = list(t_body(parent)) + list(t_els(parent))
            i = [j for j, c in enumerate(sib) if c is n][0]
            if i > 0 and t_status(sib[i - 1]) != 'none' and t_l1(sib[i - 1]) == t_l0(n):
                out.add('inline-comment-repeated')
            if t_kind(parent) == 'cond' and t_els(parent) and t_els(parent)[0] is n and t_status(parent) != 'none':
                # the comment behind `ELSE`: its source line is the ELSE line recovered by the parent
                if any(l.upper().split('!')[0].strip() == 'ELSE' and '!' in l for l in t_text(parent)):
                    out.add('inline-comment-repeated')
    return out


# ---------------------------------------------------------------- edit generator

def gen_edits(rng, tree, allow_sub=True):
    """a random sequence of local edits on the exported tree (indices refer to the tree current at that step; the generator
    tracks only the size conservatively: after the first transformer edit later edits use indices valid in *any* outcome)"""
    nodes = list(t_pre(tree))
    n = len(nodes)
    edits = []
    # nodes that must not be keys: the root, the else-if branch of a conditional, the body of an inline conditional
    forbidden = {0}
    for i, nd in enumerate(nodes):
        if t_kind(nd) == 'cond' and t_elseif(nd):
            for c in t_els(nd):
                forbidden.add([j for j, x in enumerate(nodes) if x is c][0])
        if t_kind(nd) == 'cond' and t_inline(nd):
            for c in t_body(nd):
                forbidden.add([j for j, x in enumerate(nodes) if x is c][0])
    cand = [i for i in range(n) if i not in forbidden]
    if not cand:
        return [[A('tr'), rng.random() < 0.3, []]]

    def subtree_idx(i):
        return set(range(i, i + len(list(t_pre(nodes[i])))))

    nf = 8
    # how the modification is performed: rebuilding Transformer, inplace=True, NestedTransformer, direct _update + invalidate
    mode = rng.choice(['tr'] * 11 + ['tri'] * 5 + ['ntr'] * 2 + ['upd'] * 2)
    is_leaf = lambda i: not t_body(nodes[i]) and not t_els(nodes[i])
    k = rng.choice([1, 1, 1, 2, 2, 3])
    keys = rng.sample(cand, min(k, len(cand)))
    pairs = []
    keyset = set()
    for kx in keys:
        keyset |= subtree_idx(kx)
    for kx in keys:
        r = rng.random()
        free = [i for i in cand if i not in keyset and not (subtree_idx(i) & keyset) and not (subtree_idx(i) & subtree_idx(kx))]
        if mode != 'tr':
            # objects are changed in place: a moved inner node would share its (re-flagged) children with its old position
            free = [i for i in free if is_leaf(i)]
        if mode == 'upd' and r >= 0.65:
            r = rng.random() * 0.65         # no one-to-many values on this path
        if mode == 'ntr':
            # NestedTransformer builds the replacement from the key (C14: nested-replacement-built-from-key): with an existing
            # node as value the result carries that node's VALID source and the key's expressions; only removals and fresh
            # (source-less) values are generated until that class is listed for C03
            r = rng.random() * 0.45
        if r < 0.25:
            h = A('none')
        elif r < 0.45:
            h = [A('node'), [A('fresh'), rng.randrange(nf)]]
        elif r < 0.65 and free:
            h = [A('node'), [A('ref'), rng.choice(free)]]
        elif r < 0.75 and len(keys) > 1 and (mode == 'tr' or all(is_leaf(x) for x in keys)):
            other = rng.choice([x for x in keys if x != kx])
            h = [A('node'), [A('ref'), other]]          # swap / duplicate with another key
        else:
            items = []
            for _ in range(rng.randint(1, 3)):
                q = rng.random()
                if q < 0.45:
                    items.append([A('fresh'), rng.randrange(nf)])
                elif q < 0.6 and free:
                    items.append([A('ref'), rng.choice(free)])
                elif not any(str(x[0]) == 'ref' and x[1] == kx for x in items):
                    # the key itself, at most once: a ScopedNode is updated in place, visiting it twice is outside the model
                    items.append([A('ref'), kx])
                else:
                    items.append([A('fresh'), rng.randrange(nf)])
            h = [A('tuple')] + items
        pairs.append([kx, h])
    edits.append([A(mode), rng.random() < 0.3, pairs])
    r = rng.random()
    if allow_sub and r < 0.35:
        var = rng.choice(['x', 'y', 'z', 'i', 'a', 'b'])
        ed = [A('subi' if rng.random() < 0.35 else 'sub'), rng.random() < 0.3, var, var + '_r']
        if rng.random() < 0.5:
            edits.insert(0, ed)
        else:
            edits.append(ed)
    elif r < 0.5:
        edits.append([A('tri' if rng.random() < 0.3 else 'tr'), False, []])
    return edits


# ---------------------------------------------------------------- tables regenerated from the code

def _tables():
    import ast
    import inspect
    from loki.ir import transformer as tr_mod
    from loki.backend import fgencon as fc_mod
    st = FortranStyle()
    # which argument does `_rebuild` hand to `is_source_valid` inside the `any(...)` over the children?
    tree = ast.parse(inspect.getsource(tr_mod))
    tests = None
    for fn in ast.walk(tree):
        if isinstance(fn, ast.FunctionDef) and fn.name == '_rebuild':
            for call in ast.walk(fn):
                if isinstance(call, ast.Call) and getattr(call.func, 'id', None) == 'any':
                    for c2 in ast.walk(call):
                        if isinstance(c2, ast.Call) and getattr(c2.func, 'id', None) == 'is_source_valid':
                            arg = c2.args[0]
                            if isinstance(arg, ast.Name):
                                tests = False
                            elif isinstance(arg, ast.Attribute) and arg.attr == 'source':
                                tests = True
    if tests is None:
        raise RuntimeError('Transformer._rebuild: cannot find the child test')
    handlers, branches = [], []
    ftree = ast.parse(inspect.getsource(fc_mod))
    for cls in ast.walk(ftree):
        if isinstance(cls, ast.ClassDef) and cls.name == 'FortranCodegenConservative':
            for fn in cls.body:
                if isinstance(fn, ast.FunctionDef) and fn.name.startswith('visit_'):
                    handlers.append(fn.name)
                    seen = []
                    for a in ast.walk(fn):
                        if isinstance(a, ast.Attribute) and isinstance(a.value, ast.Name) and a.value.id == 'SourceStatus':
                            if a.attr not in seen:
                                seen.append(a.attr)
                    branches += [(fn.name, s) for s in seen]
    q = lambda s: '"' + s + '"'
    body = '/-! generated by harness/props/c03.py from /repo — do not edit -/\nnamespace LokiModel.C03\n'
    body += f'def loopIndent : Nat := {st.loop_indent}\n'
    body += f'def conditionalIndent : Nat := {st.conditional_indent}\n'
    body += f'def rebuildTestsChildSource : Bool := {"true" if tests else "false"}\n'
    body += 'def conservativeHandlers : List String := [' + ', '.join(q(h) for h in sorted(handlers)) + ']\n'
    body += 'end LokiModel.C03\n'
    return {'LokiModel/Generated/C03Tables.lean': body}


# ---------------------------------------------------------------- the property

PRIORITY = ['multiline-header-truncated', 'inline-comment-repeated']
SEMANTIC = PRIORITY[:-1]
CPPMACRO = re.compile(r'__(LINE|FILE|DATE|TIME|VERSION__)')


def pick(classes, allowed):
    for c in PRIORITY:
        if c in classes and c in allowed:
            return c
    return None


def identity_only(edits):
    return all(str(e[0]) in ('tr', 'tri') and len(e[2]) == 0 for e in edits)


class C03(Prop):
    id = 'C03'
    title = 'Conservative output reproduces unmodified source verbatim'
    model_modules = ['LokiModel.C03.Model']
    props_module = 'LokiModel.Props.C03'
    findings_module = 'LokiModel.Findings.C03'
    driver = 'Drivers/C03.lean'
    theorems = ['C03_verbatim', 'C03_tiles_any_invalidation', 'C03_valid_implies_untouched_partial',
                'C03_edited_output', 'C03_untouched_region_verbatim', 'C03_tables_agree']
    design_ref = 'DESIGN.md 4.x C03'
    level = 'proof'
    level_text = ('Proved for all trees, mappers, render tables, depths: C03_verbatim / C03_tiles_any_invalidation (a tree that '
                  'tiles prints its text whatever pattern of VALID/INVALID_CHILDREN flags its nodes carry), '
                  'C03_valid_implies_untouched_partial (after any Transformer mapping or expression substitution a node of a '
                  'source-consulting kind that is still VALID is a subtree of the input or of a mapper value; ScopedNodes without '
                  'rebuild_scopes excluded), C03_edited_output / C03_untouched_region_verbatim (the output after an edit is the '
                  'original text of every key-free tiling region with the replaced nodes re-rendered in between). '
                  'Whether real trees tile is checked, not assumed: direct oracle on generated routines and every repo file.')
    level_note = ('The regular backend (fgen) is an abstract per-node render table; the frontend is trusted to deliver the tree and '
                  'the Source objects; Subroutine/Module header recovery, the `::` split of declarations, NestedTransformer, inplace '
                  'transformers and multi-body nodes (SELECT CASE, WHERE) are outside the model (oracle only).')
    technique = 'Lean 4 theorems about a hand-written model + correspondence with the real code'
    rule = ('generated routines (varied layout; half with the constructs behind the known classes) and every routine of every '
            'Fortran file under the repo that the FP frontend accepts, each with random edit sequences (Transformer mappings: '
            'drop / fresh / moved / spliced; SubstituteExpressions rename; identity); a case is non-trivial when at least one '
            'node is re-flagged; distinct = distinct request lines')
    trusted_base = ['fparser/FP frontend (tree and Source spans)', 'harness/props/c03.py exporter and Fortran statement canonicaliser']
    assumptions = ['text is compared as lists of lines; sources with exotic line separators or a trailing newline in a loop/if '
                   'source string are rejected as unsupported',
                   'lines stay below the wrap width, so indentation shifts a fallback line without re-wrapping it']
    extra_obligations = ['whole-file-verbatim', 'unit-verbatim', 'tiles-checked', 'edited-output-vs-fgen', 'valid-flag-vs-text']

    def tables(self):
        return _tables()

    def classes(self):
        return PRIORITY + ['scoped-node-source-stale', 'section-source-stripped', 'nested-replacement-keeps-source']

    # ------------------------------------------------------------ generation
    def gen(self, rng, tier):
        n_gen = {'quick': 12, 'thorough': 90, 'search': 40}[tier]
        n_files = {'quick': 3, 'thorough': 10 ** 6, 'search': 40}[tier]
        n_nest = {'quick': 3, 'thorough': 40, 'search': 20}[tier]
        for c in range(n_gen + n_nest):
            spice = c % 2 == 1 and c < n_gen
            g = G(rng, spice)
            text = g.routine(rng.randint(3, 16), body=g.else_nest_body if c >= n_gen else None)
            src = [A('text'), text]
            try:
                w = World(src, 'gen')
            except Unsupported:
                continue
            except Exception:
                continue        # the frontend rejects the text: not an input
            tree = w.export(w.body)
            for _ in range(2):
                edits = gen_edits(rng, tree) if rng.random() < 0.9 else []
                yield Case(make_req(src, 'gen', edits), stream='gen-else-nest' if c >= n_gen else ('gen-spicy' if spice else 'gen-plain'),
                           nontrivial=bool(edits))
        files = repo_fortran_files()
        rng.shuffle(files)
        for f in files[:n_files]:
            try:
                sf = parse(_read(f))
                names = [r.name for r in all_routines(sf)]
            except Exception:
                continue
            for name in names:
                src = [A('file'), f]
                yield Case(make_req(src, name, [[A('tr'), False, []]]), stream='repo-identity', nontrivial=True)
                try:
                    w = World(src, name)
                    tree = w.export(w.body)
                except Exception:
                    continue
                if len(list(t_pre(tree))) > 1:
                    yield Case(make_req(src, name, gen_edits(rng, tree, allow_sub=False)), stream='repo-edit', nontrivial=True)

    def shrink_candidates(self, req):
        src, unit, edits, *_ = split_req(req)
        for i in range(len(edits)):
            yield make_req(src, unit, edits[:i] + edits[i + 1:])
        for i, e in enumerate(edits):
            if str(e[0]) in ('tr', 'tri', 'ntr', 'upd'):
                for j in range(len(e[2])):
                    yield make_req(src, unit, edits[:i] + [[e[0], e[1], e[2][:j] + e[2][j + 1:]]] + edits[i + 1:])

    # ------------------------------------------------------------ real code
    def impl(self, req):
        return impl_edit(req)

    # ------------------------------------------------------------ direct oracle
    def oracle(self, req):
        src, unit, edits, tree, rtab, fresh = split_req(req)
        text = src_text(src)
        fails = []
        # (a) unmodified: whole file and every program unit
        sf = parse(text)
        out = sf.to_fortran(conservative=True)
        if out.strip('\n') != text.strip('\n'):
            fails.append(Failure('unmodified file: conservative output differs from the original text: '
                                 + str(first_diff(out.split('\n'), text.split('\n'))), None))
        flines = text.split('\n')
        for r in all_routines(sf):
            s = r.source
            if s and s.string is not None:
                if r.to_fortran(conservative=True) != s.string:
                    fails.append(Failure(f'unmodified unit {r.name}: conservative output differs from its source string', None))
                if '\n'.join(flines[s.lines[0] - 1:s.lines[1]]).strip() != s.string.strip():
                    fails.append(Failure(f'unit {r.name}: source string is not lines {s.lines} of the file', None))
        res = run_real(req)
        if res[0] == 'error' and len(res) == 2:
            return fails
        w, nb = res[-2], res[-1] if res[0] == 'error' else res[2]
        if res[0] == 'ok':
            w, nb, out = res[1], res[2], res[3]
        try:
            rtree = w.export(nb)
            classes = classify(rtree)
        except Unsupported:
            if not oracle_only(edits):
                raise
            rtree, classes = None, set()        # NestedTransformer builds nodes the payload table does not know
        nested_ref = any(str(e[0]) == 'ntr' and any(isinstance(h, list) and str(h[0]) == 'node' and str(h[1][0]) == 'ref'
                                                    for _, h in e[2]) for e in edits)
        if res[0] == 'error':
            fails.append(Failure(f'the conservative backend raises {res[1]} on the edited tree', pick(classes, SEMANTIC)))
            return fails
        # (b) the conservative output and the regular output describe the same program
        if not CPPMACRO.search(text):
            d = first_diff(logical_lines(out or ''), logical_lines(fgen(nb) or ''))
            if d:
                fails.append(Failure('after the edit the conservative output is not the program the regular backend prints: ' + d,
                                     'nested-replacement-keeps-source' if nested_ref else pick(classes, SEMANTIC)))
        # a node still flagged VALID carries the text of its current subtree
        if not CPPMACRO.search(text):
            for n in preorder(nb):
                k = kind_of(n)
                if status_of(n) != 'valid' or k in ('comment', 'lother', 'section'):
                    continue
                st = n.source.string
                if st.lstrip().lower().startswith('else'):
                    continue
                ref = logical_lines(fgen(n) or '')
                if getattr(n, 'label', None) and ref:
                    ref[0] = str(n.label) + ref[0]          # the label is printed by visit_tuple, not by the node's handler
                if first_diff(logical_lines(st), ref):
                    cls = None
                    if k == 'scoped':
                        cls = 'scoped-node-source-stale'
                    elif nested_ref:
                        cls = 'nested-replacement-keeps-source'
                    fails.append(Failure(f'{type(n).__name__} at lines {n.source.lines} is flagged VALID but its text is not its '
                                         'subtree: ' + str(first_diff(logical_lines(st), ref)), cls))
                    break
        # Tiles, checked: re-flagging alone (identity transformer) must not change a single character where every node is
        # printed from its source
        if identity_only(edits) and edits and get_unit(sf, unit).body.body and rtree is not None:
            # (an inline IF is not re-assembled from its source: once re-flagged it is printed by the regular handler)
            plain = all((t_kind(n) in VERB and not t_inline(n)) or (t_kind(n) == 'lother' and self._lother_verbatim(n, w))
                        for n in t_pre(rtree))
            bl = w.body.source.lines
            orig = flines[bl[0] - 1:bl[1]]
            if plain and (out or '').split('\n') != orig:
                fails.append(Failure('identity transformer: conservative output differs from the original text: '
                                     + str(first_diff((out or '').split('\n'), orig)), pick(classes, PRIORITY)))
        # every Source string is the text of its line span
        pristine = get_unit(sf, unit).body
        inline_bodies = {id(c) for p in preorder(pristine) if isinstance(p, ir.Conditional) and p.inline for c in p.body}
        for n in preorder(pristine):
            sl, ss = n.source.lines, n.source.string
            if id(n) in inline_bodies:
                # the action statement of an inline IF: the part of the statement behind the condition
                if not '\n'.join(flines[sl[0] - 1:(sl[1] or sl[0])]).rstrip().endswith(ss.rstrip()):
                    fails.append(Failure(f'{type(n).__name__}: source string is not the tail of lines {sl} of the file', None))
                    break
                continue
            if isinstance(n, ir.Section) and not n.body and not ss:
                continue        # an empty body: the frontend records an empty string and the line after the unit
            if '\n'.join(flines[sl[0] - 1:(sl[1] or sl[0])]) != ss:
                stripped = isinstance(n, ir.Section) and '\n'.join(flines[sl[0] - 1:sl[1]]).rstrip() == ss.rstrip()
                fails.append(Failure(f'{type(n).__name__}: source string is not lines {sl} of the file',
                                     'section-source-stripped' if stripped else None))
                break
        return fails

    @staticmethod
    def _lother_verbatim(n, w):
        rd = w.rtab.get(t_lbl(n))
        return rd is not None and str(rd[2]) in ('True', 'true') and list(rd[0][0]) == t_text(n)


PROP = C03()
READY = True
