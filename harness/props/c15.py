"""C15 — node and expression finders return exactly the matching nodes.

Requests (RECIPE is read by the real-code side only, EXPORT by the Lean driver only; the real-code side rebuilds the
objects from RECIPE, re-exports them and refuses the request if the export differs from EXPORT):

  (findnodes type  <greedy> (ConcreteClass ...) EXPORT RECIPE (MatchClass ...))
  (findnodes scope <greedy> <match lbl>         EXPORT RECIPE <match uid | -1 = a node that is not in the tree>)
  (findscopes <greedy> <match uid> EXPORT RECIPE)
  (retrieve (ConcreteClass ...) EXPR-EXPORT EXPR-RECIPE Finder)
  (finder <unique> <with_ir_node> (ConcreteClass ...) EXPORT RECIPE Finder)

EXPORT: child = (e EXPR) | (node Kind uid lbl (child ...) (hidden-EXPR ...)) | (grp child ...) | (junk "repr")
RECIPE: (src "fortran" which) | (ir NODE-RECIPE) | (irs NODE-RECIPE ...)      (see build_node / build_expr)
"""
import collections
import dataclasses

from pymbolic import primitives as pmbl
from pymbolic.primitives import Expression

from loki import Subroutine, Scope, SymbolAttributes, BasicType
from loki.frontend import FP
from loki.ir import nodes as ir
from loki.ir import find as find_mod
from loki.ir import (FindNodes, FindScopes, FindVariables, FindInlineCalls, FindLiterals, FindTypedSymbols,
                     FindExpressions, FindLiteralLists)
from loki.expression import symbols as sym
from loki.expression import mappers as loki_mappers

from ..core import Prop, Case, Failure
from ..sexpr import A, dumps

FINDERS = {'FindVariables': FindVariables, 'FindInlineCalls': FindInlineCalls, 'FindLiterals': FindLiterals,
           'FindTypedSymbols': FindTypedSymbols, 'FindExpressions': FindExpressions, 'FindLiteralLists': FindLiteralLists}
ORACLE_FINDERS = ('FindVariables', 'FindInlineCalls', 'FindLiterals', 'FindLiteralLists')

# expression class -> constructor of the Lean type `E` (one per mapper method of LokiWalkMapper)
SHAPE = {
    'VariableSymbol': 'sym', 'DeferredTypeSymbol': 'sym', 'ProcedureSymbol': 'sym', 'DerivedTypeSymbol': 'sym',
    'Scalar': 'msym', 'Array': 'msym',
    'ArraySubscript': 'sub', 'StringSubscript': 'sub',
    'IntLiteral': 'klit', 'FloatLiteral': 'klit',
    'LogicLiteral': 'const', 'StringLiteral': 'const', 'IntrinsicLiteral': 'const', 'Variable': 'const',
    'InlineCall': 'call', 'Cast': 'cast',
    'Range': 'slice', 'RangeIndex': 'slice', 'LoopRange': 'slice',
    'Sum': 'nary', 'Product': 'nary', 'ParenthesisedAdd': 'nary', 'ParenthesisedMul': 'nary', 'StringConcat': 'nary',
    'LogicalAnd': 'nary', 'LogicalOr': 'nary',
    'Quotient': 'bin', 'ParenthesisedDiv': 'bin', 'Power': 'bin', 'ParenthesisedPow': 'bin', 'Comparison': 'bin',
    'LogicalNot': 'un', 'Reference': 'un', 'Dereference': 'un',
    'LiteralList': 'llist', 'InlineDo': 'ido',
}
# what the model's `walk` does per constructor = which mapper method the class must be dispatched to
WALKER = {
    'sym': ['LokiWalkMapper.map_variable_symbol'], 'msym': ['LokiWalkMapper.map_meta_symbol'],
    'sub': ['LokiWalkMapper.map_array_subscript'], 'klit': ['LokiWalkMapper.map_float_literal'],
    'const': ['WalkMapper.map_constant', 'WalkMapper.map_variable'], 'call': ['WalkMapper.map_call_with_kwargs'],
    'cast': ['LokiWalkMapper.map_cast'], 'slice': ['WalkMapper.map_slice'], 'nary': ['WalkMapper.map_sum'],
    'bin': ['WalkMapper.map_quotient', 'WalkMapper.map_power', 'WalkMapper.map_comparison'],
    'un': ['WalkMapper.map_bitwise_not', 'LokiWalkMapper.map_c_reference', 'LokiWalkMapper.map_c_dereference'],
    'llist': ['LokiWalkMapper.map_literal_list'], 'ido': ['LokiWalkMapper.map_inline_do'],
}


def expr_class(name):
    if name == 'Variable':
        return pmbl.Variable
    from loki.expression import operations, literals
    for m in (sym, operations, literals):
        if hasattr(m, name):
            return getattr(m, name)
    raise KeyError(name)


# ---------------------------------------------------------------- export of real objects

def ex(e):
    """real expression object -> wire form of the Lean type E (the object graph the walk sees)"""
    o = lambda x: A('none') if x is None else ex(x)
    if isinstance(e, str):
        return [A('pystr'), str(e)]
    if isinstance(e, (tuple, list)):
        return [A('tup')] + [ex(x) for x in e]
    if isinstance(e, (int, float)) and not isinstance(e, Expression):
        return [A('const'), A(type(e).__name__), str(e)]
    cn = type(e).__name__
    shape = SHAPE[cn]
    hd = [A(shape), A(cn), str(e)]
    if shape == 'sym':
        return hd + [str(e.name), o(e.parent)]
    if shape == 'msym':
        try:
            ini = e.type.initial if e.type is not None else None
        except Exception:  # pylint: disable=broad-except
            ini = None
        return hd + [str(e.name), ex(e._symbol), o(ini)]
    if shape == 'sub':
        return hd + [ex(e.aggregate), ex(e.index)]
    if shape == 'klit':
        return hd + [o(e.kind)]
    if shape == 'const':
        return hd
    if shape == 'call':
        kw = e.kw_parameters
        return hd + [ex(e.function), [ex(x) for x in e.parameters], [str(k) for k in kw], [ex(v) for v in kw.values()]]
    if shape == 'cast':
        return hd + [ex(e.function), [ex(x) for x in e.parameters], o(e.kind)]
    if shape == 'slice':
        return hd + [o(e.start), o(e.stop), o(e.step)]
    if shape == 'nary':
        return hd + [[ex(x) for x in e.children]]
    if shape == 'bin':
        if hasattr(e, 'numerator'):
            return hd + [ex(e.numerator), ex(e.denominator)]
        if hasattr(e, 'base'):
            return hd + [ex(e.base), ex(e.exponent)]
        return hd + [ex(e.left), ex(e.right)]
    if shape == 'un':
        return hd + [ex(e.child if hasattr(e, 'child') else e.expression)]
    if shape == 'llist':
        return hd + [[ex(x) for x in e.elements]]
    if shape == 'ido':
        return hd + [ex(e.values), ex(e.variable), ex(e.bounds)]
    raise TypeError(cn)


def all_expr_objects(e, out):
    """every object the exported expression graph contains (for evaluating the finder's query per class)"""
    if isinstance(e, (tuple, list)):
        out.append(e)
        for x in e:
            all_expr_objects(x, out)
        return
    if not isinstance(e, Expression):
        if not isinstance(e, str) and e is not None:
            out.append(e)
        return
    out.append(e)
    if isinstance(e, sym.MetaSymbol):
        all_expr_objects(e._symbol, out)
        try:
            if e.type is not None and e.type.initial is not None:
                all_expr_objects(e.type.initial, out)
        except Exception:  # pylint: disable=broad-except
            pass
        return
    if isinstance(e, sym.TypedSymbol):
        if e.parent is not None:
            all_expr_objects(e.parent, out)
        return
    if isinstance(e, pmbl.Subscript):
        all_expr_objects(e.aggregate, out)
        all_expr_objects(e.index, out)
        return
    if isinstance(e, pmbl.CallWithKwargs):
        all_expr_objects(e.function, out)
        all_expr_objects(e.parameters, out)
        all_expr_objects(tuple(e.kw_parameters.values()), out)
        return
    if isinstance(e, pmbl.Call):
        all_expr_objects(e.function, out)
    for a in e.__getinitargs__():
        if isinstance(a, (Expression, tuple, list)):
            all_expr_objects(a, out)


NONTRAV_SKIP = {'source', 'label', 'pragma', 'pragma_post', 'symbol_attrs', 'spec', 'text', 'name', 'comment', 'comments'}


def hidden_exprs(o):
    """expression-valued dataclass fields that are not in `_traversable`"""
    out = []

    def rec(v):
        if isinstance(v, Expression):
            out.append(v)
        elif isinstance(v, (tuple, list)):
            for x in v:
                rec(x)
    for f in dataclasses.fields(o):
        if f.name.startswith('_') or f.name in o._traversable or f.name in NONTRAV_SKIP:
            continue
        rec(getattr(o, f.name))
    return out


class Exporter:
    def __init__(self):
        self.uids = {}
        self.objs = []          # uid -> object
        self.reps = []          # lbl -> representative
        self.exprs = []         # every expression object handed to `ex`

    def uid(self, o):
        if id(o) not in self.uids:
            self.uids[id(o)] = len(self.objs)
            self.objs.append(o)
        return self.uids[id(o)]

    def lbl(self, o):
        for i, r in enumerate(self.reps):
            if r is o or r == o:
                return i
        self.reps.append(o)
        return len(self.reps) - 1

    def child(self, c):
        if isinstance(c, ir.Node):
            u, l = self.uid(c), self.lbl(c)
            hid = hidden_exprs(c)
            self.exprs += hid
            return [A('node'), A(type(c).__name__), u, l, [self.child(x) for x in c.children], [ex(h) for h in hid]]
        if isinstance(c, Expression):
            self.exprs.append(c)
            return [A('e'), ex(c)]
        if isinstance(c, (tuple, list)):
            return [A('grp')] + [self.child(x) for x in c]
        return [A('junk'), 'None' if c is None else f'{type(c).__name__}:{c}']


# ---------------------------------------------------------------- recipes -> real objects

_scope = Scope()
_int = SymbolAttributes(BasicType.INTEGER)


def build_expr(r):
    """expression recipe -> real expression (fresh objects)"""
    if isinstance(r, str) and not isinstance(r, A):
        return r                                   # a string element of a literal list
    k = str(r[0])
    b = build_expr
    opt = lambda x: None if str(x) == 'none' else b(x)
    if k == 'v':
        return sym.Scalar(name=str(r[1]), scope=_scope, type=_int)
    if k == 'vi':
        return sym.Scalar(name=str(r[1]), scope=None, type=SymbolAttributes(BasicType.INTEGER, initial=b(r[2])))
    if k == 'm':
        p = b(r[2])
        return sym.Scalar(name=f'{p.name}%{r[1]}', scope=_scope, type=_int, parent=p)
    if k == 'a':
        p = opt(r[3])
        name = str(r[1]) if p is None else f'{p.name}%{r[1]}'
        dims = tuple(b(x) for x in r[2])
        return sym.Array(name=name, scope=_scope, type=SymbolAttributes(BasicType.REAL, shape=(sym.IntLiteral(5),)),
                         dimensions=dims or None, parent=p)
    if k == 'd':
        return sym.DeferredTypeSymbol(name=str(r[1]), scope=_scope)
    if k == 'i':
        return sym.IntLiteral(int(str(r[1])), kind=opt(r[2]))
    if k == 'f':
        return sym.FloatLiteral(str(r[1]), kind=opt(r[2]))
    if k == 'l':
        return sym.LogicLiteral(str(r[1]) == 'true')
    if k == 's':
        return sym.StringLiteral(str(r[1]))
    if k == 'call':
        kw = {str(n): b(v) for n, v in r[3]}
        return sym.InlineCall(sym.ProcedureSymbol(str(r[1]), scope=_scope), tuple(b(x) for x in r[2]), kw)
    if k == 'cast':
        return sym.Cast(str(r[1]), b(r[2]), kind=opt(r[3]))
    if k == 'rng':
        return sym.RangeIndex((opt(r[1]), opt(r[2]), opt(r[3])))
    if k == 'lrng':
        return sym.LoopRange((b(r[1]), b(r[2])))
    if k == 'sum':
        return sym.Sum(tuple(b(x) for x in r[1]))
    if k == 'prod':
        return sym.Product(tuple(b(x) for x in r[1]))
    if k == 'neg':
        return sym.Product((-1, b(r[1])))
    if k == 'padd':
        from loki.expression.operations import ParenthesisedAdd
        return ParenthesisedAdd(tuple(b(x) for x in r[1]))
    if k == 'quot':
        return sym.Quotient(b(r[1]), b(r[2]))
    if k == 'pow':
        return sym.Power(b(r[1]), b(r[2]))
    if k == 'cmp':
        return sym.Comparison(b(r[2]), str(r[1]), b(r[3]))
    if k == 'and':
        return sym.LogicalAnd(tuple(b(x) for x in r[1]))
    if k == 'or':
        return sym.LogicalOr(tuple(b(x) for x in r[1]))
    if k == 'not':
        return sym.LogicalNot(b(r[1]))
    if k == 'll':
        return sym.LiteralList(tuple(b(x) for x in r[1]))
    if k == 'ido':
        return sym.InlineDo((b(r[1]),), b(r[2]), b(r[3]))
    raise ValueError(k)


def build_node(r):
    k = str(r[0])
    e = build_expr
    body = lambda xs: tuple(build_node(x) for x in xs)
    if k == 'assign':
        return ir.Assignment(lhs=e(r[1]), rhs=e(r[2]))
    if k == 'callstmt':
        return ir.CallStatement(name=sym.ProcedureSymbol(str(r[1]), scope=_scope), arguments=tuple(e(x) for x in r[2]),
                                kwarguments=tuple((str(n), e(v)) for n, v in r[3]))
    if k == 'comment':
        return ir.Comment(text=f'! {r[1]}')
    if k == 'loop':
        return ir.Loop(variable=e(r[1]), bounds=e(r[2]), body=body(r[3]))
    if k == 'while':
        return ir.WhileLoop(condition=e(r[1]), body=body(r[2]))
    if k == 'cond':
        return ir.Conditional(condition=e(r[1]), body=body(r[2]), else_body=body(r[3]))
    if k == 'mcond':
        return ir.MultiConditional(expr=e(r[1]), values=tuple(tuple(e(v) for v in vs) for vs in r[2]),
                                   bodies=tuple(body(bs) for bs in r[3]), else_body=body(r[4]))
    if k == 'sect':
        return ir.Section(body=body(r[1]))
    if k == 'assoc':
        return ir.Associate(associations=tuple((e(a), e(n)) for a, n in r[1]), body=body(r[2]))
    if k == 'typedef':
        return ir.TypeDef(name=str(r[1]), body=body(r[2]))
    if k == 'decl':
        return ir.VariableDeclaration(symbols=tuple(e(x) for x in r[1]))
    if k == 'print':
        return ir.PrintStmt(values=tuple(e(x) for x in r[1]))
    if k == 'alloc':
        return ir.Allocation(variables=tuple(e(x) for x in r[1]))
    if k == 'preg':
        return ir.PragmaRegion(body=body(r[2]), pragma=ir.Pragma(keyword='loki', content=str(r[1])),
                               pragma_post=ir.Pragma(keyword='loki', content=f'end {r[1]}'))
    raise ValueError(k)


_src_cache = {}


def realise(recipe):
    """RECIPE -> the real object `visit` is called on (a node or a tuple of nodes)"""
    k = str(recipe[0])
    if k == 'src':
        key = (str(recipe[1]), str(recipe[2]))
        if key not in _src_cache:
            r = Subroutine.from_source(key[0], frontend=FP)
            _src_cache[key] = (r, {'ir': r.ir, 'spec': r.spec, 'body': r.body, 'bodytuple': r.body.body}[key[1]])   # (keeps the scope alive)
        return _src_cache[key][1]
    if k == 'ir':
        return build_node(recipe[1])
    if k == 'irs':
        return tuple(build_node(x) for x in recipe[1:])
    if k == 'expr':
        return build_expr(recipe[1])
    raise ValueError(k)


def export_root(root):
    x = Exporter()
    return x.child(root), x


def query_names(finder, x, root_expr=None):
    """concrete classes (among the objects of this tree) that satisfy the finder's query"""
    objs = []
    for e in x.exprs if x is not None else [root_expr]:
        all_expr_objects(e, objs)
    q = FINDERS[finder].retriever.query
    yes = sorted({type(o).__name__ for o in objs if q(o)})
    no = {type(o).__name__ for o in objs if not q(o)}
    assert not set(yes) & no
    return yes


ALL_NODE_CLASSES = sorted((c for c in vars(ir).values() if isinstance(c, type) and issubclass(c, ir.Node)), key=lambda c: c.__name__)


def concrete_node_names(match_names):
    ms = tuple(getattr(ir, m) for m in match_names)
    return sorted(c.__name__ for c in ALL_NODE_CLASSES if issubclass(c, ms))


# ---------------------------------------------------------------- running the real finders

def node_ref(n):
    return None if False else (type(n).__name__, None)


def fmt_expr(e):
    if isinstance(e, Expression):
        return [A(type(e).__name__), str(e)]
    if isinstance(e, ir.Node):
        return ('rawnode', e)
    return [A('junk'), 'None' if e is None else f'{type(e).__name__}:{e}']


class Mismatch(Exception):
    pass


def setup(req):
    """rebuild the real objects for a request; returns (root object, exporter)"""
    op = str(req[0])
    export, recipe = (req[2], req[3]) if op == 'retrieve' else (req[4], req[5]) if op in ('findnodes', 'finder') else (req[3], req[4])
    root = realise(recipe)
    if op == 'retrieve':
        if dumps(ex(root)) != dumps(export):
            raise Mismatch('export')
        return root, None
    got, x = export_root(root)
    if dumps(got) != dumps(export):
        raise Mismatch('export')
    return root, x


def run_real(req):
    op = str(req[0])
    root, x = setup(req)
    ref = lambda n: [A(type(n).__name__), x.uid(n)]
    if op == 'findnodes':
        mode, greedy = str(req[1]), str(req[2]) == 'true'
        if mode == 'type':
            match_names = [str(m) for m in req[6]]
            if concrete_node_names(match_names) != [str(s) for s in req[3]]:
                raise Mismatch('names')
            match = tuple(getattr(ir, m) for m in match_names)
            match = match[0] if len(match) == 1 else match
        else:
            mu = int(str(req[6]))
            match = x.objs[mu] if mu >= 0 else ir.Comment(text='! not in the tree')
            if x.lbl(match) != int(str(req[3])):
                raise Mismatch('lbl')
        return [ref(n) for n in FindNodes(match, mode=mode, greedy=greedy).visit(root)]
    if op == 'findscopes':
        greedy, mu = str(req[1]) == 'true', int(str(req[2]))
        out = []
        for r in FindScopes(x.objs[mu], greedy=greedy).visit(root):
            out.append([A('chain')] + [ref(n) for n in r] if isinstance(r, list) else [A('bare'), ref(r)])
        return out
    if op == 'retrieve':
        finder = str(req[4])
        if query_names(finder, None, root) != [str(s) for s in req[1]]:
            raise Mismatch('names')
        return [fmt_expr(e) for e in FINDERS[finder].retriever.retrieve(root)]
    if op == 'finder':
        unique, pairing, finder = str(req[1]) == 'true', str(req[2]) == 'true', str(req[6])
        if query_names(finder, x) != [str(s) for s in req[3]]:
            raise Mismatch('names')
        try:
            res = FINDERS[finder](unique=unique, with_ir_node=pairing).visit(root)
        except AssertionError:
            return [A('error'), A('assertion')]

        def item(e):
            f = fmt_expr(e)
            return [A('rawnode'), x.uid(e)] if isinstance(f, tuple) else f
        out = [A('ok')]
        for r in res:
            if pairing and isinstance(r, tuple) and len(r) == 2 and not isinstance(r, Expression):
                owner, found = r
                if isinstance(owner, ir.Node):
                    out.append([A('pair'), x.uid(owner), [item(e) for e in found]])
                else:
                    raw = find_mod.flatten(owner)
                    out.append([A('tpair'), [item(e) for e in raw], [item(e) for e in found]])
            else:
                out.append(item(r))
        return out
    raise ValueError(op)


# ---------------------------------------------------------------- independent reference walks (direct oracle)

ATTACHED = {'source', 'label', 'pragma', 'pragma_post', 'symbol_attrs', 'spec'}   # meta data / attached pragmas / tables


def o_fields(n):
    for f in dataclasses.fields(n):
        if not f.name.startswith('_') and f.name not in ATTACHED:
            yield f.name, getattr(n, f.name)


def o_child_nodes(n):
    """nodes directly below n: every dataclass field, tuples flattened"""
    out = []

    def rec(v):
        if isinstance(v, ir.Node):
            out.append(v)
        elif isinstance(v, (tuple, list)):
            for y in v:
                rec(y)
    for _, v in o_fields(n):
        rec(v)
    return out


def o_preorder(o, prune=None):
    """pre-order; a derived-type definition is listed but not entered; `prune(n)` stops the descent"""
    if isinstance(o, (tuple, list)):
        return [y for c in o for y in o_preorder(c, prune)]
    if not isinstance(o, ir.Node):
        return []
    out = [o]
    if isinstance(o, ir.TypeDef) or (prune is not None and prune(o)):
        return out
    for c in o_child_nodes(o):
        out += o_preorder(c, prune)
    return out


def o_subexprs(e, out):
    """all sub-expressions through `__getinitargs__` (strings, types and scopes are not expressions)"""
    if isinstance(e, Expression):
        out.append(e)
        for a in e.__getinitargs__():
            o_subexprs(a, out)
        if isinstance(getattr(e, 'kw_parameters', None), dict):     # (InlineCall.__getinitargs__ lists only the keyword names)
            o_subexprs(e.kw_parameters, out)
    elif isinstance(e, (tuple, list)):
        for y in e:
            o_subexprs(y, out)
    elif isinstance(e, dict):
        for y in e.values():
            o_subexprs(y, out)


def o_node_exprs(n, only_traversable=False):
    """the expressions a node holds itself (not those of the nodes below it)"""
    out = []

    def rec(v):
        if isinstance(v, Expression):
            o_subexprs(v, out)
        elif isinstance(v, (tuple, list)):
            for y in v:
                rec(y)
    for name, v in o_fields(n):
        if only_traversable and name not in n._traversable:
            continue
        rec(v)
    if isinstance(n, ir.VariableDeclaration):
        for v in n.symbols:
            if v.type.initial is not None:
                o_subexprs(v.type.initial, out)
    return out


def doc_key(v):
    """the documented notion of "the same sub-expression" (ExpressionFinder.find_uniques docstring: name, parent name,
    dimensions), read case-insensitively as Fortran names are"""
    low = lambda t: str(t).lower().replace(' ', '')
    if isinstance(v, (sym.Scalar, sym.Array)):
        return (low(v.name), low(v.parent.name) if v.parent else None,
                tuple(low(d) for d in v.dimensions) if isinstance(v, sym.Array) else None)
    return (type(v).__name__, low(v))


def ckey(e):
    return (type(e).__name__, str(e))


# ---------------------------------------------------------------- generator

NAMES = ['a', 'b', 'i', 'n', 'A']


def g_expr(rng, d, leaf_only=False):
    r = rng.random()
    if d <= 0 or leaf_only or r < 0.3:
        c = rng.random()
        if c < 0.45:
            return [A('v'), rng.choice(NAMES)]
        if c < 0.6:
            return [A('i'), rng.choice([0, 0, 1, 2, 3]), A('none') if rng.random() < 0.7 else [A('d'), 'jpim']]   # 0 is falsy (IntLiteral.__bool__)
        if c < 0.7:
            return [A('f'), rng.choice(['1.0', '2.5']), A('none') if rng.random() < 0.5 else [A('v'), 'jprb']]
        if c < 0.78:
            return [A('d'), rng.choice(['x', 'y'])]
        if c < 0.84:
            return [A('l'), A('true' if rng.random() < 0.5 else 'false')]
        if c < 0.9:
            return [A('s'), rng.choice(['txt', 'a b'])]
        return [A('a'), rng.choice(['arr', 'b']), [], A('none')]
    sub = lambda: g_expr(rng, d - 1)
    subs = lambda lo=1, hi=3: [sub() for _ in range(rng.randint(lo, hi))]
    k = rng.choice(['a', 'a', 'a', 'm', 'am', 'call', 'call', 'cast', 'sum', 'prod', 'neg', 'padd', 'quot', 'pow', 'cmp',
                    'and', 'not', 'll', 'ido', 'rngarr'])
    if k == 'a':
        return [A('a'), rng.choice(['arr', 'b', 'a']), subs(1, 2), A('none')]
    if k == 'm':
        return [A('m'), rng.choice(['x', 'y']), [A('v'), rng.choice(['t', 'u'])]]
    if k == 'am':
        return [A('a'), rng.choice(['x', 'y']), subs(0, 2), rng.choice([[A('v'), 't'], [A('m'), 'q', [A('v'), 't']], [A('a'), 'ts', [sub()], A('none')]])]
    if k == 'call':
        return [A('call'), rng.choice(['f', 'g', 'max']), subs(0, 2), [[rng.choice(['k1', 'k2']) + str(j), sub()] for j in range(rng.choice([0, 0, 1, 2]))]]
    if k == 'cast':
        return [A('cast'), rng.choice(['real', 'int']), sub(), A('none') if rng.random() < 0.5 else [A('v'), 'jprb']]
    if k in ('sum', 'prod', 'padd', 'and'):
        return [A(k), subs(2, 3)]
    if k in ('neg', 'not'):
        return [A(k), sub()]
    if k in ('quot', 'pow'):
        return [A(k), sub(), sub()]
    if k == 'cmp':
        return [A('cmp'), rng.choice(['==', '<', '>=']), sub(), sub()]
    if k == 'll':
        return [A('ll'), [sub() for _ in range(rng.randint(1, 3))]]   # (a `str` element cannot even be printed by LokiStringifyMapper)
    if k == 'ido':
        return [A('ido'), sub(), [A('v'), 'j'], [A('lrng'), sub(), sub()]]
    return [A('a'), rng.choice(['arr', 'b']), [[A('rng'), *(A('none') if rng.random() < 0.4 else sub() for _ in range(3))]], A('none')]


def g_node(rng, d, opts):
    ed = opts['ed']
    e = lambda: g_expr(rng, ed)
    body = lambda lo=0, hi=3: [g_node(rng, d - 1, opts) for _ in range(rng.randint(lo, hi))]
    if d <= 0 or rng.random() < 0.3:
        k = rng.choice(['assign', 'assign', 'assign', 'callstmt', 'comment', 'alloc'] + opts['extra_leaf'])
        if k == 'assign':
            return [A('assign'), [A('a'), rng.choice(['arr', 'b']), [e()], A('none')] if rng.random() < 0.6 else [A('v'), rng.choice(NAMES)], e()]
        if k == 'callstmt':
            return [A('callstmt'), rng.choice(['sub1', 'sub2']), [e() for _ in range(rng.randint(0, 2))],
                    [[f'kw{j}', e()] for j in range(rng.choice([0, 0, 1]))]]
        if k == 'comment':
            return [A('comment'), rng.choice(['c0', 'c1'])]
        if k == 'alloc':
            return [A('alloc'), [[A('a'), 'arr', [e()], A('none')]]]
        if k == 'print':
            return [A('print'), [[A('s'), 'val'], e()]]
        if k == 'decl':
            return [A('decl'), [[A('v'), rng.choice(NAMES)] if rng.random() < 0.5 else
                                [A('vi'), rng.choice(['k', 'm']), e()] if rng.random() < 0.6 else
                                [A('a'), 'arr', [e()], A('none')] for _ in range(rng.randint(1, 2))]]
    k = rng.choice(['loop', 'loop', 'cond', 'cond', 'mcond', 'sect', 'assoc', 'while', 'preg'] + opts['extra_internal'])
    if k == 'loop':
        return [A('loop'), [A('v'), rng.choice(['i', 'j'])], [A('lrng'), g_expr(rng, 1), g_expr(rng, 1)], body()]
    if k == 'while':
        return [A('while'), e(), body()]
    if k == 'cond':
        return [A('cond'), e(), body(1), body(0, 2)]
    if k == 'mcond':
        nb = rng.randint(1, 2)
        return [A('mcond'), e(), [[g_expr(rng, 0) for _ in range(rng.randint(1, 2))] for _ in range(nb)], [body(1, 2) for _ in range(nb)], body(0, 1)]
    if k == 'sect':
        return [A('sect'), body()]
    if k == 'assoc':
        return [A('assoc'), [[e(), [A('v'), rng.choice(['p', 'q'])]]], body(1)]
    if k == 'preg':
        return [A('preg'), rng.choice(['r0', 'r1']), body()]
    if k == 'typedef':
        return [A('typedef'), rng.choice(['t0', 't1']), [[A('decl'), [[A('v'), rng.choice(NAMES)]]], [A('comment'), 'c0']]]
    raise ValueError(k)


def g_falsy_tree(rng):
    zero, zk, fal, tru = [A('i'), 0, A('none')], [A('i'), 0, [A('d'), 'jpim']], [A('l'), A('false')], [A('l'), A('true')]
    pool = [zero, zk, fal, tru, [A('i'), 7, A('none')], [A('sum'), [zero, [A('v'), 'n']]], [A('neg'), [A('i'), 1, A('none')]],
            [A('f'), '0.0', A('none')], [A('ll'), [zero, zk]], [A('cmp'), '==', zero, fal], [A('call'), 'f', [zero], [['k', fal]]]]
    pick = lambda: rng.choice(pool[:4]) if rng.random() < 0.6 else rng.choice(pool)
    decls = [[A('decl'), [[A('vi'), f'k{j}{i}', pick()] for i in range(rng.randint(1, 2))]] for j in range(rng.randint(1, 3))]
    decls.append([A('decl'), [[A('a'), 'w', [pick()], A('none')]]])
    body = [[A('loop'), [A('v'), 'i'], [A('lrng'), pick(), pick()],
             [[A('cond'), pick(), [[A('callstmt'), 'sub', [pick(), pick()], [['opt', pick()]]]], [[A('assign'), [A('a'), 'w', [pick()], A('none')], pick()]]]]],
            [A('while'), pick(), []],
            [A('mcond'), pick(), [[pick()]], [[[A('assign'), [A('v'), 'r'], pick()]]], []]]
    rng.shuffle(body)
    return [A('sect'), decls + body[:rng.randint(1, 3)]]


SOURCES = ["""
subroutine foo(n, a, b, t)
  use kinds, only: jprb
  implicit none
  integer, intent(in) :: n
  real(kind=jprb), intent(inout) :: a(n), b(n+1)
  type(my_t) :: t
  integer :: i, k = 3 + 2
  real :: arr(3) = (/ 1.0, 2.0, 3.0 /)
  do i = 1, n
    if (a(i) > 1.0_jprb) then
      a(i) = b(i+1) * t%x(i) + real(k, kind=jprb) + max(a(i), b(i), 1)
    else
      call bar(a(i), k, opt=t%y%z)
    end if
  end do
  arr = (/ (i, i=1,3) /)
end subroutine
""", """
subroutine bar(n, x)
  implicit none
  integer, intent(in) :: n
  real, intent(inout) :: x(n, n)
  type pt
    real :: p(3)
    integer :: cnt = 0
  end type pt
  integer :: i, J
  logical :: flag
  select case (n)
  case (1, 2)
    x(1, 1) = 0.
  case default
    x(:, 1) = x(:, n) ** 2 - (-x(1, :))
  end select
  do while (flag .and. .not. i > N)
    i = i + 1
    where (x(:, i) > 0.5)
      x(:, i) = sqrt(x(:, i))
    end where
  end do
  associate (y => x(1:n:2, j))
    y(1) = f(i, kw=j) / 2
  end associate
  !$loki region
  allocate(w(n))
  !$loki end region
  if (flag) x(i, j) = 1
end subroutine
""", """
subroutine baz(n, s)
  implicit none
  integer, intent(in) :: n
  character(len=*) :: s
  integer :: summed, i
  summed = 0
  do i = 1, n
    summed = summed + i
  end do
  print *, "the sum is", summed, n
  s = s(1:2) // 'ab'
end subroutine
""", """
subroutine zeros(n, res)
  use kinds_mod, only: jpim
  implicit none
  integer(kind=jpim), intent(in) :: n
  integer(kind=jpim), intent(out) :: res
  integer(kind=jpim) :: lim = 10_jpim
  integer(kind=jpim) :: cnt = 0_jpim
  integer :: plain = 0, other = 7, comp = 0 + n
  logical :: first = .true., done = .false.
  real :: z = 0.0, w(0:n)
  integer :: i
  do i = 0, n, 0 + 1
    if (.false.) res = 0
    call sub(0, .false., opt=0)
    w(0) = w(i) + 0
  end do
end subroutine
"""]


def mk_cases(rng, root_recipe, stream, quota):
    """all requests for one tree"""
    root = realise(root_recipe)
    export, x = export_root(root)
    nodes = list(x.objs)
    out = []
    present = sorted({type(n).__name__ for n in nodes})
    # FindNodes, type mode
    cands = [[c] for c in present] + [['InternalNode'], ['LeafNode'], ['Loop', 'Conditional'], ['Assignment', 'CallStatement'], ['Node'], ['TypeDef', 'VariableDeclaration']]
    for mn in rng.sample(cands, min(quota, len(cands))):
        for greedy in (False, True):
            names = concrete_node_names(mn)
            nt = any(type(n).__name__ in names for n in nodes)
            out.append(Case([A('findnodes'), A('type'), greedy, [A(s) for s in names], export, root_recipe, [A(m) for m in mn]],
                            stream=stream + '-nodes', nontrivial=nt))
    # scope mode / FindScopes
    for n in rng.sample(nodes, min(quota, len(nodes))):
        u = x.uid(n)
        greedy = rng.random() < 0.5
        out.append(Case([A('findnodes'), A('scope'), greedy, x.lbl(n), export, root_recipe, u], stream=stream + '-scope'))
        out.append(Case([A('findscopes'), rng.random() < 0.6, u, export, root_recipe], stream=stream + '-scopes'))
    if rng.random() < 0.3:
        out.append(Case([A('findnodes'), A('scope'), False, len(x.reps), export, root_recipe, -1], stream=stream + '-scope', nontrivial=False))
    # expression finders
    fs = list(FINDERS)
    for f in rng.sample(fs, min(quota, len(fs))):
        names = query_names(f, x)
        for unique in (False, True):
            for pairing in (False, True):
                out.append(Case([A('finder'), unique, pairing, [A(s) for s in names], export, root_recipe, A(f)],
                                stream=stream + '-' + ('u' if unique else 'p') + ('n' if pairing else ''), nontrivial=bool(names)))
    return out


class C15(Prop):
    id = 'C15'
    title = 'Node and expression finders return exactly the matching nodes'
    model_modules = ['LokiModel.C15.Model']
    props_module = 'LokiModel.Props.C15'
    findings_module = 'LokiModel.Findings.C15'
    driver = 'Drivers/C15.lean'
    model_modules = ['LokiModel.C15.Model']
    theorems = ['C15_findNodes_eq_filter_preorder', 'C15_findNodes_greedy_eq_pruned', 'C15_walk_complete',
                'C15_finder_plain_eq_spec', 'C15_finder_complete_partial', 'C15_finder_complete_full_false',
                'C15_unique_sound_partial', 'C15_unique_statement_eq_dedupe', 'C15_pairing_eq_spec',
                'C15_pairing_same_multiset', 'C15_pairing_declaration_regression', 'C15_findScopes_eq_paths',
                'C15_findScopes_last', 'C15_paths_spec', 'C15_tables_agree']
    design_ref = 'DESIGN.md 4.B C15'
    level = 'proof'
    level_text = ('Theorems (Lean kernel; all trees over arbitrary node kinds with arbitrarily nested child tuples, all expression '
                  'object graphs over the 15 mapper-method shapes, all match rules / queries, no size bound) about a hand-written '
                  'model of FindNodes, ExpressionRetriever/LokiWalkMapper and ExpressionFinder. FULL strength: '
                  'C15_findNodes_eq_filter_preorder (any rule, i.e. modes type and scope: result = pre-order filtered by the rule, '
                  'TypeDef bodies excluded), C15_findNodes_greedy_eq_pruned, C15_walk_complete (retrieve = post-order of all '
                  'expression-valued fields filtered by the query), C15_finder_plain_eq_spec (unique=False: the finds of all '
                  'traversable expressions in order, never raises). PARTIAL: the reading "every expression of the tree" is refuted '
                  '(C15_finder_complete_full_false: PrintStmt.values / FormatStmt.values / Enumeration.symbols are not traversable) '
                  'and proved outside that class (C15_finder_complete_partial). FULL (after the repair of visit_VariableDeclaration): '
                  'with_ir_node on every tree = exactly one pair per node with own finds (declarations: plus the finds in initial '
                  'values), children first (C15_pairing_eq_spec), same multiset as the plain result; FULL (after the repair of '
                  'FindScopes.visit_TypeDef): FindScopes = the ancestor chains of exactly the nodes identical to the match, in '
                  'pre-order (C15_findScopes_eq_paths, C15_paths_spec, C15_findScopes_last) '
                  '(C15_pairing_same_multiset); PARTIAL unique=True: for every tree no exception, only plain finds, pairwise not == '
                  '(C15_unique_sound_partial), and = one find_uniques of the plain result for statements '
                  '(C15_unique_statement_eq_dedupe). NOT proved, correspondence and direct oracle only: that on nested trees the '
                  'nested find_uniques equals one flat application (holds only for key-coherent finds).')
    level_note = ('Model is hand-written. Expression objects are exported as the object graph the walk sees (Scalar/Array around '
                  '_symbol, ArraySubscript with the index tuple, raw Python ints), node trees as `children` (the _traversable fields in '
                  'order, nested tuples kept) plus the non-traversable expression fields; str(e), class names and e.name are opaque '
                  'labels taken from the real objects; object identity = uid, dataclass == = label (equivalence classes computed '
                  'with the real ==). The threaded `ret` list of FindNodes is modelled by its denotation. == of result expressions is '
                  'modelled as (class, canonical string). Which mapper method a class is dispatched to and which node classes have '
                  'their own visit_ handler is a generated table checked by C15_tables_agree. The query of a finder is passed as '
                  'the set of concrete classes of the tree it accepts (evaluated with the real query lambda).')
    technique = 'Lean 4 theorems about a hand-written model of the finders + correspondence with the real code + independent reference walk'
    rule = ('3 Fortran routines through the real fparser frontend (ir / spec / body / body tuple) plus random programmatic trees over '
            '15 node classes (Section, Loop, WhileLoop, Conditional, MultiConditional, Associate, PragmaRegion, TypeDef, Assignment, '
            'CallStatement, Comment, Allocation, VariableDeclaration with initial values, PrintStmt) with random expressions over all '
            'walker shapes (derived-type members, array subscripts, ranges, kinds, casts, calls with keyword arguments, literal '
            'lists, inline-do, raw ints; names in mixed case, repeated sub-expressions); per tree: FindNodes in mode type (class, '
            'base class, tuple of classes) and mode scope, greedy on/off, FindScopes, six finders x unique x with_ir_node; bare '
            'expressions through ExpressionRetriever; non-trivial = the query / match selects something; distinct by request line')
    trusted_base = ['harness/props/c15.py: exporter (real objects -> wire trees), recipe builder, reference walks of the oracle',
                    'Lean driver evaluation of model definitions']
    assumptions = ['str() / class name / name of expression objects are opaque labels', 'no pragmas attached to nodes (attached pragmas live in non-traversable fields by design)',
                   '== of two found expressions = same class and same canonical string (literals that differ only in exponent-letter case, Range vs RangeIndex with equal text are outside)',
                   'default ExpressionRetriever (no recurse_query)', 'LiteralList has no str elements (they cannot be printed by LokiStringifyMapper)']
    extra_obligations = ['oracle: FindNodes/FindScopes vs independent pre-order over dataclass fields',
                         'oracle: finders vs independent walk over dataclass fields and __getinitargs__ (multisets), unique keys, pairing sums']

    def tables(self):
        q = lambda s: '"' + s + '"'
        walker = loki_mappers.LokiWalkMapper
        rows = []
        for cn in sorted(SHAPE):
            c = expr_class(cn)
            meth = getattr(walker, c.mapper_method)
            rows.append((cn, SHAPE[cn], meth.__qualname__))
        # node classes with a handler of their own in the finders (dispatch through the MRO, by class name)
        fn, ef = FindNodes(ir.Node), FindVariables()
        special = []
        for c in ALL_NODE_CLASSES:
            if not dataclasses.is_dataclass(c):
                continue
            try:
                inst = c.__new__(c)
            except Exception:  # pylint: disable=broad-except
                continue
            a, b = fn.lookup_method(inst).__name__, ef.lookup_method(inst).__name__
            if a != 'visit_Node' or b != 'visit_Node':
                special.append((c.__name__, a, b))
        hidden = []
        for c in ALL_NODE_CLASSES:
            if dataclasses.is_dataclass(c):
                hs = [f.name for f in dataclasses.fields(c) if not f.name.startswith('_') and f.name not in c._traversable
                      and f.name not in NONTRAV_SKIP and 'Expression' in str(f.type)]
                if hs:
                    hidden.append((c.__name__, hs))
        body = ['/- generated from /repo by harness/props/c15.py — do not edit -/', 'namespace LokiModel.C15.Generated', '',
                '/-- (expression class, constructor of `E` used by the exporter, mapper method `LokiWalkMapper` dispatches the class to) -/',
                'def walkerTable : List (String × String × String) := [',
                ',\n'.join(f'  ({q(a)}, {q(b)}, {q(c)})' for a, b, c in rows), ']', '',
                '/-- node classes not handled by `visit_Node`: (class, FindNodes handler, ExpressionFinder handler) -/',
                'def nodeHandlers : List (String × String × String) := [',
                ',\n'.join(f'  ({q(a)}, {q(b)}, {q(c)})' for a, b, c in special), ']', '',
                '/-- dataclass fields typed as expressions that are not in `_traversable` -/',
                'def hiddenExprFields : List (String × List String) := [',
                ',\n'.join(f'  ({q(a)}, [{", ".join(q(h) for h in hs)}])' for a, hs in hidden), ']', '',
                'end LokiModel.C15.Generated', '']
        return {'LokiModel/Generated/C15Tables.lean': '\n'.join(body)}

    def gen(self, rng, tier):
        ntrees = {'quick': 18, 'thorough': 300, 'search': 120}.get(tier, 30)
        quota = {'quick': 3}.get(tier, 4)
        seen = set()

        def emit(cases):
            for c in cases:
                if c.line not in seen:
                    seen.add(c.line)
                    yield c
        # frontend-generated routines
        for s in SOURCES:
            for which in ('ir', 'body', 'spec', 'bodytuple'):
                try:
                    cs = mk_cases(rng, [A('src'), s, A(which)], 'src', 6 if tier != 'quick' else 2)
                except Exception:  # pylint: disable=broad-except
                    break       # the frontend itself fails on this routine (it uses the finders): programmatic trees remain
                yield from emit(cs)
        # bare expressions through ExpressionRetriever
        for _ in range(ntrees * 2):
            r = g_expr(rng, rng.choice([1, 2, 3]))
            root = build_expr(r)
            for f in rng.sample(list(FINDERS), 2):
                names = query_names(f, None, root)
                yield from emit([Case([A('retrieve'), [A(s) for s in names], ex(root), [A('expr'), r], A(f)], stream='retrieve',
                                      nontrivial=bool(names))])
        # expression nodes that are falsy in Python (IntLiteral(0), 0 with a kind, .false.) in every expression-bearing field:
        # declaration initial values, dimensions, loop bounds, conditions, call arguments, keyword arguments
        for _ in range({'quick': 2}.get(tier, 40)):
            yield from emit(mk_cases(rng, [A('ir'), g_falsy_tree(rng)], 'falsy', 6))
        # programmatic trees
        for i in range(ntrees):
            opts = {'ed': rng.choice([1, 2]), 'extra_leaf': [], 'extra_internal': []}
            if i % 3 == 1:
                opts['extra_leaf'] = ['decl', 'print']
                opts['extra_internal'] = ['typedef']
            elif i % 3 == 2:
                opts['extra_internal'] = ['typedef']
            d = rng.choice([1, 2, 3])
            if rng.random() < 0.6:
                recipe = [A('ir'), g_node(rng, d, opts)]
            else:
                one = g_node(rng, d, opts)
                recipe = [A('irs')] + [one if rng.random() < 0.2 else g_node(rng, d, opts) for _ in range(rng.randint(1, 3))]
            yield from emit(mk_cases(rng, recipe, 'tree' + str(i % 3), quota))

    # ---- real code
    def impl(self, req):
        try:
            return run_real(req)
        except Mismatch as e:
            return [A('error'), A('request-inconsistent'), str(e)]

    # ---- direct oracle
    def oracle(self, req):
        op = str(req[0])
        root, x = setup(req)
        fails = []
        show = lambda ns: ' '.join(f'{type(n).__name__}#{x.uid(n)}' for n in ns)[:300]
        if op == 'findnodes':
            mode, greedy = str(req[1]), str(req[2]) == 'true'
            if mode == 'type':
                match = tuple(getattr(ir, str(m)) for m in req[6])
                hit = lambda n: isinstance(n, match)
            else:
                mu = int(str(req[6]))
                m = x.objs[mu] if mu >= 0 else ir.Comment(text='! not in the tree')
                match = m
                hit = lambda n: any(c == m for c in o_child_nodes(n))
            got = FindNodes(match, mode=mode, greedy=greedy).visit(root)
            want = [n for n in o_preorder(root, hit if greedy else None) if hit(n)]
            if [id(n) for n in got] != [id(n) for n in want]:
                fails.append(Failure(f'FindNodes(mode={mode}, greedy={greedy}) returned [{show(got)}], pre-order filter gives [{show(want)}]', None))
        elif op == 'findscopes':
            greedy, mu = str(req[1]) == 'true', int(str(req[2]))
            m = x.objs[mu]
            got = FindScopes(m, greedy=greedy).visit(root)
            want = []

            def rec(o, anc):
                if isinstance(o, (tuple, list)):
                    for c in o:
                        rec(c, anc)
                    return
                if not isinstance(o, ir.Node):
                    return
                if o is m:
                    want.append(anc + [o])
                    if greedy:
                        return
                if isinstance(o, ir.TypeDef):
                    return
                for c in o_child_nodes(o):
                    rec(c, anc + [o])
            rec(root, [])
            ok = len(got) == len(want) and all(isinstance(g, list) and [id(a) for a in g] == [id(b) for b in w] for g, w in zip(got, want))
            if not ok:
                cls = None
                fails.append(Failure(f'FindScopes returned {[show(g) if isinstance(g, list) else "NODE " + show([g]) for g in got]}, '
                                     f'ancestor chains are {[show(w) for w in want]}', cls))
        elif op == 'retrieve':
            finder = str(req[4])
            if finder in ORACLE_FINDERS:
                q = FINDERS[finder].retriever.query
                got = FINDERS[finder].retriever.retrieve(root)
                allsub = []
                o_subexprs(root, allsub)
                want = [e for e in allsub if q(e)]
                if collections.Counter(map(ckey, got)) != collections.Counter(map(ckey, want)):
                    fails.append(Failure(f'{finder}.retrieve found {sorted(map(ckey, got))}, all sub-expressions matching: {sorted(map(ckey, want))}', None))
        elif op == 'finder':
            unique, pairing, finder = str(req[1]) == 'true', str(req[2]) == 'true', str(req[6])
            if finder not in ORACLE_FINDERS:
                return []
            F = FINDERS[finder]
            q = F.retriever.query
            nodes = o_preorder(root)
            want = [e for n in nodes for e in o_node_exprs(n) if q(e)]
            travc = collections.Counter(map(ckey, (e for n in nodes for e in o_node_exprs(n, True) if q(e))))
            hidden_hit = travc != collections.Counter(map(ckey, want))
            try:
                got = F(unique=unique, with_ir_node=pairing).visit(root)
            except AssertionError:
                cls = None
                return [Failure(f'{finder}(unique={unique}, with_ir_node={pairing}) raised AssertionError', cls)]
            wantc = collections.Counter(map(ckey, want))
            if not pairing and not unique:
                gotc = collections.Counter(map(ckey, got))
                if gotc != wantc:
                    cls = 'expression-field-not-traversable' if (hidden_hit and not (gotc - wantc)) else None
                    fails.append(Failure(f'{finder}(unique=False): missing {dict(wantc - gotc)} extra {dict(gotc - wantc)}', cls))
            elif not pairing and unique:
                plain = F(unique=False).visit(root)
                gk, pk = [doc_key(v) for v in got], {doc_key(v) for v in plain}
                if len(set(gk)) != len(gk) or set(gk) != pk or not all(any(g is p for p in plain) for g in got):
                    fails.append(Failure(f'{finder}(unique=True) keys {sorted(map(str, gk))} vs keys of the plain result {sorted(map(str, pk))}', None))
                else:
                    # ... and against the independent reference (not only against the finder's own list mode)
                    rk = {doc_key(v) for v in want}
                    if set(gk) != rk:
                        cls = 'expression-field-not-traversable' if (hidden_hit and set(gk) <= rk) else None
                        fails.append(Failure(f'{finder}(unique=True): keys missing {sorted(map(str, rk - set(gk)))} extra {sorted(map(str, set(gk) - rk))} '
                                             'with respect to all expressions of the tree', cls))
            else:
                cls = None
                flat = []
                bad = None
                for r in got:
                    owner, found = r
                    if not isinstance(owner, ir.Node):
                        continue     # the root tuple as owner (root is a tuple holding expressions): not generated
                    own_e = [e for e in o_node_exprs(owner, True) if q(e)]
                    own = collections.Counter(map(ckey, own_e))
                    fl = list(found)
                    if any(not isinstance(e, Expression) for e in fl):
                        bad = f'pair of {show([owner])} contains non-expressions {[str(e) for e in fl]}'
                        break
                    fc = collections.Counter(map(ckey, fl))
                    if unique:
                        if {doc_key(v) for v in fl} != {doc_key(v) for v in own_e} or len({doc_key(v) for v in fl}) != len(fl):
                            bad = f'pair of {show([owner])}: {sorted(fc)} vs own expressions {sorted(own)}'
                            break
                    elif fc != own:
                        bad = f'pair of {show([owner])}: {dict(fc)} vs own expressions {dict(own)}'
                        break
                    flat += fl
                if bad is None and not unique:
                    travc = collections.Counter(map(ckey, (e for n in nodes for e in o_node_exprs(n, True) if q(e))))
                    if collections.Counter(map(ckey, flat)) != travc:
                        bad = 'pairs do not add up to the plain result'
                if bad:
                    fails.append(Failure(f'{finder}(unique={unique}, with_ir_node=True): {bad}', cls))
        return fails

    def classes(self):
        return ['expression-field-not-traversable']

    def shrink_candidates(self, req):
        return iter(())     # a request carries RECIPE and EXPORT in sync; generic S-expression deletion would desynchronise them


PROP = C15()
READY = True
