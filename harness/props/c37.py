"""C37 — single-column (SCC) pipelines preserve driver and kernel results.

Generator of IFS-style driver/kernel call trees (FIR wire form), application of the real SCC pipelines through the real
Scheduler, export of the transformed tree back to FIR, direct oracle (Python FIR interpreter every run, gfortran in the
thorough tier), correspondence of the Lean model of devector+demote+revector on *flat* kernels (`LokiModel.C37.Model`)
with the real SCCBase+SCCDevector+SCCDemote+SCCRevector chain.

The generator (`gen_tree`), the Scheduler runner (`apply_scheduler`) and the comparison helpers are also used by C38.
"""
import os
import random as _random
import shutil
import tempfile
from fractions import Fraction
from pathlib import Path

from ..core import Prop, Case, Failure, REPO
from ..sexpr import A, dumps, loads
from .. import fir
from ..fir import I, V, IDX, SEC, AT, RNG, BIN, NEG, CALL, ilit, rlit, NONE


def h(x):
    return str(x[0]) if isinstance(x, list) and x else None


# ---------------------------------------------------------------------------------------------------------------
# dimension configurations (names the SCC transformations are told about)

DIMCFGS = [
    dict(size='nlon', index='jl', lo='start', hi='end', nz='nz', jk='jk', nb='nb', b='b'),
    dict(size='klon', index='jl', lo='kidia', hi='kfdia', nz='klev', jk='jk', nb='ngpblks', b='ibl'),
    dict(size='nproma', index='jrof', lo='kst', hi='kend', nz='nflevg', jk='jlev', nb='nblk', b='jblk'),
]


def dims_of(dc):
    from loki import Dimension
    hor = Dimension(name='horizontal', size=dc['size'], index=dc['index'], bounds=(dc['lo'], dc['hi']))
    ver = Dimension(name='vertical', size=dc['nz'], index=dc['jk'])
    blk = Dimension(name='blocking', size=dc['nb'], index=dc['b'])
    return hor, ver, blk


# ---------------------------------------------------------------------------------------------------------------
# generator

DEFAULT_GCFG = dict(
    n_kernels=(1, 3),          # kernels in the tree (kern1 called by the driver; others nested)
    items=(2, 6),              # top-level items per kernel
    weights=dict(scal=2, hloop=6, vloop=5, hvloop=1, vecnot=2, call=4, reduce=2, cond=2),
    partial_range=0.2,         # driver uses start=2 and/or end=n-1
    driver_loop=0.25,          # driver has its own horizontal loop inside the block loop
    two_calls=0.25,
    temps=(0, 4),
    flat=0.0,                  # probability that a leaf kernel is generated in the *flat* class of the Lean model
)


def decl(name, ty, intent='none', dims=(), param=NONE):
    return [A('decl'), A(name), A(ty), A(intent), [list(d) for d in dims], param]


def assign(l, r):
    return [A('assign'), l, r]


def do(v, lo, hi, body, step=NONE):
    return [A('do'), A(v), lo, hi, step, body]


def ifte(c, t, e=()):
    return [A('if'), c, list(t), list(e)]


def callsub(f, *args):
    return [A('callsub'), A(f)] + list(args)


LITS = [Fraction(k, 8) for k in (-12, -8, -4, -2, -1, 1, 2, 3, 4, 6, 8, 12, 16)]
POW2 = [Fraction(1, 2), Fraction(2), Fraction(1, 4), Fraction(1)]


class KernelGen:
    """one kernel: dummies (lo, hi, size, nz, arrays…, optional real scalar), local temporaries, a body of IFS-style items"""

    def __init__(self, rng, dc, name, sig, callees, gcfg, flat=False):
        self.rng, self.dc, self.name, self.sig, self.callees, self.g = rng, dc, name, sig, callees, gcfg
        self.flat = flat
        self.decls = []
        self.body = []
        self.arr2 = []      # defined 2-D (size, nz) arrays readable everywhere
        self.arr1 = []      # defined 1-D (size) arrays
        self.wr2, self.wr1 = [], []   # writable ones
        self.scal = []      # defined loop-invariant real scalars
        self.tmp_undef = []  # (name, kind) local temporaries not yet defined
        self.consts = []    # (name, extent) of (size, const) temporaries that are defined
        self.nscal = 0

    # ---- declarations
    def setup(self):
        dc, rng = self.dc, self.rng
        S, NZ = V(dc['size']), V(dc['nz'])
        for x in (dc['lo'], dc['hi'], dc['size'], dc['nz']):
            self.decls.append(decl(x, 'int', 'in'))
        for (x, rank, intent) in self.sig['arrays']:
            dims = [(ilit(1), S)] + ([(ilit(1), NZ)] if rank == 2 else [])
            self.decls.append(decl(x, 'real', intent, dims))
            (self.arr2 if rank == 2 else self.arr1).append(x)
            if intent != 'in':
                (self.wr2 if rank == 2 else self.wr1).append(x)
        if self.sig['scalar']:
            self.decls.append(decl(self.sig['scalar'], 'real', 'in'))
            self.scal.append(self.sig['scalar'])
        nt = rng.randint(*self.g['temps'])
        for k in range(nt):
            kind = rng.choice(('t1', 't1', 't2', 'tc') if not self.flat else ('t1', 't1', 'tc'))
            x = f'zt{k + 1}'
            if kind == 't1':
                self.decls.append(decl(x, 'real', 'none', [(ilit(1), S)]))
            elif kind == 't2':
                self.decls.append(decl(x, 'real', 'none', [(ilit(1), S), (ilit(1), NZ)]))
            else:
                self.decls.append(decl(x, 'real', 'none', [(ilit(1), S), (ilit(1), ilit(2))]))
            self.tmp_undef.append((x, kind))
        self.decls.append(decl(dc['index'], 'int'))
        self.decls.append(decl(dc['jk'], 'int'))

    def new_scalar(self):
        self.nscal += 1
        x = f'zs{self.nscal}'
        self.decls.append(decl(x, 'real'))
        return x

    # ---- expressions (real valued, exact: sums of terms scaled by powers of two, at most one variable product)
    def leaf(self, ctx):
        """ctx: dict(jl=bool, jk=None|'var'|'const', jkmin=int) -> a readable real leaf"""
        rng, dc = self.rng, self.dc
        JL = V(dc['index'])
        opts = []
        if ctx.get('jl'):
            for a in self.arr1 + ctx.get('loc1', []):
                opts.append(IDX(a, JL))
            for (a, n) in self.consts:
                opts.append(IDX(a, JL, ilit(rng.randint(1, n))))
            for a in self.arr2 + ctx.get('loc2', []):
                if ctx.get('jk') == 'var':
                    opts.append(IDX(a, JL, V(dc['jk'])))
                    if ctx.get('jkmin', 1) >= 2 and not self.flat:
                        opts.append(IDX(a, JL, BIN('sub', V(dc['jk']), ilit(1))))
                opts.append(IDX(a, JL, ilit(1)))
                opts.append(IDX(a, JL, V(dc['nz'])))
        for s in self.scal + ctx.get('locs', []):
            opts.append(V(s))
            opts.append(V(s))
        opts.append(rlit(rng.choice(LITS)))
        if ctx.get('jk') == 'var' and rng.random() < 0.3:
            opts.append(BIN('mul', rlit(Fraction(1, 2)), V(dc['jk'])))
        return rng.choice(opts)

    def expr(self, ctx, depth=2):
        rng = self.rng
        r = rng.random()
        if depth <= 0 or r < 0.25:
            return self.leaf(ctx)
        if r < 0.6:
            return BIN(rng.choice(('add', 'sub')), self.expr(ctx, depth - 1), self.expr(ctx, depth - 1))
        if r < 0.8:
            return BIN('mul', self.expr(ctx, depth - 1), rlit(rng.choice(POW2)))
        if r < 0.88:
            return BIN('mul', self.leaf(ctx), self.leaf(ctx))
        if r < 0.94:
            return CALL(rng.choice(('max', 'min')), self.expr(ctx, depth - 1), self.leaf(ctx))
        return NEG(self.leaf(ctx))

    def cond(self, ctx):
        return BIN(self.rng.choice(('gt', 'lt', 'ge')), self.leaf(dict(ctx, jl=ctx.get('jl'))), rlit(self.rng.choice(LITS)))

    # ---- statements inside a horizontal loop
    def target(self, ctx):
        """a writable array element at column jl"""
        rng, dc = self.rng, self.dc
        JL = V(dc['index'])
        opts = []
        for a in self.wr1:
            opts.append(IDX(a, JL))
        for a in self.wr2:
            if ctx.get('jk') == 'var':
                opts.append(IDX(a, JL, V(dc['jk'])))
                opts.append(IDX(a, JL, V(dc['jk'])))
            else:
                opts.append(IDX(a, JL, ilit(1)))
                opts.append(IDX(a, JL, V(dc['nz'])))
        return rng.choice(opts)

    def col_stmts(self, ctx, n, allow_def=True):
        rng, dc = self.rng, self.dc
        JL = V(dc['index'])
        out = []
        ctx = dict(ctx, loc1=list(ctx.get('loc1', [])), loc2=list(ctx.get('loc2', [])), locs=list(ctx.get('locs', [])))
        newly = []
        for _ in range(n):
            r = rng.random()
            und1 = [t for t in self.tmp_undef if t[1] == 't1']
            undc = [t for t in self.tmp_undef if t[1] == 'tc']
            und2 = [t for t in self.tmp_undef if t[1] == 't2']
            if allow_def and und1 and r < 0.3 and ctx.get('jk') != 'var':
                t = rng.choice(und1)
                out.append(assign(IDX(t[0], JL), self.expr(ctx)))
                self.tmp_undef.remove(t)
                newly.append((t[0], 1))
                ctx['loc1'].append(t[0])
            elif allow_def and undc and r < 0.35 and ctx.get('jk') != 'var':
                t = rng.choice(undc)
                out.append(assign(IDX(t[0], JL, ilit(1)), self.expr(ctx)))
                out.append(assign(IDX(t[0], JL, ilit(2)), self.expr(ctx)))
                self.tmp_undef.remove(t)
                newly.append((t[0], 'c'))
                self.consts.append((t[0], 2))
            elif allow_def and und2 and r < 0.45 and ctx.get('jk') == 'var' and ctx.get('jkmin', 1) == 1:
                t = rng.choice(und2)
                out.append(assign(IDX(t[0], JL, V(dc['jk'])), self.expr(dict(ctx, jkmin=1))))
                self.tmp_undef.remove(t)
                newly.append((t[0], 2))
                ctx['loc2'].append(t[0])     # readable at (jl, jk) from here on in this body (and at jk-1: not before definition)
            elif r < 0.55 and not self.flat and not ctx.get('nolocs'):
                zs = ctx.get('priv') or None
                if zs is None:
                    zs = self.new_scalar()
                    ctx['priv'] = zs
                out.append(assign(V(zs), self.expr(ctx)))
                if zs not in ctx['locs']:
                    ctx['locs'].append(zs)
            elif r < 0.7 and not self.flat and (self.wr1 or self.wr2):
                thn = [assign(self.target(ctx), self.expr(ctx, 1))]
                els = [assign(self.target(ctx), self.expr(ctx, 1))] if rng.random() < 0.5 else []
                out.append(ifte(self.cond(ctx), thn, els))
            elif self.wr1 or self.wr2:
                out.append(assign(self.target(ctx), self.expr(ctx)))
        self._newly = newly
        return out

    def commit(self):
        for (x, k) in getattr(self, '_newly', []):
            if k == 1:
                self.arr1.append(x)
                self.wr1.append(x)
            elif k == 2:
                self.arr2.append(x)
                self.wr2.append(x)
        self._newly = []

    # ---- items
    def hloop(self, body):
        dc = self.dc
        return do(dc['index'], V(dc['lo']), V(dc['hi']), body)

    def item_hloop(self):
        ctx = dict(jl=True, jk=None)
        body = self.col_stmts(ctx, self.rng.randint(1, 4))
        self.commit()
        if body:
            self.body.append(self.hloop(body))

    def item_vloop(self):
        rng, dc = self.rng, self.dc
        jkmin = rng.choice((1, 1, 2))
        ctx = dict(jl=True, jk='var', jkmin=jkmin)
        inner = []
        if rng.random() < 0.25 and not self.flat:
            zs = self.new_scalar()
            inner.append(assign(V(zs), BIN('mul', rlit(rng.choice(POW2)), V(dc['jk']))))
            ctx['locs'] = [zs]
        b1 = self.col_stmts(ctx, rng.randint(1, 3))
        self.commit() if jkmin == 1 else setattr(self, '_newly', [])
        if b1:
            inner.append(self.hloop(b1))
        if rng.random() < 0.3:
            b2 = self.col_stmts(ctx, rng.randint(1, 2), allow_def=False)
            if b2:
                inner.append(self.hloop(b2))
        if inner:
            self.body.append(do(dc['jk'], ilit(jkmin), V(dc['nz']), inner))

    def item_hvloop(self):
        rng, dc = self.rng, self.dc
        jkmin = rng.choice((1, 2))
        ctx = dict(jl=True, jk='var', jkmin=jkmin, nolocs=True)
        b = self.col_stmts(ctx, rng.randint(1, 2), allow_def=False)
        if b:
            self.body.append(self.hloop([do(dc['jk'], ilit(jkmin), V(dc['nz']), b)]))

    def item_scal(self):
        rng = self.rng
        zs = self.new_scalar()
        e = rlit(rng.choice(LITS))
        if self.scal and rng.random() < 0.5:
            e = BIN('add', BIN('mul', V(rng.choice(self.scal)), rlit(rng.choice(POW2))), e)
        self.body.append(assign(V(zs), e))
        self.scal.append(zs)

    def item_vecnot(self):
        """vector notation over the horizontal range: a(lo:hi[, k]) = expression of sections"""
        rng, dc = self.rng, self.dc
        if not (self.wr1 or self.wr2):
            return
        rg = RNG(V(dc['lo']), V(dc['hi']))

        def secleaf():
            opts = [rlit(rng.choice(LITS))] + [V(s) for s in self.scal]
            for a in self.arr1:
                opts.append(SEC(a, rg))
            for a in self.arr2:
                opts.append(SEC(a, rg, AT(ilit(1))))
                opts.append(SEC(a, rg, AT(V(dc['nz']))))
            return rng.choice(opts)
        e = BIN(rng.choice(('add', 'sub')), secleaf(), BIN('mul', secleaf(), rlit(rng.choice(POW2))))
        if self.wr1 and (not self.wr2 or rng.random() < 0.5):
            lhs = SEC(rng.choice(self.wr1), rg)
        else:
            lhs = SEC(rng.choice(self.wr2), rg, AT(rng.choice((ilit(1), V(dc['nz'])))))
        self.body.append(assign(lhs, e))

    def item_reduce(self):
        """vertical reduction into a 1-D array"""
        rng, dc = self.rng, self.dc
        if not self.wr1 or not self.arr2:
            return
        JL, JK = V(dc['index']), V(dc['jk'])
        s = rng.choice(self.wr1)
        a = rng.choice(self.arr2)
        self.body.append(self.hloop([assign(IDX(s, JL), rlit(Fraction(0)))]))
        self.body.append(do(dc['jk'], ilit(1), V(dc['nz']),
                            [self.hloop([assign(IDX(s, JL), BIN('add', IDX(s, JL), BIN('mul', IDX(a, JL, JK), rlit(rng.choice(POW2)))))])]))

    def item_cond(self):
        """a conditional on loop-invariant data around a horizontal loop"""
        rng = self.rng
        if not self.scal:
            return
        ctx = dict(jl=True, jk=None)
        body = self.col_stmts(ctx, rng.randint(1, 2), allow_def=False)
        if not body:
            return
        c = BIN(rng.choice(('gt', 'lt')), V(rng.choice(self.scal)), rlit(rng.choice(LITS)))
        self.body.append(ifte(c, [self.hloop(body)], []))

    def item_call(self):
        rng, dc = self.rng, self.dc
        if not self.callees:
            return
        g = rng.choice(self.callees)
        args = [V(dc['lo']), V(dc['hi']), V(dc['size']), V(dc['nz'])]
        used = set()
        for (x, rank, intent) in g['arrays']:
            pool = self.arr2 if rank == 2 else self.arr1
            wpool = self.wr2 if rank == 2 else self.wr1
            cand = [a for a in (pool if intent == 'in' else wpool) if a not in used]
            if not cand:
                return
            a = rng.choice(cand)
            used.add(a)
            args.append(V(a))
        # an array written by the callee must not be passed twice / read through another dummy
        if g['scalar']:
            args.append(V(rng.choice(self.scal)) if self.scal else rlit(rng.choice(LITS)))
        self.body.append(callsub(g['name'], *args))

    def build(self):
        rng = self.rng
        self.setup()
        n = rng.randint(*self.g['items'])
        w = dict(self.g['weights'])
        if self.flat:
            w = dict(hloop=1)
        kinds = list(w)
        for _ in range(n):
            k = rng.choices(kinds, [w[x] for x in kinds])[0]
            getattr(self, 'item_' + k)()
        if not any(h(s) in ('do', 'if', 'assign') for s in self.body):
            self.item_hloop()
        if self.callees and not any(h(s) == 'callsub' for s in self.body):
            self.item_call()
        # every kernel touches its first inout array so that it is observable
        if self.wr2 or self.wr1:
            self.item_hloop()
        args = [self.dc['lo'], self.dc['hi'], self.dc['size'], self.dc['nz']] + [a[0] for a in self.sig['arrays']] \
            + ([self.sig['scalar']] if self.sig['scalar'] else [])
        return [A('unit'), A(self.name), [A(a) for a in args], self.decls, self.body]


def gen_sig(rng, name):
    n2 = rng.randint(1, 2)
    n1 = rng.randint(0, 2)
    arrays = []
    for k in range(n2):
        arrays.append((f'p{name[-1]}f{k + 1}', 2, 'inout' if k == 0 else rng.choice(('in', 'inout'))))
    for k in range(n1):
        arrays.append((f'p{name[-1]}g{k + 1}', 1, rng.choice(('in', 'inout', 'inout'))))
    scalar = f'p{name[-1]}c' if rng.random() < 0.5 else None
    return dict(name=name, arrays=arrays, scalar=scalar)


def gen_tree_candidate(rng, gcfg):
    dci = rng.randrange(len(DIMCFGS))
    dc = DIMCFGS[dci]
    nk = rng.randint(*gcfg['n_kernels'])
    sigs = [gen_sig(rng, f'kern{k + 1}') for k in range(nk)]
    units = []
    for k in range(nk):
        callees = sigs[k + 1:] if k + 1 < nk else []
        if callees and k == 0 and nk == 3 and rng.random() < 0.5:
            callees = sigs[1:2]          # chain kern1 -> kern2 -> kern3
        flat = (not callees) and rng.random() < gcfg.get('flat', 0.0)
        kg = KernelGen(rng, dc, sigs[k]['name'], sigs[k], callees, gcfg, flat=flat)
        units.append(kg.build())
    # driver
    S, NZ, NB, B = V(dc['size']), V(dc['nz']), V(dc['nb']), V(dc['b'])
    s1 = sigs[0]
    decls = [decl(dc['size'], 'int', 'in'), decl(dc['nz'], 'int', 'in'), decl(dc['nb'], 'int', 'in')]
    dargs = [dc['size'], dc['nz'], dc['nb']]
    fields = []
    for (x, rank, intent) in s1['arrays']:
        f = 'f' + x[2:]
        dims = [(ilit(1), S)] + ([(ilit(1), NZ)] if rank == 2 else []) + [(ilit(1), NB)]
        decls.append(decl(f, 'real', 'inout' if intent != 'in' else rng.choice(('in', 'inout')), dims))
        dargs.append(f)
        fields.append((f, rank, intent))
    if s1['scalar']:
        decls.append(decl('pc', 'real', 'in'))
        dargs.append('pc')
    decls += [decl(dc['b'], 'int'), decl(dc['lo'], 'int'), decl(dc['hi'], 'int')]
    body = []
    lo_e, hi_e = ilit(1), S
    if rng.random() < gcfg['partial_range']:
        if rng.random() < 0.5:
            lo_e = ilit(2)
        else:
            hi_e = BIN('sub', S, ilit(1))
    body.append(assign(V(dc['lo']), lo_e))
    body.append(assign(V(dc['hi']), hi_e))

    def kcall():
        args = [V(dc['lo']), V(dc['hi']), S, NZ]
        for (f, rank, intent) in fields:
            args.append(SEC(f, RNG(), RNG(), AT(B)) if rank == 2 else SEC(f, RNG(), AT(B)))
        if s1['scalar']:
            args.append(V('pc'))
        return callsub('kern1', *args)
    lbody = []
    wfields = [f for f in fields if f[2] != 'in']
    if rng.random() < gcfg['driver_loop'] and wfields:
        decls.append(decl(dc['index'], 'int'))
        f = rng.choice(wfields)
        JL = V(dc['index'])
        el = IDX(f[0], JL, ilit(1), B) if f[1] == 2 else IDX(f[0], JL, B)
        st = do(dc['index'], V(dc['lo']), V(dc['hi']), [assign(el, BIN('add', BIN('mul', el, rlit(Fraction(1, 2))), rlit(rng.choice(LITS))))])
        if rng.random() < 0.5:
            lbody.append(st)
            lbody.append(kcall())
        else:
            lbody.append(kcall())
            lbody.append(st)
    else:
        lbody.append(kcall())
    if rng.random() < gcfg['two_calls']:
        lbody.append(kcall())
    body.append(do(dc['b'], ilit(1), NB, lbody))
    drv = [A('unit'), A('driver'), [A(a) for a in dargs], decls, body]
    prog = fir.canon([A('program'), A('driver'), drv] + units)
    return dci, prog


def seq_assoc(prog):
    """`f(:, :, b)` actuals -> `f(lb1, lb2, b)` (sequence association of a contiguous trailing-index section with an
    explicit-shape dummy: the same storage); needed because the FIR interpreters have no section actuals."""
    prog = fir.canon(prog)
    out = [prog[0], prog[1]]
    for u in prog[2:]:
        bounds = {str(d[1]): d[4] for d in u[3]}

        def fs(ss, bounds=bounds):
            res = []
            for s in ss:
                if h(s) == 'callsub':
                    s = s[:2] + [fix(a, bounds) for a in s[2:]]
                res.append(s)
            return res
        pu = fir.map_program([prog[0], prog[1], u], fs=fs)
        out.append(pu[2])
    return fir.canon(out)


def fix(a, bounds):
    if h(a) != 'sec':
        return a
    x = str(a[1])
    dims = a[2:]
    bs = bounds.get(x)
    if bs is None or len(bs) != len(dims):
        return a
    subs = []
    full = True
    for d, b in zip(dims, bs):
        if h(d) == 'rng':
            if not (full and all(str(p) == 'none' for p in d[1:4])):
                return a
            subs.append(b[0])
        else:
            full = False
            subs.append(d[1])
    return IDX(x, *subs)


def gen_tree(rng, gcfg=None, inputs=3, max_extent=4):
    """(dimcfg index, program, input sets): a validated call tree (runs without error on all input sets, exactly representable)"""
    g = dict(DEFAULT_GCFG)
    if gcfg:
        g.update({k: v for k, v in gcfg.items() if k != 'weights'})
        if 'weights' in gcfg:
            g['weights'] = dict(DEFAULT_GCFG['weights'], **gcfg['weights'])
    for attempt in range(40):
        dci, prog = gen_tree_candidate(rng, g)
        ins = fir.gen_inputs(rng, prog, inputs, max_extent=max_extent)
        ok = True
        ps = seq_assoc(prog)
        for i in ins:
            stats = {}
            r = fir.interp(ps, i, stats=stats)
            if r[0] != 'ok' or not fir.exact_in_hardware(stats):
                ok = False
                break
        if ok:
            return dci, prog, ins
    raise RuntimeError('no valid call tree generated')


# ---------------------------------------------------------------------------------------------------------------
# running the real transformations

PIPELINES = ('vvector', 'svector', 'vhoist', 'shoist', 'steps', 'steps-nodemote', 'steps-trim', 'vertical')


def build_pipeline(name, dc):
    from loki.batch import Pipeline
    from loki.transformations import single_column as sc
    hor, ver, blk = dims_of(dc)
    if name == 'vvector':
        return sc.SCCVVectorPipeline(horizontal=hor, vertical=ver, block_dim=blk, directive=False)
    if name == 'svector':
        return sc.SCCSVectorPipeline(horizontal=hor, vertical=ver, block_dim=blk, directive=False)
    if name == 'vhoist':
        return sc.SCCVHoistPipeline(horizontal=hor, vertical=ver, block_dim=blk, directive=False)
    if name == 'shoist':
        return sc.SCCSHoistPipeline(horizontal=hor, vertical=ver, block_dim=blk, directive=False)
    if name in ('steps', 'steps-nodemote', 'steps-trim'):
        return Pipeline(classes=(sc.SCCBaseTransformation, sc.SCCDevectorTransformation, sc.SCCDemoteTransformation,
                                 sc.SCCRevectorTransformation),
                        horizontal=hor, block_dim=blk, demote_local_arrays=(name != 'steps-nodemote'),
                        trim_vector_sections=(name == 'steps-trim'))
    if name == 'vertical':
        return Pipeline(classes=(sc.SCCFuseVerticalLoops, sc.SCCBaseTransformation, sc.SCCDevectorTransformation,
                                 sc.SCCDemoteTransformation, sc.SCCRevectorTransformation),
                        horizontal=hor, vertical=ver, block_dim=blk, apply_to=('kern1', 'kern2', 'kern3'))
    raise ValueError(name)


def apply_scheduler(prog, make_pipeline, extra_files=None, keep=None):
    """write one file per unit, run the real Scheduler over the tree with the given pipeline / transformation list,
    return {unit name: transformed Subroutine} (in program order) and the scheduler"""
    from loki.batch import Scheduler, SchedulerConfig
    from loki.frontend import FP
    d = Path(tempfile.mkdtemp(prefix='c37_'))
    try:
        names = []
        for u in prog[2:]:
            name = str(u[1])
            names.append(name)
            (d / f'{name}.F90').write_text('\n'.join(fir.emit_unit(u)) + '\n')
        for fn, text in (extra_files or {}).items():
            (d / fn).write_text(text)
        config = {'default': {'mode': 'idem', 'role': 'kernel', 'expand': True, 'strict': True},
                  'routines': {'driver': {'role': 'driver'}}}
        sched = Scheduler(paths=[d], config=SchedulerConfig.from_dict(config), frontend=FP, xmods=[d], seed_routines=['driver'])
        for t in make_pipeline():
            sched.process(t)
        out = {}
        for name in names:
            try:
                out[name] = sched[f'#{name}'].ir
            except Exception:
                pass
        fir._keepalive.append(sched)
        del fir._keepalive[:-16]
        return out, sched
    finally:
        if keep is None:
            shutil.rmtree(d, ignore_errors=True)


def transform(prog, dci, pipeline):
    dc = DIMCFGS[dci]
    return apply_scheduler(prog, lambda: [build_pipeline(pipeline, dc)])


def positional_calls(routines):
    """keyword arguments of calls to routines of the tree -> positional arguments in the callee's dummy order (documented
    normalisation before export: FIR calls are positional; SCCSeqRevector passes the horizontal index by keyword)"""
    from loki.ir import FindNodes, CallStatement, Transformer
    for r in routines.values():
        m = {}
        for c in FindNodes(CallStatement).visit(r.body):
            if not c.kwarguments:
                continue
            g = routines.get(str(c.name).lower())
            if g is None:
                continue
            names = [str(a).lower() for a in g.argnames]
            kw = {str(k).lower(): v for k, v in c.kwarguments}
            args = list(c.arguments)
            for x in names[len(args):]:
                if x not in kw:
                    break
                args.append(kw.pop(x))
            if kw:
                continue
            m[c] = c.clone(arguments=tuple(args), kwarguments=())
        if m:
            r.body = Transformer(m).visit(r.body)


def export_tree(routines, main='driver'):
    positional_calls(routines)
    units = [fir._x_unit(r) for r in routines.values()]
    return fir.normalize([A('program'), A(main)] + units)


def fgen_tree(routines):
    from loki import fgen
    return '\n\n'.join(fgen(r) for r in routines.values()) + '\n'


# ---------------------------------------------------------------------------------------------------------------
# running Loki's fgen text of a transformed tree with gfortran (same driver / canonical output as fir.run_gfortran)

def run_text_gfortran(prog, text_items, flags=(), timeout=60, prelude=''):
    """``text_items``: list of (fortran source of the transformed units, inputs); the driver that initialises the dummies,
    calls the main unit and prints the canonical output is generated from the ORIGINAL program ``prog`` (the interface of
    the main unit is unchanged by every transformation considered).  Returns results like fir.run_gfortran."""
    import subprocess
    results = []
    d = Path(tempfile.mkdtemp(prefix='c37_gf_'))
    try:
        for k, (text, inputs) in enumerate(text_items):
            drv = fir.emit_driver(prog, inputs, 'fir_driver', '', 1)
            src = prelude + text + '\n' + '\n'.join(drv) + '\nprogram fir_main\n  implicit none\n  call fir_driver()\nend program fir_main\n'
            f = d / f't{k}.F90'
            f.write_text(src)
            exe = d / f't{k}.x'
            p = subprocess.run([fir.GFORTRAN] + fir.GFORTRAN_FLAGS + list(flags) + ['-o', str(exe), str(f)], cwd=d,
                               stdout=subprocess.PIPE, stderr=subprocess.STDOUT, text=True)
            if p.returncode != 0:
                msg = [l for l in p.stdout.splitlines() if 'Error' in l]
                results.append(('compile-error', (msg[0] if msg else p.stdout[-300:]).strip()))
                continue
            try:
                q = subprocess.run([str(exe)], cwd=d, stdout=subprocess.PIPE, stderr=subprocess.PIPE, text=True, timeout=timeout)
            except subprocess.TimeoutExpired:
                results.append(('timeout',))
                continue
            runs = fir._split_runs(q.stdout)
            if q.returncode != 0 or 1 not in runs or not runs[1][1]:
                err = (q.stderr.strip().splitlines() or ['run-time failure'])
                results.append(('error', err[0][:200]))
                continue
            results.append(fir.parse_canonical(runs[1][0]))
        return results
    finally:
        shutil.rmtree(d, ignore_errors=True)


# ---------------------------------------------------------------------------------------------------------------
# checks on a transformed tree

def call_mismatches(routines):
    """calls to routines of the tree whose actual arguments do not bind to the callee's dummies one to one with equal
    type and compatible rank (positional then keyword, Fortran rules)"""
    from loki.ir import FindNodes, CallStatement
    from loki.expression import symbols as sym
    out = []
    for r in routines.values():
        for c in FindNodes(CallStatement).visit(r.body):
            g = routines.get(str(c.name).lower())
            if g is None:
                continue
            names = [str(a).lower() for a in g.argnames]
            bound = {}
            msg = None
            if len(c.arguments) > len(names):
                msg = 'too many arguments'
            for x, a in zip(names, c.arguments):
                bound[x] = a
            for k, v in (c.kwarguments or ()):
                k = str(k).lower()
                if k in bound:
                    msg = f'dummy {k} bound twice'
                elif k not in names:
                    msg = f'no dummy {k}'
                bound[k] = v
            for x in names:
                if x not in bound:
                    msg = msg or f'dummy {x} not bound'
            if msg is None:
                for x, a in bound.items():
                    d = g.variable_map.get(x)
                    dty = getattr(getattr(d, 'type', None), 'dtype', None)
                    aty = getattr(getattr(a, 'type', None), 'dtype', None)
                    if dty is not None and aty is not None and isinstance(a, (sym.Scalar, sym.Array)) and dty != aty:
                        msg = f'actual {a} of type {aty} for dummy {x} of type {dty}'
                        break
                    drank = len(getattr(d, 'shape', None) or ())
                    if isinstance(a, sym.Array):
                        if a.dimensions:
                            arank = sum(1 for i in a.dimensions if isinstance(i, sym.RangeIndex))
                            elem = arank == 0
                        else:
                            arank, elem = len(a.shape or ()), False
                        if drank == 0 and arank > 0:
                            msg = f'array actual {a} for scalar dummy {x}'
                            break
                    elif drank > 0 and isinstance(a, (sym.Scalar, sym.IntLiteral, sym.FloatLiteral)):
                        msg = f'scalar actual {a} for array dummy {x}'
                        break
            if msg:
                out.append(f'call {c.name} in {r.name}: {msg}')
    return out


def empty_range(prog, inputs):
    """some input set makes the horizontal iteration range empty (decidable: evaluates the two driver assignments)"""
    drv = prog[2]
    dci = None
    vals = {}
    for row in inputs:
        if len(row) == 2:
            try:
                vals[str(row[0])] = fir.decode_val(row[1])
            except Exception:
                pass
    lo = hi = None
    for s in drv[4][:2]:
        if h(s) == 'assign' and h(s[1]) == 'v':
            e = s[2]
            if h(e) == 'i':
                v = int(str(e[1]))
            elif h(e) == 'v':
                v = vals.get(str(e[1]))
            elif h(e) == 'bin' and h(e[2]) == 'v' and h(e[3]) == 'i':
                v = vals.get(str(e[2][1]))
                v = None if v is None else (v - int(str(e[3][1])) if str(e[1]) == 'sub' else v + int(str(e[3][1])))
            else:
                v = None
            if lo is None:
                lo = v
            else:
                hi = v
    return lo is not None and hi is not None and lo > hi
