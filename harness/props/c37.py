"""C37 — single-column (SCC) pipelines preserve driver and kernel results.

Generator of IFS-style driver/kernel call trees (FIR wire form), application of the real SCC pipelines through the real
Scheduler, export of the transformed tree back to FIR, direct oracle (Python FIR interpreter every run, gfortran in the
thorough tier), correspondence of the Lean model of devector+demote+revector on *flat* kernels (`LokiModel.C37.Model`)
with the real SCCBase+SCCDevector+SCCDemote+SCCRevector chain.

The generator (`gen_tree`), the Scheduler runner (`apply_scheduler`) and the comparison helpers are also used by C38.
"""
import os
import random as _random
import shutil
import tempfile
from fractions import Fraction
from pathlib import Path

from ..core import Prop, Case, Failure, REPO
from ..sexpr import A, dumps, loads
from .. import fir
from ..fir import I, V, IDX, SEC, AT, RNG, BIN, NEG, CALL, ilit, rlit, NONE


def h(x):
    return str(x[0]) if isinstance(x, list) and x else None


# ---------------------------------------------------------------------------------------------------------------
# array reductions (MAXVAL / MINVAL / SUM of a whole array or a section): FIR's shared layers have no array-valued
# intrinsics, so they are added HERE (own file): `(call maxval (v a))`, `(call sum (sec a (rng lo hi none)))`.
# fir.emit_ex prints them as ordinary function references; the exporter accepts them while `reductions_exportable()` is
# active (the tuple fir.INTRINSICS is extended for the duration of one export); the interpreter below evaluates them.

REDUCTIONS = ('maxval', 'minval', 'sum')


class RInterp(fir.Interp):
    def eval(self, st, pos, e):
        if h(e) == 'call' and str(e[1]) in REDUCTIONS and len(e) == 3 and h(e[2]) in ('v', 'sec'):
            a = e[2]
            x = str(a[1])
            bs = self.bounds_of(st, x)
            if bs is None:
                raise fir._Fail()
            if h(a) == 'v':
                shape = [max(0, hi - lo + 1) for lo, hi in bs]
                vals = [self.read_at(st, x, [b[0] + k for b, k in zip(bs, q)]) for q in fir._positions(shape)]
            else:
                shape = self.sec_shape(st, bs, a[2:])
                vals = [self.read_at(st, x, self.eval_sec(st, pos, bs, a[2:], q)) for q in fir._positions(shape)]
            name = str(e[1])
            if name == 'sum':
                acc = Fraction(0)
                for v in vals:
                    acc = self.binop('add', acc, v)
                return acc
            if not vals:
                raise fir._Fail()
            acc = vals[0]
            for v in vals[1:]:
                acc = self.intrinsic('max' if name == 'maxval' else 'min', [acc, v])
            return acc
        return super().eval(st, pos, e)


def interp(prog, inputs, fuel=100000, stats=None):
    """fir.interp with array reductions"""
    return RInterp(prog, stats).run_main(inputs, fuel)


class reductions_exportable:
    def __enter__(self):
        self.saved = fir.INTRINSICS
        fir.INTRINSICS = tuple(fir.INTRINSICS) + REDUCTIONS

    def __exit__(self, *a):
        fir.INTRINSICS = self.saved


def recase(text, names, seed):
    """random letter case for every OCCURRENCE of every name in ``names`` (Fortran is case insensitive; IFS sources are
    mixed case); deterministic in ``seed``; seed 0 = unchanged"""
    import re
    if not seed:
        return text
    rng = _random.Random(seed)
    pat = re.compile(r'(?<![A-Za-z0-9_.])(' + '|'.join(sorted(map(re.escape, names), key=len, reverse=True)) + r')(?![A-Za-z0-9_])',
                     re.I)

    def one(m):
        w = m.group(0)
        r = rng.random()
        if r < 0.3:
            return w.upper()
        if r < 0.5:
            return w.lower()
        if r < 0.7:
            return w.capitalize()
        return ''.join(c.upper() if rng.random() < 0.5 else c.lower() for c in w)
    return '\n'.join(pat.sub(one, line) for line in text.split('\n'))


def unit_names(u):
    return {str(u[1])} | {str(d[1]) for d in u[3]}


# ---------------------------------------------------------------------------------------------------------------
# dimension configurations (names the SCC transformations are told about)

DIMCFGS = [
    dict(size='nlon', index='jl', lo='start', hi='end', nz='nz', jk='jk', nb='nb', b='b'),
    dict(size='klon', index='jl', lo='kidia', hi='kfdia', nz='klev', jk='jk', nb='ngpblks', b='ibl'),
    dict(size='nproma', index='jrof', lo='kst', hi='kend', nz='nflevg', jk='jlev', nb='nblk', b='jblk'),
]


def dims_of(dc):
    from loki import Dimension
    hor = Dimension(name='horizontal', size=dc['size'], index=dc['index'], bounds=(dc['lo'], dc['hi']))
    ver = Dimension(name='vertical', size=dc['nz'], index=dc['jk'])
    blk = Dimension(name='blocking', size=dc['nb'], index=dc['b'])
    return hor, ver, blk


# ---------------------------------------------------------------------------------------------------------------
# generator

DEFAULT_GCFG = dict(
    n_kernels=(1, 3),          # kernels in the tree (kern1 called by the driver; others nested)
    items=(2, 6),              # top-level items per kernel
    weights=dict(scal=2, hloop=6, vloop=5, hvloop=1, vecnot=2, call=4, reduce=2, cond=2, hreduce=0),
    partial_range=0.2,         # driver uses start=2 and/or end=n-1
    driver_loop=0.25,          # driver has its own horizontal loop inside the block loop
    two_calls=0.25,
    temps=(0, 4),
    flat=0.0,                  # probability that a leaf kernel is generated in the *flat* class of the Lean model
)


def decl(name, ty, intent='none', dims=(), param=NONE):
    return [A('decl'), A(name), A(ty), A(intent), [list(d) for d in dims], param]


def assign(l, r):
    return [A('assign'), l, r]


def do(v, lo, hi, body, step=NONE):
    return [A('do'), A(v), lo, hi, step, body]


def ifte(c, t, e=()):
    return [A('if'), c, list(t), list(e)]


def callsub(f, *args):
    return [A('callsub'), A(f)] + list(args)


LITS = [Fraction(k, 8) for k in (-12, -8, -4, -2, -1, 1, 2, 3, 4, 6, 8, 12, 16)]
POW2 = [Fraction(1, 2), Fraction(2), Fraction(1, 4), Fraction(1)]


class KernelGen:
    """one kernel: dummies (lo, hi, size, nz, arrays…, optional real scalar), local temporaries, a body of IFS-style items"""

    def __init__(self, rng, dc, name, sig, callees, gcfg, flat=False):
        self.rng, self.dc, self.name, self.sig, self.callees, self.g = rng, dc, name, sig, callees, gcfg
        self.flat = flat
        self.decls = []
        self.body = []
        self.arr2 = []      # defined 2-D (size, nz) arrays readable everywhere
        self.arr1 = []      # defined 1-D (size) arrays
        self.wr2, self.wr1 = [], []   # writable ones
        self.scal = []      # defined loop-invariant real scalars
        self.tmp_undef = []  # (name, kind) local temporaries not yet defined
        self.consts = []    # (name, extent) of (size, const) temporaries that are defined
        self.nscal = 0
        self.full_range = False

    # ---- declarations
    def setup(self):
        dc, rng = self.dc, self.rng
        S, NZ = V(dc['size']), V(dc['nz'])
        for x in (dc['lo'], dc['hi'], dc['size'], dc['nz']):
            self.decls.append(decl(x, 'int', 'in'))
        for (x, rank, intent) in self.sig['arrays']:
            dims = [(ilit(1), S)] + ([(ilit(1), NZ)] if rank == 2 else [])
            self.decls.append(decl(x, 'real', intent, dims))
            (self.arr2 if rank == 2 else self.arr1).append(x)
            if intent != 'in':
                (self.wr2 if rank == 2 else self.wr1).append(x)
        if self.sig['scalar']:
            self.decls.append(decl(self.sig['scalar'], 'real', 'in'))
            self.scal.append(self.sig['scalar'])
        nt = rng.randint(*self.g['temps'])
        for k in range(nt):
            kind = rng.choice(('t1', 't1', 't2', 'tc') if not self.flat else ('t1', 't1', 'tc'))
            x = f'zt{k + 1}'
            if kind == 't1':
                self.decls.append(decl(x, 'real', 'none', [(ilit(1), S)]))
            elif kind == 't2':
                self.decls.append(decl(x, 'real', 'none', [(ilit(1), S), (ilit(1), NZ)]))
            else:
                self.decls.append(decl(x, 'real', 'none', [(ilit(1), S), (ilit(1), ilit(2))]))
            self.tmp_undef.append((x, kind))
        self.forced_t2 = None
        if self.g.get('force_t2') and not self.callees and not self.flat:
            self.forced_t2 = 'ztq'
            self.decls.append(decl('ztq', 'real', 'none', [(ilit(1), S), (ilit(1), NZ)]))
        self.buffer = None
        if self.callees and not self.flat:
            # a temporary reserved for buffering values across the first call (defined before, read after the call)
            self.buffer = 'ztb'
            self.decls.append(decl('ztb', 'real', 'none', [(ilit(1), S)]))
        self.decls.append(decl(dc['index'], 'int'))
        self.decls.append(decl(dc['jk'], 'int'))

    def new_scalar(self):
        self.nscal += 1
        x = f'zs{self.nscal}'
        self.decls.append(decl(x, 'real'))
        return x

    # ---- expressions (real valued, exact: sums of terms scaled by powers of two, at most one variable product)
    def leaf(self, ctx):
        """ctx: dict(jl=bool, jk=None|'var'|'const', jkmin=int) -> a readable real leaf"""
        rng, dc = self.rng, self.dc
        JL = V(dc['index'])
        opts = []
        if ctx.get('jl'):
            for a in self.arr1 + ctx.get('loc1', []):
                opts.append(IDX(a, JL))
            for (a, n) in self.consts:
                opts.append(IDX(a, JL, ilit(rng.randint(1, n))))
            for a in self.arr2 + ctx.get('loc2', []):
                if ctx.get('jk') == 'var':
                    opts.append(IDX(a, JL, V(dc['jk'])))
                    if ctx.get('jkmin', 1) >= 2 and not self.flat:
                        opts.append(IDX(a, JL, BIN('sub', V(dc['jk']), ilit(1))))
                opts.append(IDX(a, JL, ilit(1)))
                opts.append(IDX(a, JL, V(dc['nz'])))
        for s in self.scal + ctx.get('locs', []):
            opts.append(V(s))
            opts.append(V(s))
        opts.append(rlit(rng.choice(LITS)))
        if ctx.get('jk') == 'var' and rng.random() < 0.3:
            opts.append(BIN('mul', rlit(Fraction(1, 2)), V(dc['jk'])))
        return rng.choice(opts)

    def expr(self, ctx, depth=2):
        rng = self.rng
        r = rng.random()
        if depth <= 0 or r < 0.25:
            return self.leaf(ctx)
        if r < 0.6:
            return BIN(rng.choice(('add', 'sub')), self.expr(ctx, depth - 1), self.expr(ctx, depth - 1))
        if r < 0.8:
            return BIN('mul', self.expr(ctx, depth - 1), rlit(rng.choice(POW2)))
        if r < 0.88:
            return BIN('mul', self.leaf(ctx), self.leaf(ctx))
        if r < 0.94:
            return CALL(rng.choice(('max', 'min')), self.expr(ctx, depth - 1), self.leaf(ctx))
        return NEG(self.leaf(ctx))

    def cond(self, ctx):
        return BIN(self.rng.choice(('gt', 'lt', 'ge')), self.leaf(dict(ctx, jl=ctx.get('jl'))), rlit(self.rng.choice(LITS)))

    # ---- statements inside a horizontal loop
    def target(self, ctx):
        """a writable array element at column jl"""
        rng, dc = self.rng, self.dc
        JL = V(dc['index'])
        opts = []
        for a in self.wr1:
            opts.append(IDX(a, JL))
        for a in self.wr2:
            if ctx.get('jk') == 'var':
                opts.append(IDX(a, JL, V(dc['jk'])))
                opts.append(IDX(a, JL, V(dc['jk'])))
            else:
                opts.append(IDX(a, JL, ilit(1)))
                opts.append(IDX(a, JL, V(dc['nz'])))
        return rng.choice(opts)

    def col_stmts(self, ctx, n, allow_def=True):
        rng, dc = self.rng, self.dc
        JL = V(dc['index'])
        out = []
        ctx = dict(ctx, loc1=list(ctx.get('loc1', [])), loc2=list(ctx.get('loc2', [])), locs=list(ctx.get('locs', [])))
        newly = []
        for _ in range(n):
            r = rng.random()
            und1 = [t for t in self.tmp_undef if t[1] == 't1']
            undc = [t for t in self.tmp_undef if t[1] == 'tc']
            und2 = [t for t in self.tmp_undef if t[1] == 't2']
            if allow_def and und1 and r < 0.3 and ctx.get('jk') != 'var':
                t = rng.choice(und1)
                out.append(assign(IDX(t[0], JL), self.expr(ctx)))
                self.tmp_undef.remove(t)
                newly.append((t[0], 1))
                ctx['loc1'].append(t[0])
            elif allow_def and undc and r < 0.35 and ctx.get('jk') != 'var':
                t = rng.choice(undc)
                out.append(assign(IDX(t[0], JL, ilit(1)), self.expr(ctx)))
                out.append(assign(IDX(t[0], JL, ilit(2)), self.expr(ctx)))
                self.tmp_undef.remove(t)
                newly.append((t[0], 'c'))
                self.consts.append((t[0], 2))
            elif allow_def and und2 and r < 0.45 and ctx.get('jk') == 'var' and ctx.get('jkmin', 1) == 1:
                t = rng.choice(und2)
                out.append(assign(IDX(t[0], JL, V(dc['jk'])), self.expr(dict(ctx, jkmin=1))))
                self.tmp_undef.remove(t)
                newly.append((t[0], 2))
                ctx['loc2'].append(t[0])     # readable at (jl, jk) from here on in this body (and at jk-1: not before definition)
            elif r < 0.55 and not self.flat and not ctx.get('nolocs'):
                zs = ctx.get('priv') or None
                if zs is None:
                    zs = self.new_scalar()
                    ctx['priv'] = zs
                out.append(assign(V(zs), self.expr(ctx)))
                if zs not in ctx['locs']:
                    ctx['locs'].append(zs)
            elif r < 0.7 and not self.flat and (self.wr1 or self.wr2):
                thn = [assign(self.target(ctx), self.expr(ctx, 1))]
                els = [assign(self.target(ctx), self.expr(ctx, 1))] if rng.random() < 0.5 else []
                out.append(ifte(self.cond(ctx), thn, els))
            elif self.wr1 or self.wr2:
                out.append(assign(self.target(ctx), self.expr(ctx)))
        self._newly = newly
        return out

    def commit(self):
        for (x, k) in getattr(self, '_newly', []):
            if k == 1:
                self.arr1.append(x)
                self.wr1.append(x)
            elif k == 2:
                self.arr2.append(x)
                self.wr2.append(x)
        self._newly = []

    # ---- items
    def hloop(self, body):
        dc = self.dc
        return do(dc['index'], V(dc['lo']), V(dc['hi']), body)

    def item_hloop(self):
        ctx = dict(jl=True, jk=None)
        body = self.col_stmts(ctx, self.rng.randint(1, 4))
        self.commit()
        if body:
            self.body.append(self.hloop(body))

    def item_vloop(self):
        rng, dc = self.rng, self.dc
        jkmin = rng.choice((1, 1, 2))
        ctx = dict(jl=True, jk='var', jkmin=jkmin)
        inner = []
        if rng.random() < 0.25 and not self.flat:
            zs = self.new_scalar()
            inner.append(assign(V(zs), BIN('mul', rlit(rng.choice(POW2)), V(dc['jk']))))
            ctx['locs'] = [zs]
        b1 = self.col_stmts(ctx, rng.randint(1, 3))
        self.commit() if jkmin == 1 else setattr(self, '_newly', [])
        if b1:
            inner.append(self.hloop(b1))
        if rng.random() < 0.3:
            b2 = self.col_stmts(ctx, rng.randint(1, 2), allow_def=False)
            if b2:
                inner.append(self.hloop(b2))
        if inner:
            self.body.append(do(dc['jk'], ilit(jkmin), V(dc['nz']), inner))

    def item_hvloop(self):
        rng, dc = self.rng, self.dc
        jkmin = rng.choice((1, 2))
        ctx = dict(jl=True, jk='var', jkmin=jkmin, nolocs=True)
        b = self.col_stmts(ctx, rng.randint(1, 2), allow_def=False)
        if b:
            self.body.append(self.hloop([do(dc['jk'], ilit(jkmin), V(dc['nz']), b)]))

    def item_scal(self):
        rng = self.rng
        zs = self.new_scalar()
        e = rlit(rng.choice(LITS))
        if self.scal and rng.random() < 0.5:
            e = BIN('add', BIN('mul', V(rng.choice(self.scal)), rlit(rng.choice(POW2))), e)
        self.body.append(assign(V(zs), e))
        self.scal.append(zs)

    def item_vecnot(self):
        """vector notation over the horizontal range: a(lo:hi[, k]) = expression of sections"""
        rng, dc = self.rng, self.dc
        if not (self.wr1 or self.wr2):
            return
        rg = RNG(V(dc['lo']), V(dc['hi']))

        def secleaf():
            opts = [rlit(rng.choice(LITS))] + [V(s) for s in self.scal]
            for a in self.arr1:
                opts.append(SEC(a, rg))
            for a in self.arr2:
                opts.append(SEC(a, rg, AT(ilit(1))))
                opts.append(SEC(a, rg, AT(V(dc['nz']))))
            return rng.choice(opts)
        e = BIN(rng.choice(('add', 'sub')), secleaf(), BIN('mul', secleaf(), rlit(rng.choice(POW2))))
        if self.wr1 and (not self.wr2 or rng.random() < 0.5):
            lhs = SEC(rng.choice(self.wr1), rg)
        else:
            lhs = SEC(rng.choice(self.wr2), rg, AT(rng.choice((ilit(1), V(dc['nz'])))))
        self.body.append(assign(lhs, e))

    def item_reduce(self):
        """vertical reduction into a 1-D array"""
        rng, dc = self.rng, self.dc
        if not self.wr1 or not self.arr2:
            return
        JL, JK = V(dc['index']), V(dc['jk'])
        s = rng.choice(self.wr1)
        a = rng.choice(self.arr2)
        self.body.append(self.hloop([assign(IDX(s, JL), rlit(Fraction(0)))]))
        self.body.append(do(dc['jk'], ilit(1), V(dc['nz']),
                            [self.hloop([assign(IDX(s, JL), BIN('add', IDX(s, JL), BIN('mul', IDX(a, JL, JK), rlit(rng.choice(POW2)))))])]))

    def item_hreduce(self, force_local=False):
        """horizontal reduction by an array intrinsic on a whole array / section, between two horizontal loops:
        `zs = MAXVAL(zt)`, `SUM(zt(:))`, `MINVAL(zt(start:end))`; the result is used in the following loop"""
        rng, dc = self.rng, self.dc
        if not (self.wr1 or self.wr2):
            return
        JL = V(dc['index'])
        und1 = [t for t in self.tmp_undef if t[1] == 't1']
        local = False
        if force_local and not und1:
            self.nred = getattr(self, 'nred', 0) + 1
            x = f'ztr{self.nred}'
            self.decls.append(decl(x, 'real', 'none', [(ilit(1), V(dc['size']))]))
            self.tmp_undef.append((x, 't1'))
            und1 = [(x, 't1')]
        if und1 and (force_local or rng.random() < 0.7 or not self.arr1):
            t = rng.choice(und1)
            self.tmp_undef.remove(t)
            src = [IDX(a, JL) for a in self.arr1] + [IDX(a, JL, ilit(1)) for a in self.arr2]
            e0 = BIN('add', BIN('mul', rng.choice(src), rlit(rng.choice(POW2))), rlit(rng.choice(LITS))) if src else \
                self.expr(dict(jl=True, jk=None), 1)
            self.body.append(self.hloop([assign(IDX(t[0], JL), e0)]))
            self.arr1.append(t[0])
            self.wr1.append(t[0])
            a, local = t[0], True
        elif self.arr1:
            a = rng.choice(self.arr1)
            local = a.startswith('zt')
        else:
            return
        form = rng.choice(('bare', 'bare', 'range', 'range1') + (('colon',) if self.g.get('colon_form') else ()))
        if local and form != 'range':   # bare, (:), (1:n)
            self.full_range = True      # the temporary is only filled inside the horizontal range
        arg = V(a) if form == 'bare' else SEC(a, RNG()) if form == 'colon' else SEC(a, RNG(ilit(1), V(dc['size']))) \
            if form == 'range1' else SEC(a, RNG(V(dc['lo']), V(dc['hi'])))
        zs = self.new_scalar()
        self.body.append(assign(V(zs), CALL(rng.choice(REDUCTIONS), arg)))
        self.scal.append(zs)
        tgt = self.target(dict(jl=True, jk=None))
        self.body.append(self.hloop([assign(tgt, BIN('add', BIN('mul', tgt, rlit(Fraction(1, 2))), V(zs)))]))

    def item_cond(self):
        """a conditional on loop-invariant data around a horizontal loop"""
        rng = self.rng
        if not self.scal:
            return
        ctx = dict(jl=True, jk=None)
        body = self.col_stmts(ctx, rng.randint(1, 2), allow_def=False)
        if not body:
            return
        c = BIN(rng.choice(('gt', 'lt')), V(rng.choice(self.scal)), rlit(rng.choice(LITS)))
        self.body.append(ifte(c, [self.hloop(body)], []))

    def item_call(self, g=None):
        rng, dc = self.rng, self.dc
        if not self.callees:
            return
        g = g or rng.choice(self.callees)
        args = [V(dc['lo']), V(dc['hi']), V(dc['size']), V(dc['nz'])]
        used = set()
        # a temporary that buffers values across the call (defined before, read after: must not be demoted)
        buf = None
        und1 = [t for t in self.tmp_undef if t[1] == 't1']
        if self.buffer and (self.arr1 or self.arr2):
            buf = (self.buffer, 't1')
            self.buffer = None
        elif und1 and (self.arr1 or self.arr2) and rng.random() < 0.6:
            buf = rng.choice(und1)
            self.tmp_undef.remove(buf)
        if buf is not None:
            src = [IDX(a, V(dc['index'])) for a in self.arr1] + [IDX(a, V(dc['index']), ilit(1)) for a in self.arr2]
            # column dependent value (so that a wrongly demoted buffer is visible)
            self.body.append(self.hloop([assign(IDX(buf[0], V(dc['index'])),
                                                BIN('add', BIN('mul', rng.choice(src), rlit(rng.choice(POW2))), rlit(rng.choice(LITS))))]))
            self.arr1.append(buf[0])
            self.wr1.append(buf[0])
        locals_ = {str(d[1]) for d in self.decls if str(d[3]) == 'none'}
        for (x, rank, intent) in g['arrays']:
            pool = self.arr2 if rank == 2 else self.arr1
            wpool = self.wr2 if rank == 2 else self.wr1
            cand = [a for a in (pool if intent == 'in' else wpool) if a not in used and (buf is None or a != buf[0])]
            if not cand:
                return
            loc = [a for a in cand if a in locals_]
            a = rng.choice(loc) if loc and rng.random() < 0.5 else rng.choice(cand)
            used.add(a)
            args.append(V(a))
        # an array written by the callee must not be passed twice / read through another dummy
        if g['scalar']:
            args.append(V(rng.choice(self.scal)) if self.scal else rlit(rng.choice(LITS)))
        self.body.append(callsub(g['name'], *args))
        if buf is not None and (self.wr1 or self.wr2):
            JL = V(dc['index'])
            tgt = self.target(dict(jl=True, jk=None))
            if not (h(tgt) == 'idx' and str(tgt[1]) == buf[0]):
                self.body.append(self.hloop([assign(tgt, BIN('add', IDX(buf[0], JL), BIN('mul', tgt, rlit(Fraction(1, 2)))))]))

    def build(self):
        rng = self.rng
        self.setup()
        if self.forced_t2:
            dc = self.dc
            JL, JK = V(dc['index']), V(dc['jk'])
            self.body.append(do(dc['jk'], ilit(1), V(dc['nz']),
                                [self.hloop([assign(IDX('ztq', JL, JK), self.expr(dict(jl=True, jk='var', jkmin=1), 1))])]))
            self.arr2.append('ztq')
            self.wr2.append('ztq')
        n = rng.randint(*self.g['items'])
        w = dict(self.g['weights'])
        if not self.flat and rng.random() < self.g.get('force_hreduce', 0.0):
            self.item_hreduce(force_local=True)
        if self.flat:
            w = dict(hloop=1)
        kinds = list(w)
        for _ in range(n):
            k = rng.choices(kinds, [w[x] for x in kinds])[0]
            getattr(self, 'item_' + k)()
        if not any(h(s) in ('do', 'if', 'assign') for s in self.body):
            self.item_hloop()
        if self.callees and not any(h(s) == 'callsub' for s in self.body):
            self.item_call()
        if self.g.get('call_all'):
            for g_ in self.callees:
                if not any(h(s) == 'callsub' and str(s[1]) == g_['name'] for s in iter_all(self.body)):
                    self.item_call(g_)
        # every kernel touches its first inout array so that it is observable
        if self.wr2 or self.wr1:
            self.item_hloop()
        args = [self.dc['lo'], self.dc['hi'], self.dc['size'], self.dc['nz']] + [a[0] for a in self.sig['arrays']] \
            + ([self.sig['scalar']] if self.sig['scalar'] else [])
        return [A('unit'), A(self.name), [A(a) for a in args], self.decls, self.body]


def iter_all(stmts):
    for s in stmts:
        yield s
        k = h(s)
        if k == 'do':
            yield from iter_all(s[5])
        elif k == 'if':
            yield from iter_all(s[2])
            yield from iter_all(s[3])


def gen_sig(rng, name):
    n2 = rng.randint(1, 2)
    n1 = rng.randint(0, 2)
    arrays = []
    for k in range(n2):
        arrays.append((f'p{name[-1]}f{k + 1}', 2, 'inout' if k == 0 else rng.choice(('in', 'inout'))))
    for k in range(n1):
        arrays.append((f'p{name[-1]}g{k + 1}', 1, rng.choice(('in', 'inout', 'inout'))))
    scalar = f'p{name[-1]}c' if rng.random() < 0.5 else None
    return dict(name=name, arrays=arrays, scalar=scalar)


def gen_tree_candidate(rng, gcfg):
    dci = rng.randrange(len(DIMCFGS))
    dc = DIMCFGS[dci]
    diamond = gcfg.get('shape') == 'diamond'
    nk = 4 if diamond else rng.choice((1, 2, 2, 3)) if tuple(gcfg['n_kernels']) == (1, 3) else rng.randint(*gcfg['n_kernels'])
    sigs = [gen_sig(rng, f'kern{k + 1}') for k in range(nk)]
    if diamond:
        # every kernel of the diamond gets the array signature of kern1 (renamed), so that every edge can be realised by a call
        for k in range(1, nk):
            sigs[k]['arrays'] = [(f'p{k + 1}' + x[2:], rank, intent) for (x, rank, intent) in sigs[0]['arrays']]
    units = []
    full_range = False
    for k in range(nk):
        callees = sigs[k + 1:] if k + 1 < nk else []
        if diamond:
            # kern1 -> {kern2, kern3} -> kern4 (shared nested callee with temporaries), every edge realised by a call
            callees = [sigs[1], sigs[2]] if k == 0 else [sigs[3]] if k in (1, 2) else []
        elif callees and k == 0 and nk == 3 and rng.random() < 0.5:
            callees = sigs[1:2]          # chain kern1 -> kern2 -> kern3
        flat = (not callees) and rng.random() < gcfg.get('flat', 0.0)
        kg = KernelGen(rng, dc, sigs[k]['name'], sigs[k], callees, dict(gcfg, call_all=True, force_t2=True) if diamond else gcfg,
                       flat=flat)
        units.append(kg.build())
        full_range = full_range or kg.full_range
    # driver
    S, NZ, NB, B = V(dc['size']), V(dc['nz']), V(dc['nb']), V(dc['b'])
    s1 = sigs[0]
    decls = [decl(dc['size'], 'int', 'in'), decl(dc['nz'], 'int', 'in'), decl(dc['nb'], 'int', 'in')]
    dargs = [dc['size'], dc['nz'], dc['nb']]
    fields = []
    for (x, rank, intent) in s1['arrays']:
        f = 'f' + x[2:]
        dims = [(ilit(1), S)] + ([(ilit(1), NZ)] if rank == 2 else []) + [(ilit(1), NB)]
        decls.append(decl(f, 'real', 'inout' if intent != 'in' else rng.choice(('in', 'inout')), dims))
        dargs.append(f)
        fields.append((f, rank, intent))
    if s1['scalar']:
        decls.append(decl('pc', 'real', 'in'))
        dargs.append('pc')
    decls += [decl(dc['b'], 'int'), decl(dc['lo'], 'int'), decl(dc['hi'], 'int')]
    body = []
    lo_e, hi_e = ilit(1), S
    if rng.random() < gcfg['partial_range'] and not full_range:
        if rng.random() < 0.5:
            lo_e = ilit(2)
        else:
            hi_e = BIN('sub', S, ilit(1))
    body.append(assign(V(dc['lo']), lo_e))
    body.append(assign(V(dc['hi']), hi_e))

    def kcall():
        args = [V(dc['lo']), V(dc['hi']), S, NZ]
        for (f, rank, intent) in fields:
            args.append(SEC(f, RNG(), RNG(), AT(B)) if rank == 2 else SEC(f, RNG(), AT(B)))
        if s1['scalar']:
            args.append(V('pc'))
        return callsub('kern1', *args)
    lbody = []
    wfields = [f for f in fields if f[2] != 'in']
    if rng.random() < gcfg['driver_loop'] and wfields:
        decls.append(decl(dc['index'], 'int'))
        f = rng.choice(wfields)
        JL = V(dc['index'])
        el = IDX(f[0], JL, ilit(1), B) if f[1] == 2 else IDX(f[0], JL, B)
        st = do(dc['index'], V(dc['lo']), V(dc['hi']), [assign(el, BIN('add', BIN('mul', el, rlit(Fraction(1, 2))), rlit(rng.choice(LITS))))])
        if rng.random() < 0.5:
            lbody.append(st)
            lbody.append(kcall())
        else:
            lbody.append(kcall())
            lbody.append(st)
    else:
        lbody.append(kcall())
    if rng.random() < gcfg['two_calls']:
        lbody.append(kcall())
    body.append(do(dc['b'], ilit(1), NB, lbody))
    drv = [A('unit'), A('driver'), [A(a) for a in dargs], decls, body]
    prog = fir.canon([A('program'), A('driver'), drv] + units)
    return dci, prog


def seq_assoc(prog):
    """`f(:, :, b)` actuals -> `f(lb1, lb2, b)` (sequence association of a contiguous trailing-index section with an
    explicit-shape dummy: the same storage); needed because the FIR interpreters have no section actuals."""
    prog = fir.canon(prog)
    out = [prog[0], prog[1]]
    for u in prog[2:]:
        bounds = {str(d[1]): d[4] for d in u[3]}

        def fs(ss, bounds=bounds):
            res = []
            for s in ss:
                if h(s) == 'callsub':
                    s = s[:2] + [fix(a, bounds) for a in s[2:]]
                res.append(s)
            return res
        pu = fir.map_program([prog[0], prog[1], u], fs=fs)
        out.append(pu[2])
    return fir.canon(out)


def fix(a, bounds):
    if h(a) != 'sec':
        return a
    x = str(a[1])
    dims = a[2:]
    bs = bounds.get(x)
    if bs is None or len(bs) != len(dims):
        return a
    subs = []
    full = True
    for d, b in zip(dims, bs):
        if h(d) == 'rng':
            if not (full and all(str(p) == 'none' for p in d[1:4])):
                return a
            subs.append(b[0])
        else:
            full = False
            subs.append(d[1])
    return IDX(x, *subs)


def gen_tree(rng, gcfg=None, inputs=3, max_extent=4):
    """(dimcfg index, program, input sets): a validated call tree (runs without error on all input sets, exactly representable)"""
    g = dict(DEFAULT_GCFG)
    if gcfg:
        g.update({k: v for k, v in gcfg.items() if k != 'weights'})
        if 'weights' in gcfg:
            g['weights'] = dict(DEFAULT_GCFG['weights'], **gcfg['weights'])
    for attempt in range(40):
        dci, prog = gen_tree_candidate(rng, g)
        ins = fir.gen_inputs(rng, prog, inputs, max_extent=max_extent)
        ok = True
        ps = seq_assoc(prog)
        for i in ins:
            stats = {}
            r = interp(ps, i, stats=stats)
            if r[0] != 'ok' or not fir.exact_in_hardware(stats):
                ok = False
                break
        if ok:
            return dci, prog, ins
    raise RuntimeError('no valid call tree generated')


# ---------------------------------------------------------------------------------------------------------------
# running the real transformations

PIPELINES = ('vvector', 'svector', 'vhoist', 'shoist', 'steps', 'steps-nodemote', 'steps-trim', 'vertical')


def build_pipeline(name, dc):
    from loki.batch import Pipeline
    from loki.transformations import single_column as sc
    hor, ver, blk = dims_of(dc)
    if name == 'vvector':
        return sc.SCCVVectorPipeline(horizontal=hor, vertical=ver, block_dim=blk, directive=False)
    if name == 'svector':
        return sc.SCCSVectorPipeline(horizontal=hor, vertical=ver, block_dim=blk, directive=False)
    if name == 'vhoist':
        return sc.SCCVHoistPipeline(horizontal=hor, vertical=ver, block_dim=blk, directive=False)
    if name == 'shoist':
        return sc.SCCSHoistPipeline(horizontal=hor, vertical=ver, block_dim=blk, directive=False)
    if name in ('steps', 'steps-nodemote', 'steps-trim'):
        return Pipeline(classes=(sc.SCCBaseTransformation, sc.SCCDevectorTransformation, sc.SCCDemoteTransformation,
                                 sc.SCCRevectorTransformation),
                        horizontal=hor, block_dim=blk, demote_local_arrays=(name != 'steps-nodemote'),
                        trim_vector_sections=(name == 'steps-trim'))
    if name == 'vertical':
        return Pipeline(classes=(sc.SCCFuseVerticalLoops, sc.SCCBaseTransformation, sc.SCCDevectorTransformation,
                                 sc.SCCDemoteTransformation, sc.SCCRevectorTransformation),
                        horizontal=hor, vertical=ver, block_dim=blk, apply_to=('kern1', 'kern2', 'kern3'))
    raise ValueError(name)


def apply_scheduler(prog, make_pipeline, extra_files=None, keep=None, caseseed=0):
    """write one file per unit, run the real Scheduler over the tree with the given pipeline / transformation list,
    return {unit name: transformed Subroutine} (in program order) and the scheduler"""
    from loki.batch import Scheduler, SchedulerConfig
    from loki.frontend import FP
    from loki.logging import set_log_level, log_levels
    set_log_level(log_levels['ERROR'])
    d = Path(tempfile.mkdtemp(prefix='c37_'))
    try:
        names = []
        allnames = set()
        for u in prog[2:]:
            allnames |= unit_names(u)
        for k, u in enumerate(prog[2:]):
            name = str(u[1])
            names.append(name)
            (d / f'{name}.F90').write_text(recase('\n'.join(fir.emit_unit(u)), allnames, caseseed and caseseed * 31 + k) + '\n')
        for fn, text in (extra_files or {}).items():
            (d / fn).write_text(text)
        config = {'default': {'mode': 'idem', 'role': 'kernel', 'expand': True, 'strict': True},
                  'routines': {'driver': {'role': 'driver'}}}
        sched = Scheduler(paths=[d], config=SchedulerConfig.from_dict(config), frontend=FP, xmods=[d], seed_routines=['driver'])
        for t in make_pipeline():
            sched.process(t)
        out = {}
        for name in names:
            try:
                out[name] = sched[f'#{name}'].ir
            except Exception:
                pass
        fir._keepalive.append(sched)
        del fir._keepalive[:-16]
        return out, sched
    finally:
        if keep is None:
            shutil.rmtree(d, ignore_errors=True)


def transform(prog, dci, pipeline, caseseed=0):
    dc = DIMCFGS[dci]
    return apply_scheduler(prog, lambda: [build_pipeline(pipeline, dc)], caseseed=caseseed)


def positional_calls(routines):
    """keyword arguments of calls to routines of the tree -> positional arguments in the callee's dummy order (documented
    normalisation before export: FIR calls are positional; SCCSeqRevector passes the horizontal index by keyword)"""
    from loki.ir import FindNodes, CallStatement, Transformer
    for r in routines.values():
        m = {}
        for c in FindNodes(CallStatement).visit(r.body):
            if not c.kwarguments:
                continue
            g = routines.get(str(c.name).lower())
            if g is None:
                continue
            names = [str(a).lower() for a in g.argnames]
            kw = {str(k).lower(): v for k, v in c.kwarguments}
            args = list(c.arguments)
            for x in names[len(args):]:
                if x not in kw:
                    break
                args.append(kw.pop(x))
            if kw:
                continue
            m[c] = c.clone(arguments=tuple(args), kwarguments=())
        if m:
            r.body = Transformer(m).visit(r.body)


def export_tree(routines, main='driver'):
    positional_calls(routines)
    with reductions_exportable():
        units = [fir._x_unit(r) for r in routines.values()]
    return fir.normalize([A('program'), A(main)] + units)


def fgen_tree(routines):
    from loki import fgen
    return '\n\n'.join(fgen(r) for r in routines.values()) + '\n'


# ---------------------------------------------------------------------------------------------------------------
# running Loki's fgen text of a transformed tree with gfortran (same driver / canonical output as fir.run_gfortran)

def run_text_gfortran(prog, text_items, flags=(), timeout=60, prelude='', module=False, nobounds=False):
    """``text_items``: list of (fortran source of the transformed units, inputs); the driver that initialises the dummies,
    calls the main unit and prints the canonical output is generated from the ORIGINAL program ``prog`` (the interface of
    the main unit is unchanged by every transformation considered).  Returns results like fir.run_gfortran."""
    import subprocess
    results = []
    d = Path(tempfile.mkdtemp(prefix='c37_gf_'))
    try:
        for k, (text, inputs) in enumerate(text_items):
            drv = fir.emit_driver(prog, inputs, 'fir_driver', '', 1)
            if module:
                text = 'module c37_units\ncontains\n' + text + '\nend module c37_units\n'
                drv = [drv[0], '  use c37_units'] + drv[1:]
            src = prelude + text + '\n' + '\n'.join(drv) + '\nprogram fir_main\n  implicit none\n  call fir_driver()\nend program fir_main\n'
            f = d / f't{k}.F90'
            f.write_text(src)
            exe = d / f't{k}.x'
            p = subprocess.run([fir.GFORTRAN] + [x for x in fir.GFORTRAN_FLAGS if not (nobounds and x == '-fcheck=bounds')] + list(flags) + ['-o', str(exe), str(f)], cwd=d,
                               stdout=subprocess.PIPE, stderr=subprocess.STDOUT, text=True)
            if p.returncode != 0:
                msg = [l for l in p.stdout.splitlines() if 'Error' in l]
                results.append(('compile-error', (msg[0] if msg else p.stdout[-300:]).strip()))
                continue
            try:
                q = subprocess.run([str(exe)], cwd=d, stdout=subprocess.PIPE, stderr=subprocess.PIPE, text=True, timeout=timeout)
            except subprocess.TimeoutExpired:
                results.append(('timeout',))
                continue
            runs = fir._split_runs(q.stdout)
            if q.returncode != 0 or 1 not in runs or not runs[1][1]:
                err = (q.stderr.strip().splitlines() or ['run-time failure'])
                results.append(('error', err[0][:200]))
                continue
            results.append(fir.parse_canonical(runs[1][0]))
        return results
    finally:
        shutil.rmtree(d, ignore_errors=True)


# ---------------------------------------------------------------------------------------------------------------
# checks on a transformed tree

def call_mismatches(routines):
    """calls to routines of the tree whose actual arguments do not bind to the callee's dummies one to one with equal
    type and compatible rank (positional then keyword, Fortran rules)"""
    from loki.ir import FindNodes, CallStatement
    from loki.expression import symbols as sym
    out = []
    for r in routines.values():
        for c in FindNodes(CallStatement).visit(r.body):
            g = routines.get(str(c.name).lower())
            if g is None:
                continue
            names = [str(a).lower() for a in g.argnames]
            bound = {}
            msg = None
            if len(c.arguments) > len(names):
                msg = 'too many arguments'
            for x, a in zip(names, c.arguments):
                bound[x] = a
            for k, v in (c.kwarguments or ()):
                k = str(k).lower()
                if k in bound:
                    msg = f'dummy {k} bound twice'
                elif k not in names:
                    msg = f'no dummy {k}'
                bound[k] = v
            for x in names:
                if x not in bound:
                    msg = msg or f'dummy {x} not bound'
            if msg is None:
                for x, a in bound.items():
                    d = g.variable_map.get(x)
                    dty = getattr(getattr(d, 'type', None), 'dtype', None)
                    aty = getattr(getattr(a, 'type', None), 'dtype', None)
                    if dty is not None and aty is not None and isinstance(a, (sym.Scalar, sym.Array)) and dty != aty:
                        msg = f'actual {a} of type {aty} for dummy {x} of type {dty}'
                        break
                    drank = len(getattr(d, 'shape', None) or ())
                    if isinstance(a, sym.Array):
                        if a.dimensions:
                            arank = sum(1 for i in a.dimensions if isinstance(i, sym.RangeIndex))
                            elem = arank == 0
                        else:
                            arank, elem = len(a.shape or ()), False
                        if drank == 0 and arank > 0:
                            msg = f'array actual {a} for scalar dummy {x}'
                            break
                    elif drank > 0 and isinstance(a, (sym.Scalar, sym.IntLiteral, sym.FloatLiteral)):
                        msg = f'scalar actual {a} for array dummy {x}'
                        break
            if msg:
                out.append(f'call {c.name} in {r.name}: {msg}')
    return out


def empty_range(prog, inputs):
    """some input set makes the horizontal iteration range empty (decidable: evaluates the two driver assignments)"""
    drv = prog[2]
    dci = None
    vals = {}
    for row in inputs:
        if len(row) == 2:
            try:
                vals[str(row[0])] = fir.decode_val(row[1])
            except Exception:
                pass
    lo = hi = None
    for s in drv[4][:2]:
        if h(s) == 'assign' and h(s[1]) == 'v':
            e = s[2]
            if h(e) == 'i':
                v = int(str(e[1]))
            elif h(e) == 'v':
                v = vals.get(str(e[1]))
            elif h(e) == 'bin' and h(e[2]) == 'v' and h(e[3]) == 'i':
                v = vals.get(str(e[2][1]))
                v = None if v is None else (v - int(str(e[3][1])) if str(e[1]) == 'sub' else v + int(str(e[3][1])))
            else:
                v = None
            if lo is None:
                lo = v
            else:
                hi = v
    return lo is not None and hi is not None and lo > hi


# ---------------------------------------------------------------------------------------------------------------
# flat kernels: Python mirror of LokiModel.C37.Model.flatKernel / Frame.columnLocal (decides `excluded`)

def _cl_e(e, jl, wt):
    k = h(e)
    if k in ('i', 'r', 'b', 'v'):
        return True
    if k == 'idx':
        a = str(e[1])
        subs = e[2:]
        if a in wt and not (subs and h(subs[0]) == 'v' and str(subs[0][1]) == jl):
            return False
        return all(_cl_e(s, jl, wt) for s in subs)
    if k == 'sec':
        return False
    if k in ('neg', 'not'):
        return _cl_e(e[1], jl, wt)
    if k == 'bin':
        return _cl_e(e[2], jl, wt) and _cl_e(e[3], jl, wt)
    if k == 'call':
        return all(_cl_e(s, jl, wt) for s in e[2:])
    return False


def _cl_stmt(s, jl, wt):
    if h(s) != 'assign' or h(s[1]) != 'idx':
        return False
    lhs = s[1]
    subs = lhs[2:]
    if not (subs and h(subs[0]) == 'v' and str(subs[0][1]) == jl):
        return False
    return str(lhs[1]) in wt and all(_cl_e(x, jl, wt) for x in subs[1:]) and _cl_e(s[2], jl, wt)


def column_local(jl, stmts):
    wt = [str(s[1][1]) for s in stmts if h(s) == 'assign' and h(s[1]) == 'idx']
    return jl not in wt and all(_cl_stmt(s, jl, wt) for s in stmts)


def flat_kernel(cfg, unit):
    jl, lo, hi, size = cfg
    bodies = []
    for s in unit[4]:
        if not (h(s) == 'do' and str(s[1]) == jl and h(s[2]) == 'v' and str(s[2][1]) == lo and h(s[3]) == 'v'
                and str(s[3][1]) == hi and str(s[4]) == 'none' and len(s[5]) > 0):
            return False
        bodies += s[5]
    if not bodies or not column_local(jl, bodies) or lo == jl or hi == jl:
        return False
    wt = [str(s[1][1]) for s in bodies]
    if lo in wt or hi in wt:
        return False
    args = [str(a) for a in unit[2]]
    for d in unit[3]:
        name, ty, intent, dims, param = fir.decl_fields(d)
        if name in args or not dims:
            continue
        d0 = dims[0]
        if not (dumps(d0[0]) == '(i 1)' and h(d0[1]) == 'v' and str(d0[1][1]) == size):
            return False
        for b in dims[1:]:
            if not (dumps(b[0]) == '(i 1)' and h(b[1]) == 'i'):
                return False
    return True


def drop_nops(unit):
    p = fir.map_program([A('program'), unit[1], unit], fs=lambda ss: [s for s in ss if h(s) != 'nop'])
    return fir.canon(p)[2]


def real_flat(cfg, unit, caseseed=0):
    """the real SCCBase + SCCDevector + SCCDemote + SCCRevector chain on one kernel (role='kernel'), exported"""
    from loki import Dimension
    from loki.transformations import single_column as sc
    jl, lo, hi, size = cfg
    hor = Dimension(name='horizontal', size=size, index=jl, bounds=(lo, hi))
    sf = fir.parse_fortran(recase('\n'.join(fir.emit_unit(unit)), unit_names(unit), caseseed) + '\n')
    r = sf.subroutines[0]
    for t in (sc.SCCBaseTransformation(horizontal=hor), sc.SCCDevectorTransformation(horizontal=hor),
              sc.SCCDemoteTransformation(horizontal=hor), sc.SCCRevectorTransformation(horizontal=hor)):
        t.apply(r, role='kernel')
    return fir.normalize([A('program'), unit[1], fir._x_unit(r)])[2]


def gen_flat(rng):
    dci = rng.randrange(len(DIMCFGS))
    dc = DIMCFGS[dci]
    g = dict(DEFAULT_GCFG, items=(2, 4), temps=(0, 3))
    for attempt in range(20):
        sig = gen_sig(rng, 'kern1')
        sig['scalar'] = sig['scalar'] if rng.random() < 0.5 else None
        flat = rng.random() < 0.8
        kg = KernelGen(rng, dc, 'kern1', sig, [], g, flat=flat)
        u = kg.build()
        prog = fir.canon([A('program'), A('kern1'), u])
        ins = fir.gen_inputs(rng, prog, 2, max_extent=4)
        # bounds variables are inputs here: make the range sensible
        ok = True
        fixed = []
        for i in ins:
            vals = {str(r[0]): r for r in i}
            n = int(str(vals[dc['size']][1][1]))
            lo_v = rng.randint(1, n)
            hi_v = rng.randint(lo_v, n)
            i = [[r[0], I(lo_v)] if str(r[0]) == dc['lo'] else ([r[0], I(hi_v)] if str(r[0]) == dc['hi'] else r) for r in i]
            i = fir.canon(i)
            st = {}
            res = interp(prog, i, stats=st)
            if res[0] != 'ok' or not fir.exact_in_hardware(st):
                ok = False
                break
            fixed.append(i)
        if ok:
            return [dc['index'], dc['lo'], dc['hi'], dc['size']], prog[2], fixed
    raise RuntimeError('no flat kernel')


# ---------------------------------------------------------------------------------------------------------------
# the property

K_SHOIST = 'shoist-hoisted-argument-order'
SEQ_PIPELINES = ('svector', 'shoist')


def has_colon_reduction(prog):
    """some kernel contains `MAXVAL|MINVAL|SUM(a(:))` (decidable on the request)"""
    found = []

    def fe(e):
        if h(e) == 'call' and str(e[1]) in REDUCTIONS and len(e) == 3 and h(e[2]) == 'sec' \
                and all(h(d) == 'rng' and all(str(x) == 'none' for x in d[1:4]) for d in e[2][2:]):
            found.append(1)
        return e
    fir.map_program(fir.canon(prog), fe=fe)
    return bool(found)
K_EMPTY = 'empty-range-undefined-scalar'

_cache = {}


def _transformed(req):
    caseseed = int(str(req[6])) if len(req) > 6 else 0
    key = dumps(req[:4] + [caseseed])
    if key not in _cache:
        if len(_cache) > 8:
            _cache.clear()
        pipeline, dci, prog = str(req[1]), int(str(req[2])), req[3]
        try:
            routines, sched = transform(prog, dci, pipeline, caseseed=caseseed)
            _cache[key] = ('ok', routines)
        except Exception as e:      # pylint: disable=broad-except
            _cache[key] = ('raise', f'{type(e).__name__}: {str(e)[:160]}')
    return _cache[key]


def check_tree(prog, ins, routines, pipeline, gf, flags=(), prelude='', text_only=False):
    """compare original and transformed tree; list of (what, class-or-None)"""
    out = []
    mm = call_mismatches(routines)
    if mm:
        cls = K_SHOIST if (pipeline == 'shoist' and all('bound twice' in m for m in mm)) else None
        return [('call site does not match the callee: ' + '; '.join(mm[:2]), cls)]
    ps = seq_assoc(prog)
    p1 = None
    if not text_only:
        try:
            p1 = export_tree(routines)
        except fir.Unsupported as e:
            p1 = None
            unsupported = e.kind
    refs = []
    if p1 is not None:
        p1s = seq_assoc(p1)
        for i in ins:
            st = {}
            r0 = interp(ps, i, stats=st)
            refs.append((r0, st))
            r1 = interp(p1s, i)
            d = fir.compare_results(r0, r1)
            if d:
                cls = K_EMPTY if (empty_range(prog, i) and r0[0] == 'ok' and r1[0] == 'error') else None
                out.append((f'interpreter: original vs transformed differ: {d}', cls))
                break
    if gf and not out:
        items0 = [(prog, i) for i in ins]
        if p1 is not None:
            res = fir.run_gfortran(items0 + [(p1, i) for i in ins])
            r0s, r1s = res[:len(ins)], res[len(ins):]
        else:
            r0s = fir.run_gfortran(items0)
            text = fgen_tree(routines)
            r1s = run_text_gfortran(prog, [(text, i) for i in ins], flags=flags, prelude=prelude)
        for i, a, b in zip(ins, r0s, r1s):
            if a[0] != 'ok':
                out.append((f'gfortran: original program failed: {a}', None))
                break
            d = fir.compare_results(a, b, undef_wild=False)
            if d:
                out.append((f'gfortran: original vs transformed differ: {d}', None))
                break
    elif p1 is None and not gf and not text_only:
        pass
    return out


class C37(Prop):
    id = 'C37'
    title = 'Single-column (SCC) pipelines preserve driver and kernel results'
    model_modules = ['LokiModel.C37.Model', 'LokiModel.C37.Enc']
    props_module = 'LokiModel.Props.C37'
    findings_module = 'LokiModel.Findings.C37'
    driver = 'Drivers/C37.lean'
    theorems = ['column_local_fusion', 'column_steps_commute', 'column_local_eval_frame', 'scc_flat_two_loops_sound_partial']
    design_ref = 'DESIGN.md 4.F C37'
    level = 'proof'
    level_text = ('Proved at full strength (Lean 4, universally quantified over programs, bodies, bounds, states, fuel; FIR reference '
                  'semantics): column_local_fusion (two successive horizontal loops over column-local bodies = the fused loop, exact '
                  'final state), via column_steps_commute (iteration steps of different columns commute) and column_local_eval_frame. '
                  'scc_flat_two_loops_sound_partial: the modelled Base+Devector+Demote+Revector output of a flat kernel with two loops '
                  'and no local arrays preserves the final state (partial: n-ary fusion and demotion of temporaries (demote_sound) are NOT '
                  'proved). Correspondence: the Lean model of the chain on flat kernels equals the real chain (exported, comments/pragmas '
                  'dropped). Everything else of the property (all pipeline variants on generated driver/kernel call trees, vertical loops, '
                  'nested kernels, hoisting, sequential variants) is covered by the direct oracle only: original vs really transformed '
                  'tree run by the Python FIR interpreter (every run) and by gfortran (thorough tier).')
    level_note = ('Trusted: FIR reference semantics (Sem.lean) as the meaning of the Fortran subset, tied to gfortran by harness/fir '
                  'self-tests; the exporter Loki IR -> FIR; the Python interpreter. The SCC transformations themselves are modelled only '
                  'for flat kernels; their behaviour on general kernels is tested, not verified.')
    technique = 'Lean 4 theorems about the FIR semantics + a model of the SCC chain on flat kernels + correspondence + direct oracle on real pipelines via the real Scheduler'
    rule = ('scc stream: generated IFS-style driver/kernel call trees (3 dimension-name configurations; block loop, 1-3 kernels, nested '
            'calls, vertical loops inside/outside horizontal loops, vector notation, temporaries of shapes (n), (n,nz), (n,2), private '
            'scalars, conditionals, reductions, partial and empty horizontal ranges), one pipeline variant per case, 3 input sets; '
            'flat stream: single kernels, 80% in the flat class of the model; strengthening round: random letter case per occurrence of '
            'every name in the sources given to Loki (request field caseseed), a reserved temporary buffering values across a '
            'nested-kernel call, horizontal reductions MAXVAL/MINVAL/SUM on whole arrays and sections between two horizontal loops '
            '(vector-type pipelines), diamond call trees; distinct = distinct request')
    trusted_base = ['harness/fir.py exporter and interpreter', 'gfortran 12.2 (thorough tier)']
    assumptions = ['documented SCC precondition: no dependencies across the horizontal dimension (generated trees satisfy it)']
    extra_obligations = ['flat-kernel chain correspondence']

    def classes(self):
        return [K_SHOIST, K_EMPTY]

    def gen(self, rng, tier):
        n_scc, n_flat, gf = {'quick': (14, 10, 0), 'thorough': (60, 40, 1), 'search': (30, 20, 0)}.get(tier, (14, 10, 0))
        pipes = list(PIPELINES)
        colon = True      # `a(:)` arguments of reductions: repaired in /repo (fix wave 5), generated unconditionally
        for k in range(n_flat):
            cfg, unit, ins = gen_flat(rng)
            cs = rng.randint(1, 10 ** 6) if k % 2 else 0
            yield Case([A('flat'), [A(x) for x in cfg], unit, ins, cs], stream='flat', nontrivial=flat_kernel(cfg, fir.canon(unit)))
        for k in range(n_scc):
            pl = pipes[k % len(pipes)] if k < 2 * len(pipes) else rng.choice(pipes)
            # horizontal reductions by array intrinsics only for the vector-type pipelines (a sequential kernel sees one
            # column: "Vector reductions are not applicable to sequential routines", revector.py)
            g = dict(weights=dict(hreduce=2), colon_form=colon, force_hreduce=0.5) if pl not in SEQ_PIPELINES else None
            dci, prog, ins = gen_tree(rng, g)
            # mixed letter case per occurrence of every name (IFS style) in two of three cases
            cs = rng.randint(1, 10 ** 6) if k % 3 else 0
            yield Case([A('scc'), A(pl), dci, prog, ins, gf, cs], stream=pl)

    def impl(self, req):
        kind = str(req[0])
        if kind == 'scc':
            return [A('result'), A('oracle-only')]
        if kind == 'flat':
            cfg = [str(x) for x in req[1]]
            unit = fir.canon(req[2])
            if not flat_kernel(cfg, unit):
                return [A('result'), A('excluded')]
            return [A('result'), drop_nops(real_flat(cfg, unit, int(str(req[4])) if len(req) > 4 else 0))]
        raise ValueError('bad request')

    def oracle(self, req):
        kind = str(req[0])
        if kind == 'flat':
            cfg = [str(x) for x in req[1]]
            unit = fir.canon(req[2])
            ins = req[3]
            try:
                u1 = real_flat(cfg, unit, int(str(req[4])) if len(req) > 4 else 0)
            except Exception as e:      # pylint: disable=broad-except
                return [Failure(f'SCC chain raised {type(e).__name__}: {str(e)[:160]}', None)]
            p0 = [A('program'), unit[1], unit]
            p1 = [A('program'), unit[1], u1]
            for i in ins:
                r0, r1 = interp(p0, i), interp(p1, i)
                d = fir.compare_results(r0, r1)
                if d:
                    return [Failure(f'flat kernel: original vs transformed differ: {d}', None)]
            return []
        if kind == 'scc':
            pipeline, dci, prog, ins = str(req[1]), int(str(req[2])), req[3], req[4]
            gf = int(str(req[5])) if len(req) > 5 else 0
            if len(req) not in (6, 7) or h(prog) != 'program':
                raise ValueError('malformed request')
            ps = seq_assoc(prog)
            for i in ins:
                if interp(ps, i)[0] != 'ok':
                    raise ValueError('the original call tree does not run on its inputs (malformed request)')
            st, val = _transformed(req)
            if st == 'raise':
                return [Failure(f'pipeline {pipeline} raised {val}', None)]
            return [Failure(w, c) for w, c in check_tree(prog, ins, val, pipeline, gf)]
        raise ValueError('bad request')

    def shrink_candidates(self, req):
        """structure preserving: fewer input sets, then one top-level statement of one kernel removed"""
        if str(req[0]) != 'scc':
            return
        ins = req[4]
        for k in range(len(ins)):
            if len(ins) > 1:
                yield req[:4] + [ins[:k] + ins[k + 1:]] + req[5:]
        prog = req[3]
        for ui in range(3, len(prog)):
            u = prog[ui]
            for k in range(len(u[4])):
                u2 = u[:4] + [u[4][:k] + u[4][k + 1:]]
                yield req[:3] + [prog[:ui] + [u2] + prog[ui + 1:]] + req[4:]

    def post(self, cases, impl_out, model_raw, oracle_fail):
        # theorem domain vs oracle: a kernel inside the flat class must pass the oracle
        bad = [c for c, f in oracle_fail if str(c.req[0]) == 'flat' and not f.error and flat_kernel([str(x) for x in c.req[1]], fir.canon(c.req[2]))]
        problems = [f'flat kernel inside the modelled class fails the oracle: {c.line[:160]}' for c in bad[:3]]
        n_in = sum(1 for c in cases if str(c.req[0]) == 'flat' and c.nontrivial)
        return problems, dict(flat_in_class=n_in)


PROP = C37()
READY = True
