"""C43 — lint auto-fix changes only what the fixed rules target."""
import atexit
import re
import shutil
import sys
import tempfile
from pathlib import Path

from loki import Sourcefile, FindNodes
from loki import ir
from loki.frontend import FP
from loki.lint import Linter, Reporter, DefaultHandler

from ..core import Prop, Case, Failure, REPO, VERIF
from ..sexpr import A

if str(REPO / 'lint_rules') not in sys.path:
    sys.path.insert(0, str(REPO / 'lint_rules'))
from lint_rules import ifs_coding_standards_2011 as ifs_rules      # noqa: E402  pylint: disable=wrong-import-position
from lint_rules import debug_rules                                   # noqa: E402  pylint: disable=wrong-import-position

OPRULE = ifs_rules.Fortran90OperatorsRule
UBRULE = debug_rules.DynamicUboundCheckRule

SYMS = {'eq': '==', 'ne': '/=', 'lt': '<', 'le': '<=', 'gt': '>', 'ge': '>='}
CLASSES = ['ops-span-heuristic', 'ops-lookalike-in-literal',
           'ops-unparsed-statement', 'ops-mixed-spelling-in-node', 'ops-same-op-on-several-lines',
           'fix-header-continuation-lost', 'fix-comment-displaced', 'fix-nested-report-skipped',
           'fix-literal-requoted', 'fix-while-loop-regenerated', 'ubound-fix-reformats-statements',
           'ubound-removes-other-code', 'ubound-not-an-ubound-check']
# repaired by fix: commits (status "fixed" in known_findings.json; a recurrence is a VIOLATION): ops-fix-raises,
# ops-nonlower-spelling; by e7bf38f (C03, inline-IF action statement source): ubound-inline-if-duplicated

_TMP = None


def tmpdir():
    global _TMP  # pylint: disable=global-statement
    if _TMP is None or not _TMP.exists():
        base = VERIF / '.work'
        base.mkdir(exist_ok=True)
        _TMP = Path(tempfile.mkdtemp(prefix='c43_', dir=str(base)))
        atexit.register(shutil.rmtree, str(_TMP), ignore_errors=True)
    return _TMP


def lean_str(s):
    return '"' + s.replace('\\', '\\\\').replace('"', '\\"').replace('\n', '\\n') + '"'


# ------------------------------------------------------------------ SPEC mirror (LokiModel/C43/Model.lean part S)

def step(st, c):
    if c == '\n':
        return 'code'
    if st == 'com':
        return 'com'
    if st.startswith('str'):
        return 'code' if c == st[3] else st
    if c == '!':
        return 'com'
    if c in '\'"':
        return 'str' + c
    return 'code'


def toks(text, st='code'):
    out, i, n = [], 0, len(text)
    while i < n:
        c = text[i]
        if st == 'code' and c == '.' and i + 3 < n and text[i + 3] == '.' and text[i + 1:i + 3].lower() in SYMS \
                and text[i + 1:i + 3].isascii():
            out.append(('op', SYMS[text[i + 1:i + 3].lower()], text[i:i + 4]))
            i += 4
            continue
        out.append(('ch', st, c))
        st = step(st, c)
        i += 1
    return out


def spec_viol(text):
    return [(t[1], t[2]) for t in toks(text) if t[0] == 'op']


def spec_fix(text):
    return ''.join(t[1] if t[0] == 'op' else t[2] for t in toks(text))


def prot_text(text):
    return ''.join(t[2] for t in toks(text) if t[0] == 'ch' and t[1] != 'code')


def str_text(text):
    return ''.join(t[2] for t in toks(text) if t[0] == 'ch' and t[1].startswith('str'))


def code_text(text):
    """code characters only (operator tokens in their original spelling)"""
    return ''.join(t[2] for t in toks(text) if t[0] == 'op' or t[1] == 'code')


def sem_tokens(text):
    """relational operators in either spelling + the other non-blank code characters (lower case), literals verbatim"""
    out, ts, i = [], toks(text), 0
    while i < len(ts):
        t = ts[i]
        if t[0] == 'op':
            out.append(('rel', t[1]))
            i += 1
            continue
        _, st, c = t
        if st != 'code':
            if st != 'com':
                out.append(('lit', c))
            i += 1
            continue
        nxt = ts[i + 1][2] if i + 1 < len(ts) and ts[i + 1][0] == 'ch' and ts[i + 1][1] == 'code' else ''
        if c == '=' and nxt == '>':
            out += [('c', '='), ('c', '>')]
            i += 2
        elif c + nxt in ('==', '/=', '<=', '>='):
            out.append(('rel', c + nxt))
            i += 2
        elif c in '<>':
            out.append(('rel', c))
            i += 1
        else:
            if not c.isspace() and c != '&' and c != '!':
                out.append(('c', c.lower()))
            i += 1
    return out


# ------------------------------------------------------------------ known-class predicates (mirrors of the Lean `Known…`)

def has_op_text(s):
    return any(s[i] == '.' and s[i + 3] == '.' and s[i + 1:i + 3].lower() in SYMS for i in range(len(s) - 3))


def known_nonlower(text):
    return any(sp != sp.lower() for _, sp in spec_viol(text))


def known_literal(text):
    s = str_text(text)
    return any(c in s for c in '<>=') or has_op_text(s)


def known_unparsed(text):
    for line in text.split('\n'):
        if re.match(r'\s*(print|write|read)\b', line, re.I) and spec_viol(line):
            return True
    return False


def has_f90_rel(code):
    return any(c in code for c in '<>') or '==' in code or '/=' in code


def known_mixed(nodes):
    for _, src, _, _ in nodes:
        if spec_viol(src) and has_f90_rel(''.join(t[2] for t in toks(src) if t[0] == 'ch' and t[1] == 'code')):
            return True
    return False


def known_several(nodes):
    for _, src, _, _ in nodes:
        for sym in SYMS.values():
            lines = [l for l in src.split('\n') if any(s == sym for s, _ in spec_viol(l))]
            if len(lines) > 1:
                return True
    return False


def py_source_find(src, expr):
    """mirror of `sourceFind` (itself the model of Source.find)"""
    s, t = expr.lower(), src.lower()
    if not src:
        return None
    if s in t:
        return (t.find(s), t.find(s) + len(s))
    parts = s.split()
    if parts and parts[0] in t and all(p in t for p in parts):
        return (t.find(parts[0]), t.find(parts[-1]) + len(parts[-1]))
    return None


def known_span(nodes):
    return any(e.lower() not in src.lower() and py_source_find(src, e) is not None for _, src, e, _ in nodes)


def squash(text):
    out = []
    for t in toks(text):
        if t[0] == 'op':
            out.append(t[2].lower())
        elif t[1] == 'code':
            if not t[2].isspace() and t[2] != '&':
                out.append(t[2].lower())
        elif t[1].startswith('str'):
            out.append(t[2])
    return ''.join(out)


def reported_ranges(nodes, reports):
    rl = {l for _, _, l in reports}
    return [(l0, l0 + s.count('\n')) for l0, s, _, _ in nodes if l0 in rl]


def strictly_inside(q, r):
    return (r[0] < q[0] and q[1] <= r[1]) or (r[0] <= q[0] and q[1] < r[1])


def rewritten_lines(nodes, reports, nlines):
    """mirror of `rewritten`: lines of a reported node that do not belong to a nested node with comparisons of its own"""
    rr = reported_ranges(nodes, reports)
    allr = [(l0, l0 + s.count('\n')) for l0, s, _, _ in nodes]
    out = set()
    for i in range(1, nlines + 1):
        for r in rr:
            if r[0] <= i <= r[1] and not any(strictly_inside(m, r) and m[0] <= i <= m[1] for m in allr):
                out.add(i)
    return out


def fix_lines(src, lines_to_fix):
    """mirror of `fixLines`: the selected lines fixed as the specification says, the others copied"""
    return '\n'.join(spec_fix(l) if i in lines_to_fix else l for i, l in enumerate(src.split('\n'), 1))


def line_code(l):
    return ''.join(t[2] for t in toks(l) if t[0] == 'op' or (t[1] == 'code' and t[2] != '!')).rstrip().lower()


def line_kw(kw, l):
    return re.match(rf'\s*{kw}(?![A-Za-z0-9_])', l, re.I) is not None


def starts_if(l):
    return re.match(r'\s*if\s*\(', l, re.I) is not None


def is_frame_line(l):
    """SUBROUTINE / END SUBROUTINE lines and statements the frontend keeps as text: regenerated by every fix"""
    return any(line_kw(k, l) for k in ('implicit', 'print', 'write', 'read', 'subroutine')) or \
        re.match(r'\s*end\s+subroutine\b', l, re.I) is not None or is_inline_if(l)


def is_inline_if(l):
    """an inline IF statement: its header is regenerated by every write-back, the action statement copied"""
    return starts_if(l) and not line_code(l).endswith('then') and not line_code(l).endswith('&')


def enclosing_do(lines, rr):
    """mirror of KnownEnclosingDo: an unreported line starting with DO"""
    return any(line_kw('do', l) and not any(a <= i <= b for a, b in rr) for i, l in enumerate(lines, 1))


def fix_known_flags(src, nodes, reports):
    lines = src.split('\n')
    rr = reported_ranges(nodes, reports)
    rl = {l for _, _, l in reports}
    return [any((line_kw('if', l) or line_kw('else', l) or line_kw('do', l)) and line_code(l).endswith('&') for l in lines),
            any((any(line_kw(k, l) for k in ('if', 'else', 'do', 'call', 'print', 'end')) or line_code(l).endswith('&')
                 or line_code(l).lstrip().startswith('&'))
                and any(t[0] == 'ch' and t[1] == 'com' for t in toks(l)) for l in lines),
            any((q[0] < r[0] and r[1] <= q[1]) or (q[0] <= r[0] and r[1] < q[1]) for r in rr for q in rr),
            any(any(t[0] == 'ch' and t[1] == 'str"' for t in toks(s_)) for l0, s_, _, _ in nodes if l0 in rl),
            enclosing_do(lines, rr)]


FIX_CLASSES = ['fix-header-continuation-lost', 'fix-comment-displaced', 'fix-nested-report-skipped',
               'fix-literal-requoted', 'fix-while-loop-regenerated']


def known_flags(src, nodes):
    return [known_literal(src), known_unparsed(src), known_mixed(nodes), known_several(nodes), known_span(nodes)]


# ------------------------------------------------------------------ real code: operators rule

HEAD = ('subroutine s(a, b, n, c, l)\n  integer, intent(in) :: n\n  integer, intent(inout) :: a, b\n'
        '  character(len=20), intent(inout) :: c\n  logical, intent(inout) :: l\n')
TAIL = 'end subroutine s\n'


def program(body):
    return HEAD + body + TAIL


def real_nodes(routine):
    """[(first line, node source, str(expr_root), sorted operator keys)] in the order check_subroutine sees them"""
    out = []
    for node, root, lst in OPRULE.ComparisonRetriever().visit(routine.ir):
        out.append((node.source.lines[0], node.source.string, str(root), sorted({c.operator for c in lst})))
    return out


def new_linter(rules):
    return Linter(Reporter([DefaultHandler(target=lambda *a, **k: None)]), rules=rules)


_MEMO = {}


def memo(f):
    def g(src):
        k = (f.__name__, src)
        if k not in _MEMO:
            if len(_MEMO) > 12000:
                _MEMO.clear()
            _MEMO[k] = f(src)
        return _MEMO[k]
    return g


@memo
def run_ops(src, with_fix=True):
    """run the real check (and fix) of Fortran90OperatorsRule on a file with text ``src``"""
    path = tmpdir() / 'ops.F90'
    path.write_text(src)
    sf = Sourcefile.from_file(path, frontend=FP)
    routine = sf['s']
    res = dict(nodes=real_nodes(routine), reports=None, check_error=None, fix=None, fixed=None)
    linter = new_linter([OPRULE])
    try:
        rep = linter.check(sf)
    except IndexError:
        res['check_error'] = 'indexerror'
        return res
    out = []
    for r in rep.reports:
        for pr in r.problem_reports:
            m = re.match(r'Use Fortran 90 comparison operator "(.*)" instead of "(.*)"$', pr.msg)
            out.append((m.group(1), m.group(2), pr.location.source.lines[0]))
    res['reports'] = out
    if with_fix:
        try:
            linter.fix(sf, rep)
            res['fix'] = 'ran' if rep.fixable_reports else 'untouched'
        except Exception as e:  # pylint: disable=broad-except
            res['fix'] = 'raises-' + type(e).__name__.lower()
        res['fixed'] = path.read_text()
    return res


def relint_ops(text):
    path = tmpdir() / 'ops2.F90'
    path.write_text(text)
    sf = Sourcefile.from_file(path, frontend=FP)
    rep = new_linter([OPRULE]).check(sf)
    return [pr.msg for r in rep.reports for pr in r.problem_reports]


# ------------------------------------------------------------------ generator: operators rule

OPNDS = ['a', 'b', 'n', '1', '3', 'a + 1', 'b*2', '(a - b)', 'abs(a)', 'mod(a, n)']
LOOK = ['x .eq. y', 'a.ne.b', '.LT.', 'p == q', 'i <= j', 'n > 1', '.ge. or >=', 'it''s .gt.', 'a /= b', '.eq', 'eq.']


def spell(rng, name, style):
    if style == 'f90':
        return SYMS[name]
    if style == 'upper':
        return '.' + name.upper() + '.'
    if style == 'mixed':
        return '.' + name[0].upper() + name[1] + '.'
    return '.' + name + '.'


def gen_cmp(rng, styles):
    name = rng.choice(list(SYMS))
    style = rng.choice(styles)
    x, y = rng.choice(OPNDS), rng.choice(OPNDS)
    op = spell(rng, name, style)
    tight = rng.random() < 0.25 and not x[-1].isdigit() and not y[0].isdigit()
    if rng.random() < 0.08:
        q = rng.choice('\'"')
        lit = rng.choice(LOOK).replace("'", '')
        return f'c {op} {q}{lit}{q}'
    return f'{x}{op}{y}' if tight else f'{x} {op} {y}'


def gen_cond(rng, styles, allow_cont=True):
    n = rng.choice([1, 1, 1, 2, 2, 3])
    parts = [gen_cmp(rng, styles) for _ in range(n)]
    out = parts[0]
    for p in parts[1:]:
        j = rng.choice([' .and. ', ' .or. ', ' .AND. '])
        if allow_cont and rng.random() < 0.25:
            com = rng.choice(['', ' ! cont <= .le.', ' ! a .eq. b'])
            j = j.rstrip() + ' &' + com + '\n     & '
        out += j + p
    return out


def gen_simple(rng, styles):
    return rng.choice([f'l = {gen_cmp(rng, styles)}', 'b = 2', 'a = a + 1', f'c = \'{rng.choice(LOOK)}\''.replace("it's", 'its')])


def gen_stmt(rng, styles):
    k = rng.randint(0, 11)
    com = rng.choice(['', '', '', ' ! note a .eq. b', ' ! x<=y', " ! it's .NE. here", ' ! "q'])
    if k == 0:
        return f'  l = {gen_cond(rng, styles)}{com}\n'
    if k == 1:
        return f'  if ({gen_cond(rng, styles)}) a = a + 1{com}\n'
    if k == 2:
        els = f'  else\n    {gen_simple(rng, styles)}\n' if rng.random() < 0.4 else ''
        return f'  if ({gen_cond(rng, styles)}) then{com}\n    {gen_simple(rng, styles)}\n{els}  end if\n'
    if k == 3:
        return f'  do while ({gen_cond(rng, styles)})\n    a = a + 1\n    {gen_simple(rng, styles)}\n  end do\n'
    if k == 4:
        return f'  call foo({gen_cmp(rng, styles)}, a){com}\n'
    if k == 5:
        q = rng.choice('\'"')
        return f'  c = {q}{rng.choice(LOOK).replace(chr(39), "")}{q}{com}\n'
    if k == 6:
        return f'  ! {rng.choice(LOOK)} in a comment\n'
    if k == 7:
        return f'  print *, \'{rng.choice(LOOK).replace(chr(39), "")}\', a{com}\n'
    if k == 8:
        return f'  a = merge(1, 2, {gen_cmp(rng, styles)}){com}\n'
    if k == 9:
        return f'  l = .not. ({gen_cond(rng, styles, False)}){com}\n'
    if k == 10:
        return (f'  if ({gen_cond(rng, styles, False)}) then\n    {gen_simple(rng, styles)}\n'
                f'  else if ({gen_cond(rng, styles, False)}) then\n    {gen_simple(rng, styles)}\n  end if\n')
    return f'  print *, {gen_cmp(rng, styles)}\n' if rng.random() < 0.3 else f'  b = a + n{com}\n'


STYLE_SETS = [['f77'], ['f77'], ['f77', 'f77', 'f90'], ['f90'], ['f77', 'upper', 'mixed', 'f90'], ['upper'], ['f77', 'f77', 'f77', 'upper']]


def gen_body(rng):
    styles = rng.choice(STYLE_SETS)
    return ''.join(gen_stmt(rng, styles) for _ in range(rng.randint(1, 4)))


def detect_request(body):
    """parse with the real frontend and attach what check_subroutine gets from the IR (re-derived by impl on every run)"""
    nodes = run_ops(program(body))['nodes']
    return [A('detect'), body] + [[A('n'), l0, s, [A('e'), e] + list(ops)] for l0, s, e, ops in nodes]


def req_nodes(req):
    out = []
    for n in req[2:]:
        if str(n[0]) != 'n' or str(n[3][0]) != 'e':
            raise ValueError('malformed node')
        out.append((int(str(n[1])), n[2], n[3][1], [str(x) if not isinstance(x, str) else x for x in n[3][2:]]))
    return out


# ------------------------------------------------------------------ ubound rule: abstract description <-> Fortran

DIMS = ['klon', 'klev', 'nblk']


BOUNDS = ['klon', 'klev', 'nblk', 'n1', 'n2', 'n3']
LOWS = ['0', '1', '2', '-1', 'nblk']


def default_bound(dim):
    return DIMS[(dim - 1) % 3] if isinstance(dim, int) else 'klon'


def ub_render(desc):
    """desc = dict(args=[(name, rank, assumed[, lows])], conds=[dict(calls=[(fn, arg, dim[, bound])], rel, join, body, form, case)],
    filler=[...]); lows = per dimension None (plain `:`) or the text of an explicit lower bound (`0:`): such an argument is an
    assumed-shape array with a declared lower bound, NOT a plain one (ground truth assumed = False)"""
    names = [a[0] for a in desc['args']]
    wide = desc.get('wide', False)
    extra = ', n1, n2, n3' if wide else ''
    lines = [f"subroutine kernel(klon, klev, nblk{extra}, {', '.join(names)}, c)",
             '  use abort_mod', '  implicit none',
             f'  integer, intent(in) :: klon, klev, nblk{extra}   ! sizes']
    for arg in desc['args']:
        name, rank, assumed = arg[:3]
        lows = arg[3] if len(arg) > 3 and arg[3] else None
        if lows:
            shape = ', '.join(':' if lo is None else f'{lo}:' for lo in lows)
        else:
            shape = ', '.join([':'] * rank) if assumed else ', '.join(DIMS[:rank])
        lines.append(f'  real, intent(inout) :: {name}({shape})  ! field {name}')
    lines += ['  character(len=*), intent(in) :: c', '  integer :: i', '']
    fill = list(desc['filler'])
    nc, index = 0, []
    for cond in desc['conds']:
        if fill:
            f = fill.pop(0)
            nc += 1 if re.match(r'\s*if\b', f, re.I) else 0
            lines.append(f)
        index.append(nc)       # position of this IF among all IF constructs of the body, in source order
        nc += 1
        terms = []
        rels = cond.get('rels') or [cond['rel']] * len(cond['calls'])
        for k, call in enumerate(cond['calls']):
            fn, arg, dim = call[:3]
            bound = call[3] if len(call) > 3 else default_bound(dim)
            f = fn.upper() if cond['case'] == 'upper' else fn
            a = arg.upper() if cond['case'] == 'upper' and k % 2 == 0 else arg
            d = str(dim) if isinstance(dim, int) else dim
            terms.append(f'{f}({a}, {d}) < {bound}' if rels[k] == 'lt' else f'{bound} > {f}({a}, {d})')
        ctext = (' .or. ' if cond['join'] == 'or' else ' .and. ').join(terms)
        body = "call abort('kernel: dimension too short')" if cond['body'] == 'abort' else 'i = i + 1'
        if cond['form'] == 'inline':
            lines.append(f'  if ({ctext}) {body}')
        else:
            lines += [f'  if ({ctext}) then', f'    {body}', '  end if']
    lines += fill
    lines += [f'  call other(klon, klev, nblk, {names[0]})', 'end subroutine kernel', '']
    desc['index'] = index
    return '\n'.join(lines)


def ub_calls(desc):
    """(fn, arg, literal dim or None, index of the IF, bound, call is the left operand)"""
    out = []
    ub_render(desc)
    for ci, cond in enumerate(desc['conds']):
        rels = cond.get('rels') or [cond['rel']] * len(cond['calls'])
        for k, call in enumerate(cond['calls']):
            fn, arg, dim = call[:3]
            bound = call[3] if len(call) > 3 else default_bound(dim)
            out.append((fn, arg, dim if isinstance(dim, int) else None, desc['index'][ci], bound, rels[k] == 'lt'))
    return out


FILLER = ['  ! check ubound(v0, 1) < klon in a comment', "  if (c == 'ubound(v1, 1) < klon') i = 2",
          '  i = 1   ! keep  this   spacing', '  v0(1,1) =   v0(1,1)+i', '  call   other( klon,klev , nblk,  v0 )',
          "  print *, 'ubound(v0, 2) < klev', i", '  IF (i > 3) THEN\n    i = 0\n  END IF', '  do i = 1, klon\n  end do']


def gen_ubound(rng):
    nargs = rng.randint(1, 3)
    args = []
    for i in range(nargs):
        rank = rng.randint(1, 3)
        r = rng.random()
        if r < 0.6:
            args.append((f'v{i}', rank, True, None))                      # plain assumed shape (:)
        elif r < 0.8:
            lows = [rng.choice(LOWS) if rng.random() < 0.6 else None for _ in range(rank)]
            if all(lo is None for lo in lows):
                lows[rng.randrange(rank)] = rng.choice(['0', '0', '1', '2'])
            args.append((f'v{i}', rank, False, lows))                     # assumed shape with declared lower bound(s): not plain
        else:
            args.append((f'v{i}', rank, False, None))                     # explicit shape
    wide = rng.random() < 0.6
    pool = BOUNDS if wide else DIMS
    conds = []
    cross = {}                                                            # dimension -> calls of different arguments for one IF
    for name, rank, _, _ in args:
        mode = rng.choice(['full', 'full', 'full', 'partial', 'none', 'joined', 'cross', 'cross'])
        dims = list(range(1, rank + 1))
        if mode == 'partial':
            dims = dims[:-1]
        if mode == 'none':
            dims = []
        fnw = rng.choice([['ubound'], ['ubound'], ['ubound'], ['ubound'], ['ubound', 'size'], ['lbound']])
        calls = [(rng.choice(fnw), name, d if rng.random() < 0.95 else 'i', rng.choice(pool) if wide else default_bound(d))
                 for d in dims]
        common = dict(rel=rng.choice(['lt', 'gt']), join=rng.choice(['or', 'and']),
                      body='abort' if rng.random() < 0.85 else 'other',
                      form=rng.choice(['block', 'block', 'inline']), case=rng.choice(['lower', 'lower', 'upper']))
        if mode == 'joined' and calls:
            conds.append(dict(calls=calls, **common))
        elif mode == 'cross' and calls:
            for cl in calls:
                cross.setdefault(cl[2], []).append(cl)                    # same dimension index of different arguments
        else:
            for cl in calls:
                conds.append(dict(calls=[cl], **dict(common, form=rng.choice(['block', 'block', 'inline']))))
        if rng.random() < 0.15 and calls:      # a repeated check of the first dimension (possibly against another bound)
            rep = calls[0][:3] + ((rng.choice(pool),) if wide and rng.random() < 0.5 else (calls[0][3],))
            conds.append(dict(calls=[rep], **common))
    for _, cls_ in sorted(cross.items(), key=lambda kv: str(kv[0])):
        rng.shuffle(cls_)
        conds.append(dict(calls=cls_, rel='lt', rels=[rng.choice(['lt', 'gt']) for _ in cls_], join=rng.choice(['or', 'and']),
                          body='abort', form=rng.choice(['block', 'inline']), case=rng.choice(['lower', 'lower', 'upper'])))
    rng.shuffle(conds)
    filler = rng.sample(FILLER, rng.randint(0, 4))
    return dict(args=args, conds=conds, filler=filler, wide=wide)


def ub_structured():
    """hand-picked members of the two families the random stream must also cover: declared lower bounds with every dimension
    checked; one IF checking the same dimension of several arguments against different bounds (all operand orders)"""
    base = dict(rel='lt', join='or', body='abort', form='block', case='lower')
    out = []
    for lo in LOWS:
        out.append(dict(args=[('v0', 1, False, [lo]), ('v1', 1, True, None)],
                        conds=[dict(calls=[('ubound', 'v0', 1, 'klon')], **base), dict(calls=[('ubound', 'v1', 1, 'klev')], **base)],
                        filler=[], wide=False))
    out.append(dict(args=[('v0', 2, False, [None, '0']), ('v1', 2, False, ['0', None])],
                    conds=[dict(calls=[('ubound', 'v0', 1, 'klon'), ('ubound', 'v0', 2, 'klev')], **base),
                           dict(calls=[('ubound', 'v1', 2, 'klev'), ('ubound', 'v1', 1, 'klon')], **base)], filler=[], wide=False))
    for rels in (['lt', 'lt'], ['gt', 'gt'], ['lt', 'gt'], ['gt', 'lt']):
        for order in (0, 1):
            cl = [('ubound', 'v0', 1, 'n1'), ('ubound', 'v1', 1, 'n2')]
            out.append(dict(args=[('v0', 2, True, None), ('v1', 1, True, None)],
                            conds=[dict(calls=cl[::-1] if order else cl, rels=rels, **base),
                                   dict(calls=[('ubound', 'v0', 2, 'klev')], **base)], filler=[], wide=True))
    out.append(dict(args=[('v0', 1, True, None), ('v1', 1, True, None), ('v2', 1, True, None)],
                    conds=[dict(calls=[('ubound', 'v2', 1, 'n3'), ('ubound', 'v0', 1, 'klon'), ('ubound', 'v1', 1, 'n2')],
                                **dict(base, form='inline'))], filler=[], wide=True))
    return out


def ub_request(desc):
    return [A('ubound'),
            [A('args')] + [[A('a'), a[0], a[1], bool(a[2])] for a in desc['args']],
            [A('calls')] + [[A('c'), fn, arg, d if d is not None else A('none'), ci, bound, left]
                            for fn, arg, d, ci, bound, left in ub_calls(desc)],
            ub_render(desc)]


@memo
def run_ubound(src):
    path = tmpdir() / 'ub.F90'
    path.write_text(src)
    sf = Sourcefile.from_file(path, frontend=FP)
    routine = sf['kernel']
    conds0 = [c.source.lines for c in FindNodes(ir.Conditional).visit(routine.body)]
    # only top-level conditionals are generated, in source order
    linter = new_linter([UBRULE])
    rep = linter.check(sf)
    reported = []
    for r in rep.reports:
        for pr in r.problem_reports:
            m = re.match(r'Run-time UBOUND checks for assumed-shape arg: (\w+)', pr.msg)
            reported.append(m.group(1).lower())
    res = dict(reported=reported, conds=conds0, fix_error=None, removed=None, fixed=None, ranfix=bool(rep.fixable_reports),
               lows_before=declared_lows(routine))
    try:
        linter.fix(sf, rep)
    except Exception as e:  # pylint: disable=broad-except
        res['fix_error'] = type(e).__name__
        return res
    left = [c.source.lines for c in FindNodes(ir.Conditional).visit(sf['kernel'].body) if c.source]
    res['removed'] = [i for i, l in enumerate(conds0) if l not in left]
    res['fixed'] = path.read_text()
    res['lows_after'] = declared_lows(sf['kernel'])
    res['shapes'] = {a.name.lower(): [str(d).lower() for d in a.shape] for a in sf['kernel'].arguments if getattr(a, 'shape', None)}
    return res


def declared_lows(routine):
    """declared lower bound of every dimension of every array dummy argument ('1' where none is given)"""
    from loki.expression import symbols as sym  # pylint: disable=import-outside-toplevel
    out = {}
    for a in routine.arguments:
        if getattr(a, 'shape', None):
            out[a.name.lower()] = ['1' if not isinstance(d, sym.RangeIndex) or d.lower is None else str(d.lower).lower()
                                   for d in a.shape]
    return out


def declared_plain(src):
    """{name: True iff the REAL declaration in the text is name(:, :, ...)} for the generated dummy arrays"""
    out = {}
    for m in re.finditer(r'^\s*real, intent\(inout\) :: (\w+)\(([^)]*)\)', src, re.M | re.I):
        out[m.group(1).lower()] = all(d.strip() == ':' for d in m.group(2).split(','))
    return out


def own_bounds(src, name, d):
    """the operands UBOUND(name, d) is compared with in the text (code only: comments and literals stripped)"""
    code = '\n'.join(''.join(t[2] for t in toks(l) if t[0] == 'ch' and t[1] == 'code') for l in src.split('\n'))
    call = rf'ubound\s*\(\s*{name}\s*,\s*{d}\s*\)'
    return {m.group(1).lower() for m in re.finditer(call + r'\s*<\s*(\w+)', code, re.I)} | \
        {m.group(1).lower() for m in re.finditer(r'(\w+)\s*>\s*' + call, code, re.I)}


def relint_ubound(text):
    path = tmpdir() / 'ub2.F90'
    path.write_text(text)
    sf = Sourcefile.from_file(path, frontend=FP)
    rep = new_linter([UBRULE]).check(sf)
    return [pr.msg for r in rep.reports for pr in r.problem_reports]


def ub_desc_from_req(req):
    args = [(a[1], int(str(a[2])), str(a[3]) == 'true') for a in req[1][1:]]
    calls = []
    for c in req[2][1:]:
        d = None if str(c[3]) == 'none' else int(str(c[3]))
        if len(c) == 5:      # requests written before bounds were recorded: the renderer's default bound, call on the left
            calls.append((c[1], c[2], d, int(str(c[4])), default_bound(d), True))
        elif len(c) == 7:
            calls.append((c[1], c[2], d, int(str(c[4])), c[5], str(c[6]) == 'true'))
        else:
            raise ValueError('malformed call')
    return args, calls, req[3]


def ub_model(args, calls):
    """Python mirror of uboundReported / uboundRemoved (used by the oracle to know what the fix targets)"""
    rep, rem = [], []
    for name, rank, asm in args:
        mine = [c for c in calls if c[1] == name]
        if asm and all(any(c[2] == d + 1 for c in mine) for d in range(rank)):
            rep.append(name)
            for d in range(rank):
                ci = [c[3] for c in mine if c[2] == d + 1][-1]
                if ci not in rem:
                    rem.append(ci)
    return rep, rem


# ------------------------------------------------------------------ the property

class C43(Prop):
    id = 'C43'
    title = 'Lint auto-fix changes only what the fixed rules target'
    model_modules = ['LokiModel.C43.Model', 'LokiModel.C43.Lemmas']
    props_module = 'LokiModel.Props.C43'
    findings_module = 'LokiModel.Findings.C43'
    driver = 'Drivers/C43.lean'
    theorems = ['C43_tables_pinned', 'C43_render_toks', 'C43_fix_local', 'C43_fix_retokenize', 'C43_fix_clean',
                'C43_fix_idempotent', 'C43_fix_protected', 'C43_fix_sem_partial', 'C43_sym_injective',
                'C43_real_fix_untouched', 'C43_findall_f77', 'C43_fixer_lines', 'C43_fixer_local', 'C43_fixer_clean',
                'C43_fixer_protected', 'C43_ubound_reported_assumed', 'C43_ubound_shape_own', 'C43_ubound_shape_from_own']
    design_ref = 'DESIGN.md 4.x C43'
    level = 'proof'
    level_text = ('Theorems (Lean kernel) about the model of the RUNNING operator fixer (since the fix: commits the fixer replaces '
                  'every reported IR node by node.clone(source=None); model fixLines: the lines of reported nodes are rewritten by '
                  'specFix, every other line is copied): C43_fixer_lines (line by line characterisation), C43_fixer_local (lines '
                  'outside reported statements unchanged, no line added or lost), C43_fixer_clean (a line of a reported statement has no '
                  'violation left and its literal/comment characters are the original ones), C43_fixer_protected; underlying statements '
                  'about specFix for every text and every start state of the code/literal/comment segmenter: C43_render_toks (lossless '
                  'tokenizer), C43_fix_local, C43_fix_retokenize, C43_fix_clean, C43_fix_idempotent, C43_fix_protected, '
                  'C43_fix_sem_partial + C43_sym_injective (per token: the symbol written is read back by the F90 symbol table as the '
                  'same operator when the next character is not "="; whole-text re-lexing is oracle only). The model is tied to the '
                  'real Linter.fix by correspondence up to the layout of the regenerated statements (blanks, &, line breaks, letter '
                  'case of code: the backend\'s) on inputs outside the six open write-back classes fix-*; C43_real_fix_untouched (file '
                  'rewritten iff something was reported), C43_findall_f77 (every reported text is a spelling of the operator named in '
                  'the message), C43_tables_pinned. Detection (Source.find, clone_lines, strip_inline_comments, line choice, findall) is '
                  'modelled line by line and tied to the real Linter.check by correspondence; "reported = F77 operators in code tokens" '
                  'is checked by the direct oracle only and fails in five open classes ops-*. DynamicUboundCheckRule: decision model '
                  '(which arguments are reported, which IF constructs are removed) by correspondence; text preservation, re-lint and '
                  're-parse of the written file by the direct oracle only (open classes ubound-*, fix-intrinsic-regenerated).')
    level_note = ('The frontend (fparser -> IR), ComparisonRetriever and str(expression) are inputs of the detection model: the '
                  'request carries node source / str(expr) / operator set and impl re-derives them from the real frontend on every '
                  'run. The conservative writer (fgen conservative=True, C03) is not modelled. No gfortran run: "same outputs" is '
                  'checked at token level only (and by the removed-block checks for the UBOUND rule).')
    technique = ('Lean 4 theorems about a token-level specification of the operator fixer and a line-level model of what '
                 'Fortran90OperatorsRule.check_subroutine / Linter.fix do + correspondence with the real Linter + fix/re-lint/diff oracle')
    rule = ('detect stream: random routine bodies of 1-4 statements (assignment, inline/block/else-if IF, DO WHILE, CALL, MERGE, '
            '.not., PRINT) with 1-3 comparisons each, operator spelling drawn from a per-body style set (lower/upper/mixed-case F77, '
            'F90), tight or blank-separated, continuation lines with comments, look-alike text in literals and comments; spec '
            'streams: the same programs and random concatenations of 34 fragments through the Lean spec tokenizer vs its Python '
            'mirror; ubound stream: 1-3 array arguments (rank 1-3, assumed or explicit shape) with full/partial/joined/repeated '
            'checks (ubound/size/lbound, literal or variable dimension, </> orientation, abort or other body, inline or block form, '
            'upper/lower case, bounds from a pool of six names) mixed with filler statements; arguments with declared lower bounds '
            '(0:, 1:, 2:, -1:, nblk: - not plain assumed shape) and one IF checking the same dimension of several arguments against '
            'different bounds in every operand order (structured + random); non-trivial = an F77 operator in code / at least one check; distinct by request')
    trusted_base = ['harness/props/c43.py: Python mirror of the spec tokenizer and of the known-class predicates (diffed with the Lean ones)',
                    'harness/props/c43.py: renderer of the abstract UBOUND-check descriptions to Fortran',
                    'Lean driver evaluation of the model definitions']
    assumptions = ['ASCII sources, lines separated by \\n, no character literal continued over a line break',
                   'the frontend (fparser), ComparisonRetriever and str(expression) are inputs of the detection model, not modelled']
    extra_obligations = ['correspondence: spec tokenizer and known-class predicates (Python mirror vs Lean)',
                         'oracle: real check vs spec violations; real fix then re-lint, protected text, untargeted lines']

    def classes(self):
        return list(CLASSES)

    # ---- tables
    def tables(self):
        omap = OPRULE._op_map  # pylint: disable=protected-access
        pats = OPRULE._op_patterns  # pylint: disable=protected-access
        rows_m = ',\n'.join(f'  ({lean_str(k)}, {lean_str(v)})' for k, v in omap.items())
        rows_p = ',\n'.join(f'  ({lean_str(k)}, {lean_str(v.pattern)}, {int(v.flags)})' for k, v in pats.items())
        txt = ('/-! GENERATED by harness/props/c43.py from lint_rules/lint_rules/ifs_coding_standards_2011.py '
               '(Fortran90OperatorsRule._op_map, ._op_patterns) — do not edit. -/\n'
               'namespace LokiModel.Generated.C43\n\n'
               'def opMap : List (String × String) := [\n' + rows_m + '\n]\n\n'
               'def opPatterns : List (String × String × Nat) := [\n' + rows_p + '\n]\n\n'
               f'def frameHead : String := {lean_str(HEAD)}\n'
               f'def frameTail : String := {lean_str(TAIL)}\n'
               f'def opsRuleFixable : Bool := {"true" if OPRULE.fixable else "false"}\n'
               f'def uboundRuleFixable : Bool := {"true" if UBRULE.fixable else "false"}\n\n'
               'end LokiModel.Generated.C43\n')
        return {'LokiModel/Generated/C43Tables.lean': txt}

    # ---- generator
    def gen(self, rng, tier):
        n_ops = {'quick': 110, 'thorough': 2500, 'search': 700}.get(tier, 110)
        n_ub = {'quick': 40, 'thorough': 1000, 'search': 200}.get(tier, 40)
        n_fz = {'quick': 400, 'thorough': 8000, 'search': 1500}.get(tier, 400)
        seen = set()
        for _ in range(n_ops):
            body = gen_body(rng)
            if body in seen:
                continue
            seen.add(body)
            try:
                req = detect_request(body)
            except Exception:  # pylint: disable=broad-except
                continue      # the generated text is not accepted by the frontend
            yield Case(req, stream='detect', nontrivial=bool(spec_viol(body)))
            yield Case([A('spec'), program(body)], stream='spec', nontrivial=bool(spec_viol(body)))
        frag = ['.eq.', '.NE.', '.Lt.', '.le.', '.gt.', '.GE.', '==', '/=', '<', '<=', '>', '>=', '=>', "'", '"', '!', '\n',
                ' ', 'a', 'b', '.', 'eq', '.e', 'q.', '.eq', '=', '/', '(', ')', '.and.', '1', "''", '&', 'x.eq.y']
        for _ in range(n_fz):
            t = ''.join(rng.choice(frag) for _ in range(rng.randint(0, 12)))
            yield Case([A('spec'), t], stream='spec-fuzz', nontrivial='.' in t)
        for desc in ub_structured():
            yield Case(ub_request(desc), stream='ubound-structured', nontrivial=True)
        for _ in range(n_ub):
            desc = gen_ubound(rng)
            yield Case(ub_request(desc), stream='ubound', nontrivial=bool(desc['conds']))

    # ---- real code -> canonical response
    def impl(self, req):
        op = str(req[0])
        if op == 'spec':
            t = req[1]
            return [A('ok'), [A('viol')] + [[A('v'), s, sp] for s, sp in spec_viol(t)], [A('fixed'), spec_fix(t)],
                    [A('prot'), prot_text(t)]]
        if op == 'detect':
            body = req[1]
            nodes = req_nodes(req)
            res = run_ops(program(body))
            if [(a, b, c, list(d)) for a, b, c, d in res['nodes']] != [(a, b, c, list(d)) for a, b, c, d in nodes]:
                return [A('error'), A('stale-request'), repr(res['nodes'])[:300]]
            kn = [A('known')] + known_flags(body, nodes)
            if res['check_error']:
                return [A('error'), A(res['check_error'])]
            if res['fix'] == 'untouched' and res['fixed'] != program(body):
                return [A('error'), A('file-changed-without-fix')]
            fk = fix_known_flags(program(body), nodes, res['reports'])
            if res['fix'] == 'ran':
                fx = [A('fix'), A('ran'), A('known') if any(fk) or known_unparsed(body) else squash(res['fixed'])]
            else:
                fx = [A('fix'), A(res['fix'])]
            return [A('ok'), [A('reports')] + [[A('r'), s, f, l] for s, f, l in res['reports']], fx, kn,
                    [A('fixknown')] + fk]
        if op == 'ubound':
            args, calls, src = ub_desc_from_req(req)
            res = run_ubound(src)
            if res['fix_error']:
                return [A('error'), A('fix-' + res['fix_error'].lower())]
            names = [a[0] for a in args]
            return [A('ok'), [A('reported')] + res['reported'], [A('removed')] + res['removed'],
                    [A('shapes')] + [[n] + res['shapes'].get(n, []) for n in names if n in res['reported']]]
        raise ValueError(op)

    # ---- direct oracle
    def detect_class(self, src, nodes):
        fl = known_flags(src, nodes)
        order = [('ops-span-heuristic', fl[4]), ('ops-lookalike-in-literal', fl[0]),
                 ('ops-unparsed-statement', fl[1]), ('ops-mixed-spelling-in-node', fl[2]), ('ops-same-op-on-several-lines', fl[3])]
        return next((n for n, f in order if f), None)

    def oracle(self, req):
        op = str(req[0])
        if op == 'detect':
            return self.oracle_ops(req)
        if op == 'ubound':
            return self.oracle_ubound(req)
        return []

    def oracle_ops(self, req):
        body = req[1]
        nodes = req_nodes(req)
        src = program(body)
        res = run_ops(src)
        cls = self.detect_class(body, nodes)
        fails = []
        want = sorted((s, sp.lower()) for s, sp in spec_viol(src))
        if res['check_error']:
            return [Failure(f'Linter.check raises IndexError on a file with comparison operators {[sp for _, sp in spec_viol(src)]!r}',
                            cls)]
        got = sorted((s, f.lower()) for s, f, _ in res['reports'])
        if got != want:
            fails.append(Failure(f'reported F77 operators {got!r} but the code tokens of the file contain {want!r}', cls))
        if res['fix'].startswith('raises'):
            fails.append(Failure(f'Linter.fix raises ({res["fix"]}) instead of fixing {len(res["reports"])} reported violation(s)', None))
        elif res['fix'] == 'ran':
            fails += self.check_fixed_ops(src, res, nodes, cls)
        elif res['fixed'] != src:
            fails.append(Failure('file rewritten although nothing was reported', None))
        return fails

    def check_fixed_ops(self, src, res, nodes, dcls):
        """the running fixer: re-lint, protected text, meaning, untargeted statements.  ``dcls`` = detection class of the input
        (operators the check never reported are not expected to be fixed), ``fcls`` = write-back class"""
        fails = []
        fixed = res['fixed']
        fk = fix_known_flags(src, nodes, res['reports'])
        fcls = next((n for n, f in zip(FIX_CLASSES, fk) if f), None)
        rr = reported_ranges(nodes, res['reports'])
        try:
            again = relint_ops(fixed)
        except IndexError:
            # the check itself raises on the fixed text: the detection defect ops-span-heuristic, now on F90-only statements
            fnodes = run_ops(fixed)['nodes']
            return [Failure('re-lint of the fixed file raises IndexError', 'ops-span-heuristic' if known_span(fnodes) else fcls)]
        except Exception as e:  # pylint: disable=broad-except
            return [Failure(f'the fixed file no longer parses: {type(e).__name__}', fcls)]
        if again:
            fails.append(Failure(f're-lint of the fixed file still reports {again!r}', fcls or dcls))
        # every operator token on the lines of a reported node is gone
        # (statements kept as text - PRINT ... - are regenerated from the parser's text by every write-back: class
        # ubound-fix-reformats-statements, checked below; they are left out here)
        rw = rewritten_lines(nodes, res['reports'], len(src.split('\n')))
        expect_left = [sp for i, l in enumerate(src.split('\n'), 1) if i not in rw and not is_frame_line(l) for _, sp in spec_viol(l)]
        left = [sp for l in fixed.split('\n') if not is_frame_line(l) for _, sp in spec_viol(l)]
        if sorted(left) != sorted(expect_left):
            fails.append(Failure(f'F77 operators in code after the fix: {left!r}, expected only those outside the regenerated lines of reported statements '
                                 f'{expect_left!r}', fcls))
        core = lambda t: '\n'.join(l for l in t.split('\n') if not is_frame_line(l))   # regenerated text statements: own class
        if sorted(lit_values(core(fixed))) != sorted(lit_values(core(src))):
            fails.append(Failure('character literals changed by the fix: '
                                 f'{sorted(set(lit_values(core(src))) ^ set(lit_values(core(fixed))))!r}', fcls))
        if sorted(comments(fixed)) != sorted(comments(src)):
            fails.append(Failure(f'comments changed by the fix: {sorted(set(comments(src)) ^ set(comments(fixed)))!r}', fcls))
        elif sorted(standalone_comments(fixed)) != sorted(standalone_comments(src)):
            fails.append(Failure('a trailing comment is moved to a line of its own by the fix: '
                                 f'{sorted(set(standalone_comments(fixed)) - set(standalone_comments(src)))!r}', fcls))
        if sem_tokens(core(fixed)) != sem_tokens(core(src)):
            fails.append(Failure('code tokens (relational operators in either spelling, blanks and case ignored) changed by the fix', fcls))
        # statements that carry no report are byte-identical, in order
        keep = [l for i, l in enumerate(src.split('\n'), 1) if not any(a <= i <= b for a, b in rr)]
        flines = fixed.split('\n')
        sq = lambda l: ''.join(l.split()).lower()
        fsq = [sq(l) for l in flines]
        j = 0
        reformatted = []
        for l in keep:
            try:
                j = flines.index(l, j) + 1
            except ValueError:
                if is_frame_line(l):
                    if sq(l) in fsq[j:]:
                        j = fsq.index(sq(l), j) + 1
                    reformatted.append(l.strip())
                    continue
                fails.append(Failure(f'untargeted line {l!r} is not carried over verbatim', fcls))
                break
        if reformatted:
            fails.append(Failure(f'untargeted statements are regenerated with other keyword case / spacing by the fix: {reformatted!r}',
                                 'ubound-fix-reformats-statements'))
        return fails

    def oracle_ubound(self, req):
        args, calls, src = ub_desc_from_req(req)
        res = run_ubound(src)
        fails = []
        if res['fix_error']:
            return [Failure(f'the fix raises {res["fix_error"]}', None)]
        # only plain assumed-shape arguments (every dimension declared `:`) are the rule's business
        plain = declared_plain(src)
        for n in res['reported']:
            if not plain.get(n, False):
                decl = next((l.strip() for l in src.split('\n') if re.search(rf'::\s*{n}\(', l)), n)
                fails.append(Failure(f'argument {n} is not a plain assumed-shape array ({decl!r}) but is reported', None))
        if not res['ranfix']:
            if res['fixed'] != src:
                fails.append(Failure('file rewritten although nothing was reported', None))
            return fails
        fixed = res['fixed']
        # declared lower bounds never change through the fix
        if res['lows_after'] != res['lows_before']:
            ch = {n: (res['lows_before'][n], res['lows_after'].get(n)) for n in res['lows_before']
                  if res['lows_after'].get(n) != res['lows_before'][n]}
            fails.append(Failure(f'declared lower bounds of dummy arguments changed by the fix: {ch!r}', None))
        # the new extent of dimension d of a fixed argument is an operand its OWN ubound(arg, d) was compared with
        for n in res['reported']:
            other_fn = any(c[1] == n and c[0] != 'ubound' for c in calls)
            for d, ext in enumerate(res['shapes'].get(n, []), 1):
                own = own_bounds(src, n, d)
                if ext not in own:
                    fails.append(Failure(f'after the fix {n} is declared with extent {ext!r} in dimension {d}, but ubound({n}, {d}) '
                                         f'was compared with {sorted(own)!r}', 'ubound-not-an-ubound-check' if other_fn else None))
                    break
        rep, rem = ub_model(args, calls)
        lines = src.split('\n')
        cond_lines = set()
        conds_src = []
        for i in rem:
            a, b = res['conds'][i]
            cond_lines |= set(range(a, b + 1))
            conds_src.append('\n'.join(lines[a - 1:b]))
        # what is removed must be a pure UBOUND check that aborts
        fnames = {c[0] for c in calls if c[3] in rem}
        if any('abort' not in s for s in conds_src):
            fails.append(Failure('a removed IF block does something else than aborting', 'ubound-removes-other-code'))
        if fnames - {'ubound'}:
            fails.append(Failure(f'an IF block testing {sorted(fnames - {"ubound"})} is treated as an UBOUND check', 'ubound-not-an-ubound-check'))
        inline_left = any(re.match(r'\s*if\s*\(.*\)\s*(?!then)\S', l, re.I) and not l.strip().lower().endswith('then')
                          for i, l in enumerate(lines, 1) if i not in cond_lines)
        try:
            again = relint_ubound(fixed)
        except Exception as e:  # pylint: disable=broad-except
            return fails + [Failure(f'the fixed file no longer parses ({type(e).__name__})',
                                    None)]
        if again:
            fails.append(Failure(f're-lint of the fixed file still reports {again!r}', None))
        # the targeted IF constructs are gone (each generated check line is unique up to repeated checks, which are all targeted or none)
        left = [lines[res['conds'][i][0] - 1] for i in rem if lines[res['conds'][i][0] - 1] in fixed.split('\n')
                and sum(1 for k, (a, _) in enumerate(res['conds']) if lines[a - 1] == lines[res['conds'][i][0] - 1] and k not in rem) == 0]
        if left:
            fails.append(Failure(f'the run-time check {left[0].strip()!r} of a reported argument is still in the fixed file', None))
        # text outside the targeted spans
        decl_lines = {i for i, l in enumerate(lines, 1) if re.match(r'\s*real\b', l) and any(re.search(rf'\b{n}\b', l) for n in rep)}
        flines = fixed.split('\n')
        squash = lambda l: ''.join(l.split()).lower()
        fsq = [squash(l) for l in flines]
        j = 0
        reformatted = []
        for i, l in enumerate(lines, 1):
            if i in cond_lines or i in decl_lines:
                continue
            try:
                j = flines.index(l, j) + 1
            except ValueError:
                if squash(l) in fsq[j:]:
                    j = fsq.index(squash(l), j) + 1
                    reformatted.append(l.strip())
                    continue
                is_inline = bool(re.match(r'\s*if\s*\(', l, re.I)) and not l.strip().lower().endswith('then')
                fails.append(Failure(f'untargeted line {l!r} is not carried over verbatim',
                                     None))
                break
        if reformatted:
            fails.append(Failure(f'untargeted statements are regenerated with other keyword case / spacing by the fix: {reformatted!r}',
                                 'ubound-fix-reformats-statements' if all(is_frame_line(l) for l in reformatted) else None))
        have = comments(fixed)
        for cm in comments(src, skip=cond_lines | decl_lines):
            if cm in have:
                have.remove(cm)
            else:
                fails.append(Failure(f'comment {cm!r} outside the targeted spans is lost or changed', None))
                break
        return fails

    def canon_model(self, resp):
        # the removed conditionals are a set (keys of node_map): ascending order on both sides
        if isinstance(resp, list) and len(resp) >= 3 and isinstance(resp[2], list) and resp[2] and str(resp[2][0]) == 'removed':
            resp = resp[:2] + [[resp[2][0]] + sorted(resp[2][1:], key=lambda x: int(str(x)))] + resp[3:]
        return resp

    def shrink_candidates(self, req):
        """requests carry data derived from their text (IR nodes / call lists): dropping list elements makes them
        inconsistent, so only whole body statements are dropped (detect) and nothing else"""
        if str(req[0]) == 'detect':
            lines = req[1].split('\n')[:-1]
            for i in range(len(lines)):
                body = '\n'.join(lines[:i] + lines[i + 1:]) + '\n'
                try:
                    yield detect_request(body)
                except Exception:  # pylint: disable=broad-except
                    continue

    def post(self, cases, impl_out, model_raw, oracle_fail):
        n_raise = sum(1 for o in impl_out if 'indexerror' in o)
        n_fix = sum(1 for o in impl_out if '(fix raises)' in o)
        n_ub = sum(1 for c, o in zip(cases, impl_out) if c.stream == 'ubound' and '(removed)' not in o and o.startswith('(ok'))
        return [], dict(detect_check_raises=n_raise, detect_fix_raises=n_fix, ubound_fixes_applied=n_ub)


def lit_values(text):
    out, cur, prev = [], None, None
    for t in toks(text):
        if t[0] == 'ch' and t[1].startswith('str'):
            cur = (cur or '') + t[2]
        else:
            if cur is not None:
                out.append(cur)
            cur = None
    if cur is not None:
        out.append(cur)
    return out


def comments(text, skip=()):
    out = []
    for i, l in enumerate(text.split('\n'), 1):
        if i in skip:
            continue
        c = ''.join(t[2] for t in toks(l) if t[0] == 'ch' and t[1] == 'com')
        if c:
            out.append(c.rstrip())
    return out


def standalone_comments(text):
    return [l.strip() for l in text.split('\n') if l.strip().startswith('!')]


PROP = C43()
READY = True
