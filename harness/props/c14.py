"""C14 — the tree transformer applies exactly the requested node mapping.

Request:  (visit plain|nested <inplace> <rebuild_scopes> node|tuple ((KEY HANDLE) ...) TREE)
  node    = (kind lbl (child ...) ...)      one list per child tuple; mcond: bodies..., else_body
  HANDLE  = none | (node N) | (tuple N ...)
Response: (ok (res …) (post …) (cov …)) | (error attributeerror|recursion|nested-tuple|shape)
"""
import sys

from loki.ir import nodes as ir, Transformer, NestedTransformer
from loki.ir.nodes import ScopedNode
from loki.expression import symbols as sym
from loki.tools import util as loki_util
from loki import Scope, SymbolAttributes, BasicType

from ..core import Prop, Case, Failure
from ..sexpr import A

LEAF = ('assign', 'call', 'comment')
ONE = ('sect', 'loop', 'assoc', 'preg')
KINDS = {'assign': ir.Assignment, 'call': ir.CallStatement, 'comment': ir.Comment, 'sect': ir.Section,
         'loop': ir.Loop, 'cond': ir.Conditional, 'assoc': ir.Associate, 'preg': ir.PragmaRegion,
         'mcond': ir.MultiConditional}
LEAN_KIND = {k: c.__name__ for k, c in KINDS.items()}

_scope = Scope()
_itype = SymbolAttributes(BasicType.INTEGER)


def var(name):
    return sym.Variable(name=name, scope=_scope, type=_itype)


# ---------------------------------------------------------------- pure trees (the wire format as nested tuples)

def dec(x):
    """S-expression -> (kind, lbl, (kids...)) with kids tuples of nodes"""
    return (str(x[0]), int(str(x[1])), tuple(tuple(dec(c) for c in b) for b in x[2:]))


def enc(n):
    return [A(n[0]), n[1]] + [[enc(c) for c in b] for b in n[2]]


def dec_handle(h):
    if not isinstance(h, list):
        return None
    if str(h[0]) == 'node':
        return ('node', dec(h[1]))
    return ('tuple', tuple(dec(c) for c in h[1:]))


def enc_handle(h):
    if h is None:
        return A('none')
    if h[0] == 'node':
        return [A('node'), enc(h[1])]
    return [A('tuple')] + [enc(c) for c in h[1]]


def dec_req(req):
    which, inplace, rs, root = str(req[1]), str(req[2]).lower() == 'true', str(req[3]).lower() == 'true', str(req[4])
    mapper = {}
    for k, h in req[5]:
        mapper[dec(k)] = dec_handle(h)           # dict semantics: later equal key overwrites in place
    tree = dec(req[6]) if root == 'node' else tuple(dec(c) for c in req[6])
    return which, inplace, rs, root, mapper, tree


def preorder(n):
    yield n
    for b in n[2]:
        for c in b:
            yield from preorder(c)


def preorder_l(o):
    for n in o:
        yield from preorder(n)


# ---------------------------------------------------------------- real objects

def build(n):
    kind, lbl, kids = n
    bodies = [tuple(build(c) for c in b) for b in kids]
    if kind == 'assign':
        return ir.Assignment(lhs=var('x'), rhs=sym.IntLiteral(lbl))
    if kind == 'call':
        return ir.CallStatement(name=sym.ProcedureSymbol(f'p{lbl}', scope=_scope), arguments=(var('x'),))
    if kind == 'comment':
        return ir.Comment(text=f'! c{lbl}')
    if kind == 'sect':
        return ir.Section(body=bodies[0], label=f'l{lbl}')
    if kind == 'loop':
        return ir.Loop(variable=var('i'), bounds=sym.LoopRange((sym.IntLiteral(1), sym.IntLiteral(lbl))), body=bodies[0])
    if kind == 'cond':
        return ir.Conditional(condition=sym.Comparison(var('i'), '==', sym.IntLiteral(lbl)), body=bodies[0],
                              else_body=bodies[1])
    if kind == 'assoc':
        return ir.Associate(body=bodies[0], associations=((var(f'a{lbl}'), var('z')),))
    if kind == 'preg':
        return ir.PragmaRegion(body=bodies[0], pragma=ir.Pragma(keyword='loki', content=f'r{lbl}'),
                               pragma_post=ir.Pragma(keyword='loki', content=f'end r{lbl}'))
    if kind == 'mcond':
        nb = len(bodies) - 1
        return ir.MultiConditional(expr=var(f'e{lbl}'), values=tuple((sym.IntLiteral(j + 1),) for j in range(nb)),
                                   bodies=tuple(bodies[:-1]), else_body=bodies[-1])
    raise ValueError(kind)


def export(o):
    ex = lambda t: tuple(export(c) for c in t)
    if isinstance(o, ir.Assignment):
        return ('assign', int(o.rhs.value), ())
    if isinstance(o, ir.CallStatement):
        return ('call', int(str(o.name)[1:]), ())
    if isinstance(o, ir.Comment):
        return ('comment', int(o.text[3:]), ())
    if isinstance(o, ir.Associate):
        return ('assoc', int(str(o.associations[0][0])[1:]), (ex(o.body),))
    if isinstance(o, ir.Section):
        return ('sect', int(o.label[1:]), (ex(o.body),))
    if isinstance(o, ir.Loop):
        return ('loop', int(o.bounds.upper.value), (ex(o.body),))
    if isinstance(o, ir.Conditional):
        return ('cond', int(o.condition.right.value), (ex(o.body), ex(o.else_body)))
    if isinstance(o, ir.PragmaRegion):
        return ('preg', int(o.pragma.content[1:]), (ex(o.body),))
    if isinstance(o, ir.MultiConditional):
        return ('mcond', int(str(o.expr)[1:]), tuple(ex(b) for b in o.bodies) + (ex(o.else_body),))
    raise TypeError(f'unexpected object in tree: {type(o).__name__}')


def objects(o):
    """pre-order list of the node objects of a built tree"""
    out = [o]
    if isinstance(o, ir.MultiConditional):
        kids = tuple(o.bodies) + (o.else_body,)
    elif isinstance(o, ir.Conditional):
        kids = (o.body, o.else_body)
    elif hasattr(o, 'body'):
        kids = (o.body,)
    else:
        kids = ()
    for b in kids:
        for c in b:
            out += objects(c)
    return out


def run_real(which, inplace, rs, root, mapper, tree):
    """returns ('ok', res, post, cov) or ('error', name); everything as pure trees"""
    objs_root = build(tree) if root == 'node' else tuple(build(c) for c in tree)
    orig = objects(objs_root) if root == 'node' else [x for c in objs_root for x in objects(c)]
    real_mapper = {}
    for k, h in mapper.items():
        kobj = next((o for o in orig if export(o) == k), None)    # the idiom: keys are objects of the tree
        if kobj is None:
            kobj = build(k)
        if h is None:
            hobj = None
        elif h[0] == 'node':
            hobj = build(h[1])
        else:
            hobj = tuple(kobj if c == k else build(c) for c in h[1])
        real_mapper[kobj] = hobj
    cls = NestedTransformer if which == 'nested' else Transformer
    t = cls(real_mapper, inplace=inplace, rebuild_scopes=rs)
    lim = sys.getrecursionlimit()
    try:
        sys.setrecursionlimit(1500)
        res = t.visit(objs_root)
    except RecursionError:
        return ('error', 'recursion')
    except AttributeError as e:
        if which == 'nested':
            return ('error', 'nested-tuple')
        if "'tuple' object has no attribute '_rebuild'" in str(e):
            return ('error', 'attributeerror')
        raise
    except (ValueError, AssertionError, TypeError) as e:
        if which == 'nested':
            return ('error', 'shape' if type(e).__name__ == 'ValidationError' else 'nested-tuple')
        raise
    finally:
        sys.setrecursionlimit(lim)
    if root == 'node':
        r = None if res is None else export(res)
        post = export(objs_root)
    else:
        r = tuple(export(x) for x in res)
        post = tuple(export(x) for x in objs_root)
    mutating = inplace or (not rs and any(isinstance(o, ScopedNode) for o in orig))
    cov = None if mutating else [o in t.rebuilt for o in orig]
    return ('ok', r, post, cov)


# ---------------------------------------------------------------- reference rebuild, written from the class docstring

def spec_keep(M, n):
    """an unmapped node keeps its content; its child tuples are rebuilt in order"""
    return (n[0], n[1], tuple(spec_list(M, b) for b in n[2]))


def spec_node(M, n):
    """the nodes that stand for n in the tuple containing it (pre-order: the mapping is applied before
    the children are looked at; a replacement is not visited again)"""
    if n not in M:
        return [spec_keep(M, n)]
    h = M[n]
    if h is None:
        return []                                    # removed
    if h[0] == 'node':
        return [h[1]]                                # replaced
    return [spec_keep(M, n) if x == n else x for x in h[1]]   # one-to-many: spliced; the node itself may be kept


def spec_list(M, o):
    return tuple(x for n in o for x in spec_node(M, n))


def spec_nested(M, n, fuel=60):
    """NestedTransformer, 'depth-first': the children of a replacement are transformed too"""
    if fuel == 0:
        raise RecursionError
    h = M.get(n, ('node', n))
    if h is None:
        return []
    if h[0] == 'tuple':
        return [y for x in h[1] for y in ([spec_nested_keep(M, x, fuel - 1)])]
    return [spec_nested_keep(M, h[1], fuel - 1)]


def spec_nested_keep(M, n, fuel):
    return (n[0], n[1], tuple(tuple(x for c in b for x in spec_nested(M, c, fuel)) for b in n[2]))


def visited_nodes(M, o):
    """nodes of the original that have a counterpart in the new tree (not below a replaced node, not spliced away)"""
    out = []
    for n in o:
        h = M.get(n, 'unmapped')
        if h == 'unmapped' or (h is not None and h[0] == 'tuple' and n in h[1]):
            out.append(n)
            for b in n[2]:
                out += visited_nodes(M, b)
        elif h is None or h[0] == 'node':
            out.append(n)
    return out


# ---------------------------------------------------------------- classifiers (mirrored by Lean `Known…` predicates)

def fixed(M, n):
    """visiting n again cannot change it: no node below is a key"""
    return all(x not in M for x in preorder(n))


def known_revisit(M):
    """some one-to-many value contains a node other than its key that a second visit would change"""
    return any(h is not None and h[0] == 'tuple' and any(x != k and not fixed(M, x) for x in h[1]) for k, h in M.items())


def known_nested(M):
    def same(k, h):
        if h is None:
            return True
        if h[0] == 'tuple':
            return False
        h = h[1]
        return h[0] == k[0] and h[2] == k[2] and (h[1] == k[1] or h[0] in ('comment', 'sect', 'preg'))
    return any(not same(k, h) for k, h in M.items())


# ---------------------------------------------------------------- generator

def rand_leaf(rng, L):
    return (rng.choice(LEAF), rng.randrange(L), ())


def rand_node(rng, depth, L, width, mc=True):
    if depth <= 0 or rng.random() < 0.35:
        return rand_leaf(rng, L)
    kinds = ['sect', 'loop', 'assoc', 'preg', 'cond', 'loop', 'assoc'] + (['mcond'] if mc else [])
    kind = rng.choice(kinds)
    body = lambda lo=0: tuple(rand_node(rng, depth - 1, L, width, mc) for _ in range(rng.randint(lo, width)))
    if kind == 'cond':
        return (kind, rng.randrange(L), (body(1), body()))
    if kind == 'mcond':
        return (kind, rng.randrange(L), tuple(body() if rng.random() < 0.15 else body(1) for _ in range(rng.randint(1, 3))) + (body(),))
    return (kind, rng.randrange(L), (body(),))


def rand_case(rng, which, size):
    L = rng.choice([2, 3, 5])
    depth = rng.choice([1, 2, 3]) if size == 'small' else rng.choice([2, 3, 4])
    width = rng.choice([2, 3]) if size == 'small' else rng.choice([2, 3, 4])
    inplace = rng.random() < 0.25
    rs = rng.random() < 0.5
    root = rng.choice(['node', 'tuple', 'tuple'])
    mc = rng.random() < 0.6
    tree = rand_node(rng, depth, L, width, mc) if root == 'node' else tuple(rand_node(rng, depth, L, width, mc) for _ in range(rng.randint(1, width + 1)))
    nodes = list(preorder(tree)) if root == 'node' else list(preorder_l(tree))
    if root == 'node' and len(nodes) > 1 and rng.random() < 0.9:
        cand = nodes[1:]
    else:
        cand = nodes
    M = {}
    nk = rng.choice([0, 1, 1, 2, 2, 3, 4])
    mutating = inplace or (not rs and any(n[0] == 'assoc' for n in nodes))
    wild = (not mutating) and rng.random() < 0.12   # allow values that a second visit would change
    for _ in range(nk):
        k = rng.choice(cand) if rng.random() < 0.92 else rand_node(rng, 1, L, 2, mc)
        if k in M:
            continue
        r = rng.random()
        if which == 'nested':
            if r < 0.35:
                h = None
            elif r < 0.8 and rng.random() < 0.8:
                h = ('node', (k[0], rng.randrange(L), k[2]))            # the usage pattern: same node, other attributes
            elif r < 0.9:
                h = ('node', (k[0], k[1], tuple(tuple(rand_leaf(rng, L) for _ in b) for b in k[2])))
            elif k[0] != 'assoc':      # (a scoped key with a one-to-many value takes a path of its own: not modelled)
                h = ('tuple', (rand_leaf(rng, L),))
            else:
                h = None
        elif r < 0.3:
            h = None
        elif r < 0.6:
            h = ('node', rand_node(rng, 2, L, 2, mc))
        else:
            def elem():
                if wild and rng.random() < 0.5:
                    return rng.choice(nodes) if rng.random() < 0.6 else rand_node(rng, 2, L, 2, mc)
                if rng.random() < 0.7:
                    return (rng.choice(LEAF), L + rng.randrange(3), ())
                inner = ((rng.choice(LEAF), L + rng.randrange(3), ()),) * rng.randint(0, 2)
                return (rng.choice(ONE), L + rng.randrange(3), (inner,))
            pre = [elem() for _ in range(rng.choice([0, 0, 1, 1, 2]))]
            post = [elem() for _ in range(rng.choice([0, 0, 1, 2]))]
            selfn = rng.random() < 0.6
            if selfn and mutating and nodes.count(k) > 1:
                selfn = False        # aliasing: the key object would be visited (and updated) more than once
            h = ('tuple', tuple(pre + ([k] if selfn else []) + post))
        M[k] = h
    if mutating:
        # a key object that is updated in place changes its value (and hash) under the mapper's feet: keep one-to-many
        # keys that mention themselves only where the visit cannot change them (alias-freedom, see notes/C14.md)
        for k, h in list(M.items()):
            if h is not None and h[0] == 'tuple' and k in h[1] and not all(fixed(M, c) for b in k[2] for c in b):
                M[k] = ('tuple', tuple(x for x in h[1] if x != k))
    req = [A('visit'), A(which), inplace, rs, A(root), [[enc(k), enc_handle(h)] for k, h in M.items()],
           enc(tree) if root == 'node' else [enc(c) for c in tree]]
    hit = sum(1 for n in visited_nodes(M, (tree,) if root == 'node' else tree) if n in M)
    return req, hit > 0, which + ('-inplace' if inplace else '') + ('-rs' if rs else '')


# ---------------------------------------------------------------- property

class C14(Prop):
    id = 'C14'
    title = 'The tree transformer applies exactly the requested node mapping'
    model_modules = ['LokiModel.C14.Model']
    props_module = 'LokiModel.Props.C14'
    driver = 'Drivers/C14.lean'
    theorems = ['C14_transformer_eq_spec_partial', 'C14_transformer_node_eq_spec_partial', 'C14_transformer_full_false',
                'C14_inject_is_parallel_substitution', 'C14_noninplace_preserves_original_partial',
                'C14_noninplace_full_false', 'C14_rebuilt_covers_partial', 'C14_rebuilt_full_false',
                'C14_spec_keeps_child_positions', 'C14_nested_eq_spec_partial', 'C14_nested_node_eq_spec_partial',
                'C14_nested_full_false', 'C14_tables_agree']
    design_ref = 'DESIGN.md 4.B C14'
    level_text = ('Theorems (Lean kernel; all mappers, all trees over nine node classes, all inplace/rebuild_scopes settings, no size bound) '
                  'about a value-level model of Transformer.visit_Node/visit_ScopedNode/visit_tuple/_inject_tuple_mapping/_rebuild against an '
                  'independent structural reference rebuild (Spec.lean, written from the class docstring). PARTIAL, not full: the full '
                  'statement is refuted by a kernel-checked witness (C14_transformer_full_false); C14_transformer_eq_spec_partial and '
                  'C14_transformer_node_eq_spec_partial prove termination-without-exception and result = reference rebuild for every input '
                  'outside one decidable class (a one-to-many value containing a node, other than its key, that a second visit would change); '
                  'a second class (MultiConditional case body made empty was dropped) was repaired by a fix: commit, its hypothesis removed, '
                  'the old filter kept as a regression statement in Findings/C14.lean. C14_inject_is_parallel_substitution: the sequential tail-rescanning '
                  'injection equals the parallel substitution. C14_noninplace_preserves_original_partial: without inplace every object of the '
                  'original keeps its value unless rebuild_scopes is off and the tree contains a scoped node (full statement refuted by '
                  'C14_noninplace_full_false). C14_rebuilt_covers_partial: without in-place updates every node of the original that has a '
                  'counterpart in the new tree (not below a replaced node, not spliced away) has an entry in rebuilt; the literal docstring '
                  'reading (every node) is refuted by C14_rebuilt_full_false and read as intended. C14_nested_eq_spec_partial / C14_nested_node_eq_spec_partial: for every mapper whose values are None or the key itself with '
                  'other non-traversable attributes, NestedTransformer terminates and its result satisfies the depth-first reference relation '
                  'NSpecL (full statement refuted by C14_nested_full_false: {a1: a2} returns a1). '
                  'MaskedTransformer is not covered at all.')
    level_note = ('Model is hand-written and value-level: object identity is represented only through the post-state component, exact for '
                  'alias-free inputs (each object once in the tree, replacement nodes fresh, a one-to-many value mentions its key through the '
                  'tree object); source invalidation, tuple-valued (windowed) keys, scope parent pointers, symbol tables, expression children '
                  'are not modelled; Python recursion is fuel. The model is tied to the code by running the real Transformer/NestedTransformer '
                  'on random trees built from the real node classes and diffing result tree, post-state of the original and rebuilt coverage '
                  'with the Lean driver; class table (traversable node fields, ScopedNode-ness, atomic iterables) is regenerated from the code.')
    technique = 'Lean 4 theorems about a hand-written value-level model of the transformer + correspondence with the real code'
    rule = ('random trees over the nine node classes (depth <= 4, small label alphabets so that value-equal duplicates occur), '
            'mappers of 0-4 keys drawn from the tree (sometimes not in the tree) to None / node / tuple with and without the key, '
            'Transformer and NestedTransformer, inplace and rebuild_scopes on/off, node and tuple roots; non-trivial = at least one '
            'mapped node is reached by the traversal; distinct by request line')
    trusted_base = ['harness/props/c14.py: build/export between Loki node objects and the wire trees, spec_list reference rebuild',
                    'Lean driver evaluation of model definitions']
    assumptions = ['mapper keys are single nodes (no tuple keys / replace_windowed)', 'all nodes have source=None (invalidate_source has no effect)',
                   'alias-free inputs for the post-state of the original tree; in runs that update objects in place a one-to-many key that mentions itself is not changed by its own visit',
                   'NestedTransformer: replacements of the same class as the key, default invalidate_source=True']
    extra_obligations = ['oracle: real Transformer result vs reference rebuild; original unchanged when not inplace; rebuilt covers the visited nodes']

    def tables(self):
        rows = []
        for k, c in KINDS.items():
            nodef = [f for f in c._traversable if f in ('body', 'else_body', 'bodies')]
            rows.append((c.__name__, nodef, issubclass(c, ScopedNode)))
        atomic = sorted(c.__name__ for c in KINDS.values() if loki_util._is_atomic_iterable_ir_node(build_dummy(c)))
        q = lambda s: '"' + s + '"'
        body = ['/- generated from /repo by harness/props/c14.py — do not edit -/', 'namespace LokiModel.C14.Generated', '',
                '/-- (class name, traversable fields holding nodes in `_traversable` order, is a ScopedNode) -/',
                'def classTable : List (String × List String × Bool) := [']
        body += [',\n'.join(f'  ({q(n)}, [{", ".join(q(f) for f in fs)}], {"true" if s else "false"})' for n, fs, s in rows)]
        body += [']', '', '/-- node classes that `is_iterable`/`as_tuple` treat as atomic although they define `__iter__` -/',
                 f'def atomicIterable : List String := [{", ".join(q(a) for a in atomic)}]', '', 'end LokiModel.C14.Generated', '']
        return {'LokiModel/Generated/C14Tables.lean': '\n'.join(body)}

    def gen(self, rng, tier):
        n = {'quick': 500, 'thorough': 12000, 'search': 5000}.get(tier, 500)
        seen = set()
        for i in range(n):
            which = 'nested' if i % 5 == 4 else 'plain'
            req, nontrivial, stream = rand_case(rng, which, 'small' if i % 3 else 'large')
            c = Case(req, stream=stream, nontrivial=nontrivial)
            if c.line in seen:
                continue
            seen.add(c.line)
            yield c

    # ---- real code
    def impl(self, req):
        out = run_real(*dec_req(req))
        if out[0] == 'error':
            return [A('error'), A(out[1])]
        _, r, post, cov = out
        root = str(req[4])
        if root == 'node':
            rs = A('none') if r is None else enc(r)
            ps = enc(post)
        else:
            rs = [enc(x) for x in r]
            ps = [enc(x) for x in post]
        return [A('ok'), [A('res'), rs], [A('post'), ps], [A('cov'), A('skip') if cov is None else [bool(b) for b in cov]]]

    # ---- direct oracle on the real code
    def oracle(self, req):
        which, inplace, rs, root, M, tree = dec_req(req)
        forest = (tree,) if root == 'node' else tree
        if root == 'node' and M.get(tree, None) is not None and M[tree][0] == 'tuple':
            return []          # a one-to-many mapping needs a containing tuple: outside the statement
        out = run_real(which, inplace, rs, root, M, tree)
        fails = []
        nested = which == 'nested'
        # 1 result tree = reference rebuild
        try:
            ref = tuple(x for n in forest for x in spec_nested(M, n)) if nested else spec_list(M, forest)
        except RecursionError:
            return []          # the nested reference does not terminate on this mapper: outside the statement
        if nested:
            cls = 'nested-replacement-built-from-key' if known_nested(M) else None
        elif known_revisit(M):
            cls = 'spliced-nodes-revisited'
        else:
            cls = None
        if out[0] == 'error':
            return [Failure(f'{which} transformer raised {out[1]}; reference rebuild gives {show(ref)}', cls)]
        _, r, post, cov = out
        got = (() if r is None else (r,)) if root == 'node' else r
        if got != ref:
            fails.append(Failure(f'{which} transformer returned {show(got)} but the mapping applied to the tree gives {show(ref)}', cls))
        # 2 the original is unchanged without inplace
        postf = (post,) if root == 'node' else post
        if not inplace and postf != forest:
            c2 = 'scoped-node-updated-in-place' if (not rs and any(n[0] == 'assoc' for n in preorder_l(forest))) else None
            fails.append(Failure(f'non-inplace {which} transformer changed the original tree: {show(forest)} became {show(postf)}', c2))
        # 3 rebuilt covers the nodes that have a counterpart in the new tree
        if cov is not None and not nested and cls is None:
            orig = list(preorder_l(forest))
            want = visited_nodes(M, forest)
            missing = [n for n in want if not cov[orig.index(n)]]
            if missing:
                fails.append(Failure(f'rebuilt has no entry for {show(tuple(missing[:2]))}', None))
        return fails

    def classes(self):
        return ['scoped-node-updated-in-place', 'spliced-nodes-revisited', 'nested-replacement-built-from-key']


def show(o):
    from ..sexpr import dumps
    return dumps([enc(x) for x in o])[:300]


def build_dummy(c):
    for k, cc in KINDS.items():
        if cc is c:
            kids = {'cond': ((), ()), 'mcond': ((), ())}.get(k, ((),) if k not in LEAF else ())
            return build((k, 0, kids))
    raise KeyError(c)


PROP = C14()
READY = True
