"""C21 — the scheduler graph is exactly the pruned dependency closure of the seeds.

Request (one line):

    (sched (proj FILE...) (config ...) (seeds "s"...) (fullparse B) (abs ...))

* ``proj``   generator ground truth: files, modules, routines, statements (see ``render``/``truth``)
* ``config`` SchedulerConfig dict: default expand/strict/enable_imports/disable/block/ignore + per-routine overrides
* ``abs``    the abstraction of the project *exported from the real ItemFactory* under a neutral config
             (what ``Item.dependencies`` + ``ItemFactory.create_from_ir`` yield, node by node); this is the
             only part the Lean driver reads besides config and seeds.

impl   : writes the files to a mkdtemp dir, runs the real ``Scheduler`` and returns items/edges in graph order;
         re-exports the abstraction and answers ``(error stale-abstraction)`` if it differs from the request.
oracle : compares the real graph with a reference closure computed from the generator's ground truth.
"""
import atexit
import copy
import fnmatch
import logging
import shutil
import tempfile
from pathlib import Path

from loki.batch import Scheduler, SchedulerConfig
from loki.batch.item import (
    ProcedureItem, ModuleItem, TypeDefItem, InterfaceItem, ProcedureBindingItem, ExternalItem, FileItem
)
from loki.frontend import FP
from loki.ir import nodes as ir
from loki.tools import as_tuple
import loki.logging as llog

from ..core import Prop, Case, Failure
from ..sexpr import A, dumps

llog.set_log_level(logging.ERROR)


# ------------------------------------------------------------------ s-expression helpers

def head(x):
    return str(x[0]) if isinstance(x, list) and x and isinstance(x[0], A) else None


def field(x, name, default=None):
    for e in x[1:]:
        if head(e) == name:
            return e
    return default


def b2a(b):
    return A('true' if b else 'false')


def a2b(a):
    return str(a) == 'true'


# ------------------------------------------------------------------ project spec -> Fortran text

def _uses_add(uses, mod, entry):
    k = mod.lower()
    if k not in uses:
        uses[k] = [mod, []]
    if uses[k][1] is not None and entry not in uses[k][1]:
        uses[k][1].append(entry)


def render_sub(sub, ind='  '):
    """(sub "Name" rec stmt...) -> lines"""
    name, rec, stmts = sub[1], a2b(sub[2]), sub[3:]
    uses = {}           # modlower -> [spelling, [only entries] | None (unqualified)]
    decls, calls = [], []
    selftype = None
    for st in stmts:
        op = head(st)
        if op == 'call':
            how, mod, proc, local = str(st[1]), st[2], st[3], st[4]
            if how == 'only':
                _uses_add(uses, mod, proc)
                calls.append(f'call {proc}(x)')
            elif how == 'ren':
                _uses_add(uses, mod, f'{local} => {proc}')
                calls.append(f'call {local}(x)')
            elif how == 'uq':
                uses[mod.lower()] = [mod, None]
                calls.append(f'call {proc}(x)')
            elif how == 'modimp':   # through a module-level import of the enclosing module (local name or the name itself)
                calls.append(f'call {local or proc}(x)')
            else:   # same, free, ext
                calls.append(f'call {proc}(x)')
        elif op == 'tcall':
            mod, ty, bnd = st[1], st[2], st[3]
            _uses_add(uses, mod, ty)
            d = f'type({ty}) :: v_{ty.lower()}'
            if d not in decls:
                decls.append(d)
            calls.append(f'call v_{ty.lower()}%{bnd}(x)')
        elif op == 'gvar':
            _uses_add(uses, st[1], st[2])
            calls.append(f'x = x + {st[2]}')
        elif op == 'icall':
            _uses_add(uses, st[1], st[2])
            calls.append(f'call {st[2]}(x)')
        elif op == 'self':
            selftype = st[1]
    args = '(self, x)' if selftype else '(x)'
    out = [f'{ind}{"recursive " if rec else ""}subroutine {name}{args}']
    for _, (mod, only) in uses.items():
        out.append(f'{ind}  use {mod}' + (f', only: {", ".join(only)}' if only is not None else ''))
    out.append(f'{ind}  implicit none')
    if selftype:
        out.append(f'{ind}  class({selftype}) :: self')
    out.append(f'{ind}  real :: x')
    out += [f'{ind}  {d}' for d in decls]
    out += [f'{ind}  {c}' for c in calls]
    out.append(f'{ind}end subroutine {name}')
    return out


def render_mod(mod):
    """(mod "Name" (muse ("m" "v")...) [(mprocs ("m" "proc" "local")...)] (gvars "v"...) (types (ty "T" ("b" "impl")...)...) (ifaces (iface "I" "p"...)...) (procs sub...))"""
    name = mod[1]
    out = [f'module {name}']
    for u in field(mod, 'muse', [None])[1:]:
        out.append(f'  use {u[0]}, only: {u[1]}')
    for u in field(mod, 'mprocs', [None])[1:]:
        # module-level import of a procedure, optionally renamed: visible in every module procedure unless the procedure
        # imports the same local name itself (the innermost import wins)
        out.append(f'  use {u[0]}, only: ' + (f'{u[2]} => {u[1]}' if u[2] else u[1]))
    out.append('  implicit none')
    for v in field(mod, 'gvars', [None])[1:]:
        out.append(f'  real :: {v}')
    for ty in field(mod, 'types', [None])[1:]:
        out.append(f'  type {ty[1]}')
        out.append('    real :: a')
        if ty[2:]:
            out.append('  contains')
            for b in ty[2:]:
                out.append(f'    procedure :: {b[0]} => {b[1]}')
        out.append(f'  end type {ty[1]}')
    for itf in field(mod, 'ifaces', [None])[1:]:
        out.append(f'  interface {itf[1]}')
        out.append(f'    module procedure {", ".join(itf[2:])}')
        out.append(f'  end interface {itf[1]}')
    procs = field(mod, 'procs', [None])[1:]
    if procs:
        out.append('contains')
        for p in procs:
            out += render_sub(p, '  ')
    out.append(f'end module {name}')
    return out


def render(proj):
    """(proj (file "name" unit...)...) -> [(filename, text)]"""
    files = []
    for f in proj[1:]:
        lines = []
        for u in f[2:]:
            lines += render_mod(u) if head(u) == 'mod' else render_sub(u, '')
            lines.append('')
        files.append((f[1], '\n'.join(lines) + '\n'))
    return files


# ------------------------------------------------------------------ ground truth of a spec

def truth(proj):
    """items: name -> dict(kind, deps=[(name, via)], file); ``via`` for a dependency that stems from an imported
    symbol is ('sym', 'mod#sym') (the dependency disappears when that symbol is excluded), else None"""
    items = {}
    free, modules = set(), {}

    def sub_item(sub, modname, fname):
        name = f'{modname}#{sub[1]}'.lower()
        deps = []
        for st in sub[3:]:
            op = head(st)
            if op == 'call':
                how, mod, proc = str(st[1]), st[2].lower(), st[3].lower()
                if how in ('only', 'ren', 'modimp'):
                    # Fortran's rule: the routine's own import of a local name hides the enclosing module's import of it
                    deps.append((f'{mod}#{proc}', None))
                elif how == 'uq':
                    deps.append((mod, None))
                    deps.append((f'{mod}#{proc}', None))
                elif how == 'same':
                    deps.append((f'{modname}#{proc}'.lower(), None))
                elif how == 'free':
                    deps.append((f'#{proc}', None))
                else:
                    deps.append((f'#{proc}', 'ext'))
            elif op == 'tcall':
                mod, ty, bnd = st[1].lower(), st[2].lower(), st[3].lower()
                deps.append((f'{mod}#{ty}', None))
                deps.append((f'{mod}#{ty}%{bnd}', None))
            elif op == 'gvar':
                deps.append((st[1].lower(), f'{st[1]}#{st[2]}'.lower()))
            elif op == 'icall':
                deps.append((f'{st[1]}#{st[2]}'.lower(), None))
            elif op == 'self':
                deps.append((f'{modname}#{st[1]}'.lower(), None))
        items[name] = dict(kind='proc', deps=deps, file=fname, recursive=a2b(sub[2]))
        return name

    for f in proj[1:]:
        fname = f[1]
        for u in f[2:]:
            if head(u) == 'sub':
                free.add(sub_item(u, '', fname)[1:])
            else:
                m = u[1].lower()
                members = []
                mdeps = [(x[0].lower(), f'{x[0]}#{x[1]}'.lower()) for x in field(u, 'muse', [None])[1:]]
                items[m] = dict(kind='module', deps=mdeps, file=fname)
                for ty in field(u, 'types', [None])[1:]:
                    t = f'{m}#{ty[1]}'.lower()
                    items[t] = dict(kind='typedef', deps=[], file=fname)
                    members.append((ty[1].lower(), 'typedef'))
                    for b in ty[2:]:
                        items[f'{t}%{b[0]}'.lower()] = dict(kind='binding', deps=[(f'{m}#{b[1]}'.lower(), None)], file=fname)
                for itf in field(u, 'ifaces', [None])[1:]:
                    items[f'{m}#{itf[1]}'.lower()] = dict(
                        kind='interface', deps=[(f'{m}#{p}'.lower(), None) for p in itf[2:]], file=fname)
                    members.append((itf[1].lower(), 'interface'))
                for p in field(u, 'procs', [None])[1:]:
                    sub_item(p, m, fname)
                    members.append((p[1].lower(), 'proc'))
                modules[m] = members
    return items, free, modules


def name_candidates(name):
    """documented matching rule: full name, local name, scope name, and for type-bound names every type/member prefix"""
    n = name.lower()
    parts = n.split('#')
    if len(parts) == 1:
        scope, local = '', n
    elif len(parts) == 2:
        scope, local = parts
    else:
        scope, local = parts[0], '#'.join(parts[1:])
    cands = {n, local}
    if scope:
        cands.add(scope)
    if '%' in local:
        pieces = local.split('%')
        for i in range(1, len(pieces) + 1):
            p = '%'.join(pieces[:i])
            cands |= {p, f'{scope}#{p}'}
    return cands


def ref_matches(name, keys):
    return any(fnmatch.fnmatchcase(c, str(k).lower()) for k in keys for c in name_candidates(name))


def conf_of(cfg, name):
    """item config per the documented rule: defaults overridden by every routines entry whose key equals the
    qualified or the local name (case-insensitive)"""
    conf = dict(cfg['default'])
    n = name.lower()
    local = n.split('#', 1)[1] if '#' in n else n
    for key, over in cfg['routines'].items():
        if key.lower() in (n, local):
            conf.update(over)
    return conf


def decode_config(c):
    d = field(c, 'default')
    default = {'role': 'kernel', 'expand': a2b(field(d, 'expand')[1]), 'strict': a2b(field(d, 'strict')[1]),
               'enable_imports': a2b(field(d, 'imports')[1])}
    for k in ('disable', 'block', 'ignore'):
        default[k] = [str(x) for x in field(d, k, [None])[1:]]
    routines = {}
    for r in field(c, 'routines', [None])[1:]:
        over = {}
        for e in r[2:]:
            k = head(e)
            over[k] = a2b(e[1]) if k == 'expand' else [str(x) for x in e[1:]]
        routines[r[1]] = over
    return {'default': default, 'routines': routines}


def case_collisions(proj):
    seen, out = {}, []
    for f in proj[1:]:
        k = f[1].lower()
        if k in seen:
            out.append((seen[k], f[1]))
        seen.setdefault(k, f[1])
    return out


def reference_graph(proj, cfg, seeds):
    """reference closure from the ground truth.  Returns ('ok', nodes set, edges set) | ('error',) | ('undefined', why)"""
    items, free, modules = truth(proj)
    gdis = cfg['default']['disable']
    start = []
    for s in seeds:
        s = s.lower()
        hits = [n for n, it in items.items() if it['kind'] == 'proc' and (n == s or ('#' not in s and n.split('#')[-1] == s))]
        if len(hits) > 1:
            return ('undefined', 'ambiguous seed')
        for h in hits:
            if ref_matches(h, gdis):
                return ('undefined', 'disabled seed')
            if h not in start:
                start.append(h)
    nodes, edges, todo = set(start), set(), list(start)
    kinds = {}
    while todo:
        a = todo.pop()
        conf = conf_of(cfg, a)
        if not conf.get('expand', False) or a not in items:
            continue
        excl = list(gdis) + list(conf.get('disable', [])) + list(conf.get('block', []))
        for dep, via in items[a]['deps']:
            if ref_matches(dep, excl):
                continue
            if via not in (None, 'ext') and ref_matches(via, excl):
                continue
            if via == 'ext' and cfg['default']['strict']:
                return ('error',)
            if dep != a:
                edges.add((a, dep))
            if dep not in nodes:
                nodes.add(dep)
                todo.append(dep)
            kinds[dep] = 'external' if via == 'ext' else items[dep]['kind'] if dep in items else 'external'
    for n in start:
        kinds[n] = items[n]['kind']
    return ('ok', nodes, edges, kinds)


def uq_interface_member_sites(proj):
    """call sites that reach, through an unqualified USE, a module procedure that is also named in a
    ``module procedure`` statement of an interface of that module"""
    ifmembers = set()
    subs = []
    for f in proj[1:]:
        for u in f[2:]:
            if head(u) == 'mod':
                for itf in field(u, 'ifaces', [None])[1:]:
                    ifmembers |= {(u[1].lower(), p.lower()) for p in itf[2:]}
                subs += field(u, 'procs', [None])[1:]
            else:
                subs.append(u)
    return [(s[1], st[3]) for s in subs for st in s[3:]
            if head(st) == 'call' and str(st[1]) == 'uq' and (st[2].lower(), st[3].lower()) in ifmembers]


def uq_sites(proj):
    """(caller item, callee item) for every call resolved through an unqualified USE"""
    out = []
    for f in proj[1:]:
        for u in f[2:]:
            subs = [('', u)] if head(u) == 'sub' else [(u[1].lower(), p) for p in field(u, 'procs', [None])[1:]]
            for m, s in subs:
                for st in s[3:]:
                    if head(st) == 'call' and str(st[1]) == 'uq':
                        out.append((f'{m}#{s[1]}'.lower(), f'{st[2]}#{st[3]}'.lower()))
    return out


def plain_match(name, keys):
    n = name.lower()
    local = n.split('#', 1)[1] if '#' in n else n
    return any(str(k).lower() in (n, local) for k in keys)


def uq_unfiltered_sites(proj, cfg):
    """unqualified-USE call sites whose callee is excluded by the caller's lists only through a pattern, a parent
    scope or a list the plain filters do not see"""
    gdis = cfg['default']['disable']
    out = []
    for a, c in uq_sites(proj):
        conf = conf_of(cfg, a)
        excl = list(gdis) + list(conf.get('disable', [])) + list(conf.get('block', []))
        if ref_matches(c, excl) and not (ref_matches(c, gdis) or plain_match(c, conf.get('disable', []))
                                         or plain_match(c, conf.get('block', []))):
            out.append((a, c))
    return out


def uq_fallthrough_sites(proj, cfg):
    """unqualified-USE call sites whose callee is globally disabled while the bare ``#name`` is not excluded"""
    gdis = cfg['default']['disable']
    out = []
    for a, c in uq_sites(proj):
        conf = conf_of(cfg, a)
        excl = list(gdis) + list(conf.get('disable', [])) + list(conf.get('block', []))
        if ref_matches(c, gdis) and not ref_matches('#' + c.split('#')[1], excl):
            out.append((a, c))
    return out


def has_cycle(edges):
    edges = set(edges)
    while True:
        srcs = {a for a, _ in edges}
        keep = {(a, b) for a, b in edges if b in srcs}
        if keep == edges:
            return bool(edges)
        edges = keep


def file_graph_cyclic(proj, cfg, ref_edges):
    """the file-level quotient of the reference graph (procedure items only unless enable_imports) has a cycle"""
    items, _, _ = truth(proj)
    imports = cfg['default']['enable_imports']

    def incl(n):
        return n in items and (imports or items[n]['kind'] == 'proc')
    fe = {(items[a]['file'].lower(), items[b]['file'].lower()) for a, b in ref_edges if incl(a) and incl(b)}
    return has_cycle({(a, b) for a, b in fe if a != b})


# ------------------------------------------------------------------ real code

_DIRS = {}


def _cleanup():
    for d in _DIRS.values():
        shutil.rmtree(d, ignore_errors=True)


atexit.register(_cleanup)


def project_dir(proj):
    key = dumps(proj)
    if key not in _DIRS:
        d = Path(tempfile.mkdtemp(prefix='c21_'))
        for fname, text in render(proj):
            (d / fname).write_text(text)
        _DIRS[key] = d
    return _DIRS[key]


def kind_of(item):
    if isinstance(item, ExternalItem):
        return 'external'
    for cls, k in ((ProcedureBindingItem, 'binding'), (InterfaceItem, 'interface'), (TypeDefItem, 'typedef'),
                   (ModuleItem, 'module'), (ProcedureItem, 'proc'), (FileItem, 'file')):
        if isinstance(item, cls):
            return k
    return 'other'


NEUTRAL = {'default': {'role': 'kernel', 'expand': True, 'strict': False}, 'routines': {}}


def export_abs(dirpath):
    """abstraction of the project as seen by the real item factory under a neutral config"""
    sch = Scheduler(paths=[dirpath], config=copy.deepcopy(NEUTRAL), seed_routines=['c21_no_such_seed'],
                    full_parse=False, frontend=FP)
    fac, cfg = sch.item_factory, sch.config
    cache = fac.item_cache
    free = sorted(it.local_name for it in cache.values()
                  if isinstance(it, ProcedureItem) and not it.scope_name and '#' not in it.local_name)
    modules = []
    for it in sorted((i for i in list(cache.values()) if isinstance(i, ModuleItem)), key=lambda i: i.name):
        members = []
        for d in it.create_definition_items(item_factory=fac, config=cfg):
            k = kind_of(d)
            if k in ('proc', 'typedef', 'interface'):
                members.append([d.local_name, A(k)])
        modules.append([it.name] + members)
    todo = [i for i in cache.values() if not isinstance(i, FileItem)]
    seen = {}
    while todo:
        it = todo.pop(0)
        if it.name in seen or isinstance(it, (ExternalItem, FileItem)):
            continue
        nodes = []
        scope_ir = None
        try:
            deps = as_tuple(it.dependencies)
            scope_ir = it.scope_ir
        except Exception as e:  # pylint: disable=broad-except
            nodes.append([A('unsupported'), type(e).__name__])
            deps = ()
        for node in deps:
            if isinstance(node, ir.Import):
                if node.nature == 'intrinsic' or node.c_import:
                    continue
                scope = node.module.lower()
                sit = cache.get(scope)
                if sit is None or isinstance(sit, ExternalItem) or not node.symbols:
                    nodes.append([A('one'), scope])
                    if sit is None:
                        sit = fac.get_or_create_item(ModuleItem, scope, scope, cfg)
                    todo.append(sit)
                    continue
                defs = {d.local_name: d for d in sit.create_definition_items(item_factory=fac, config=cfg)}
                syms = []
                for smbl in node.symbols:
                    nm = str(smbl.type.use_name or smbl).lower()
                    d = defs.get(nm)
                    if d is None:
                        syms.append([nm, A('var')])
                    elif isinstance(d, ProcedureItem) and not d.ir.is_function:
                        syms.append([nm, A('sub')])
                    else:
                        syms.append([nm, A('item')])
                        todo.append(d)
                nodes.append([A('imp'), scope] + syms)
                todo.append(sit)
                continue
            try:
                r0 = [x for x in as_tuple(fac.create_from_ir(node, scope_ir, cfg)) if x is not None]
            except (UnboundLocalError, RuntimeError):
                # several distinct candidates through unqualified imports (RuntimeError; before the fix: commit for
                # uq-interface-member also a doubly listed one, UnboundLocalError): list them
                pname = str(getattr(node, 'name', node)).lower()
                mods = [imprt.module for imprt in scope_ir.all_imports if not imprt.symbols]
                cands = fac.get_or_create_module_definitions_from_candidates(pname, cfg, module_names=mods, only=ProcedureItem)
                fex = isinstance(cache.get('#' + pname), ProcedureItem)
                nodes.append([A('uq'), '#' + pname, b2a(fex)] + [c.name for c in cands])
                todo += list(cands)
                continue
            if not r0:
                continue
            r1 = [x for x in as_tuple(fac.create_from_ir(node, scope_ir, cfg, ignore=[x.name for x in r0])) if x is not None]
            for x in r0:
                if x in r1:
                    # not subjected to the caller's disable/block lists (resolved through an unqualified import)
                    fname = '#' + x.local_name
                    fex = isinstance(cache.get(fname), ProcedureItem)
                    nodes.append([A('uq'), fname, b2a(fex), x.name])
                elif isinstance(x, ExternalItem) and x.name not in cache:
                    nodes.append([A('ext'), x.name])
                else:
                    nodes.append([A('one'), x.name])
                todo.append(x)
        fname = ''
        if getattr(it, 'source', None) is not None and it.source.path is not None:
            fname = Path(it.source.path).name.lower()
        seen[it.name] = [it.name, A(kind_of(it)), fname] + nodes
    return [A('abs'), [A('free')] + free, [A('modules')] + modules,
            [A('items')] + [seen[k] for k in sorted(seen)]]


MODELLED_ERRORS = ('runtimeerror', 'unboundlocalerror', 'networkxunfeasible')


def _run_real(dirpath, cfg, seeds, full_parse):
    try:
        sch = Scheduler(paths=[dirpath], config=copy.deepcopy(cfg), seed_routines=list(seeds),
                        full_parse=full_parse, frontend=FP)
    except RuntimeError:
        return ('error', 'runtimeerror')
    except Exception as e:  # pylint: disable=broad-except
        return ('error', type(e).__name__.lower())
    nodes = [(i.name.lower(), kind_of(i)) for i in sch.items]
    edges = [(a.name.lower(), b.name.lower()) for a, b in sch.dependencies]
    return ('ok', nodes, edges)


def isolated_run(dirpath, cfg, seeds, full_parse, expect_abs=None):
    """the real Scheduler in a fresh interpreter.  With two paths equal up to case the discovered project depends on
    set() order, i.e. on the hash seed: hash seeds 0, 1, … are tried until the exported abstraction equals
    ``expect_abs`` (the one the request carries).  None if no run could be obtained."""
    import json
    import os
    import subprocess
    import sys
    payload = json.dumps(dict(dir=str(dirpath), cfg=cfg, seeds=list(seeds), fp=full_parse, abs=expect_abs))
    code = ('import json,sys\nfrom harness.props import c21\nfrom harness.sexpr import dumps\n'
            'd=json.loads(sys.stdin.read())\n'
            'ok = d["abs"] is None or dumps(c21.export_abs(d["dir"])) == d["abs"]\n'
            'r=c21._run_real(d["dir"],d["cfg"],d["seeds"],d["fp"]) if ok else None\n'
            'print("C21RESULT"+json.dumps([ok, r]))')
    for hs in range(16):
        env = dict(os.environ, PYTHONHASHSEED=str(hs))
        p = subprocess.run([sys.executable, '-W', 'ignore', '-c', code], input=payload, text=True, capture_output=True,
                           cwd=str(Path(__file__).resolve().parent.parent.parent), timeout=600, env=env)
        for line in p.stdout.splitlines():
            if line.startswith('C21RESULT'):
                ok, r = json.loads(line[len('C21RESULT'):])
                if ok:
                    if r[0] == 'ok':
                        return ('ok', [tuple(x) for x in r[1]], [tuple(x) for x in r[2]])
                    return tuple(r)
    return None


def run_real(dirpath, cfg, seeds, full_parse, expect_abs=None, doubt=None):
    """run the real Scheduler.  Loki keeps interpreter-global state: rarely the outcome depends on projects handled
    earlier in the same process (AssertionError 'Missing type information for variable symbol' in a full parse, or a
    RuntimeError, neither reproducible in a fresh interpreter).  An error the model does not know, and any error
    ``doubt(res)`` flags (the caller's reference expects a graph and no known class applies), is re-examined in a
    fresh interpreter, and that verdict is the one reported."""
    res = _run_real(dirpath, cfg, seeds, full_parse)
    if res[0] == 'error' and (res[1] not in MODELLED_ERRORS or (doubt is not None and doubt(res))):
        return isolated_run(dirpath, cfg, seeds, full_parse, expect_abs) or res
    return res


def decode(req):
    proj = field(req, 'proj')
    cfg = decode_config(field(req, 'config'))
    seeds = [str(s) for s in field(req, 'seeds')[1:]]
    fullparse = a2b(field(req, 'fullparse')[1])
    return proj, cfg, seeds, fullparse


# ------------------------------------------------------------------ generator

_SYL = ['al', 'be', 'ca', 'do', 'el', 'fi', 'ga', 'ho', 'io', 'ju', 'ka', 'lu', 'mi', 'no', 'or', 'pa', 'qu', 'ri']


def spell(rng, s):
    r = rng.random()
    if r < 0.15:
        return s.upper()
    if r < 0.25:
        return s.capitalize()
    return s


def gen_project(rng, size, collide=False):
    """random call DAG over ``size`` routines placed in free files and modules"""
    n = size
    names = []
    while len(names) < n:
        nm = rng.choice(_SYL) + rng.choice(_SYL) + rng.choice(['', '_k', '_util', '1', '2'])
        if nm not in names:
            names.append(nm)
    nmod = rng.randint(1, max(1, n // 3))
    modnames = [f'{rng.choice(_SYL)}{i}_mod' for i in range(nmod)]
    place = {}        # routine -> module name or ''
    for i, r in enumerate(names):
        place[r] = '' if (i == 0 and rng.random() < 0.5) or rng.random() < 0.35 else rng.choice(modnames)
    mods = {m: dict(gvars=[], types=[], ifaces=[], muse=[], mprocs=[], procs=[]) for m in modnames}
    # module extras
    for m in modnames:
        if rng.random() < 0.6:
            mods[m]['gvars'].append(f'gv_{m[:2]}')
    tcount = 0
    impls = {}
    for m in modnames:
        members = [r for r in names if place[r] == m]
        if members and rng.random() < 0.5:
            t = f't{tcount}_{m[:2]}'
            tcount += 1
            impl = rng.choice(members)
            impls[impl] = t
            mods[m]['types'].append((t, [(f'b_{impl[:3]}', impl)]))
        if members and rng.random() < 0.3:
            ps = rng.sample(members, min(len(members), rng.randint(1, 2)))
            mods[m]['ifaces'].append((f'gen_{m[:3]}', [p for p in ps if p not in impls] or None))
            if mods[m]['ifaces'][-1][1] is None:
                mods[m]['ifaces'].pop()
    for i, m in enumerate(modnames):
        others = [o for o in modnames[i + 1:] if mods[o]['gvars']]
        if others and rng.random() < 0.3:
            o = rng.choice(others)
            mods[m]['muse'].append((o, mods[o]['gvars'][0]))
    # call DAG: i calls j > i
    body = {r: [] for r in names}
    for i, r in enumerate(names):
        k = rng.choice([0, 1, 1, 2, 2, 3])
        later = names[i + 1:]
        used_mods = {}     # module -> 'only'|'uq'
        for c in rng.sample(later, min(k, len(later))):
            cm = place[c]
            if c in impls:
                continue      # bound implementations are reached through their binding
            if cm == '':
                body[r].append(('call', 'free', '', c, ''))
            elif cm == place[r]:
                body[r].append(('call', 'same', cm, c, ''))
            else:
                how = used_mods.get(cm) or rng.choice(['only', 'only', 'ren', 'uq'])
                if how == 'ren':
                    used_mods[cm] = 'only'
                    body[r].append(('call', 'ren', cm, c, f'loc_{c[:4]}'))
                else:
                    used_mods[cm] = how
                    body[r].append(('call', how, cm, c, ''))
        for m in modnames:
            if m == place[r] or used_mods.get(m) == 'uq':
                continue
            later_impl = [(t, bs) for (t, bs) in mods[m]['types'] if names.index(bs[0][1]) > i]
            if later_impl and rng.random() < 0.35:
                t, bs = rng.choice(later_impl)
                body[r].append(('tcall', m, t, bs[0][0]))
            later_if = [(g, ps) for (g, ps) in mods[m]['ifaces'] if all(names.index(p) > i for p in ps)]
            if later_if and rng.random() < 0.3:
                body[r].append(('icall', m, later_if[0][0]))
            if mods[m]['gvars'] and rng.random() < 0.2:
                body[r].append(('gvar', m, mods[m]['gvars'][0]))
        if rng.random() < 0.12:
            body[r].append(('call', 'ext', '', f'ext_{rng.choice(_SYL)}', ''))
        if rng.random() < 0.1:
            body[r].append(('call', 'same' if place[r] else 'free', place[r], r, ''))   # direct recursion
        if r in impls:
            body[r].append(('self', impls[r]))
    # shadowed imports: the enclosing module imports, under the local name a module procedure imports itself from module
    # Y, a procedure of a different module X (with and without renaming on either side); the call must go to Y
    for i, r in enumerate(names):
        m = place[r]
        if not m:
            continue
        for k, st in enumerate(body[r]):
            if st[0] != 'call' or st[1] not in ('only', 'ren') or rng.random() > 0.6:
                continue
            y = st[2]
            others = [p for p in names if place[p] not in ('', m) and p != st[3] and p not in impls]
            taken = {(e[2] or e[1]).lower() for e in mods[m]['mprocs']}
            # names a routine of this module reaches through an unqualified USE must not be shadowed at module level:
            # Loki resolves qualified imports of any enclosing scope before unqualified ones of the routine itself
            taken |= {s_[3].lower() for r2 in names if place[r2] == m for s_ in body[r2] if s_[0] == 'call' and s_[1] == 'uq'}
            if not others:
                continue
            px = rng.choice(others)
            called = {s_[3] for s_ in body[r] if s_[0] == 'call'} | {s_[4] for s_ in body[r] if s_[0] == 'call'}
            if st[1] == 'only' and rng.random() < 0.4 and px not in called and px.lower() not in taken:
                # module level: plain `use X, only: px`; routine level: `use Y, only: px => py`
                body[r][k] = ('call', 'ren', y, st[3], px)
                mods[m]['mprocs'].append((place[px], px, ''))
            else:
                local = st[4] if st[1] == 'ren' else st[3]
                if local.lower() in taken:
                    continue
                mods[m]['mprocs'].append((place[px], px, local))
    # calls through a module-level import (no import in the routine itself)
    for i, r in enumerate(names):
        m = place[r]
        if not m:
            continue
        for (x, px, local) in mods[m]['mprocs']:
            own = {(s_[4] or s_[3]).lower() for s_ in body[r] if s_[0] == 'call' and s_[1] in ('only', 'ren', 'uq')}
            if names.index(px) > i and (local or px).lower() not in own and not any(s_[0] == 'call' and s_[3] == px for s_ in body[r]) \
                    and not any(s_[0] == 'call' and s_[1] == 'uq' for s_ in body[r]) and rng.random() < 0.3:
                body[r].append(('call', 'modimp', x, px, local))
    # spec
    def sub_spec(r):
        # a self-calling routine carries RECURSIVE only half of the time (F2018: procedures are recursive by default)
        rec = any(s[0] == 'call' and s[3] == r for s in body[r]) and rng.random() < 0.5
        stm = []
        for s in body[r]:
            if s[0] == 'call':
                stm.append([A('call'), A(s[1]), spell(rng, s[2]), spell(rng, s[3]), s[4]])
            elif s[0] == 'self':
                stm.append([A('self'), s[1]])
            else:
                stm.append([A(s[0])] + [spell(rng, x) for x in s[1:]])
        return [A('sub'), spell(rng, r), b2a(rec)] + stm
    files = []
    for m in modnames:
        d = mods[m]
        mod = [A('mod'), spell(rng, m),
               [A('muse')] + [[o, v] for o, v in d['muse']],
               [A('mprocs')] + [[spell(rng, x), spell(rng, p_), l_] for x, p_, l_ in d['mprocs']],
               [A('gvars')] + d['gvars'],
               [A('types')] + [[A('ty'), t] + [[b, p] for b, p in bs] for t, bs in d['types']],
               [A('ifaces')] + [[A('iface'), g] + ps for g, ps in d['ifaces']],
               [A('procs')] + [sub_spec(r) for r in names if place[r] == m]]
        files.append([A('file'), f'{m}.F90', mod])
    for r in names:
        if place[r] == '':
            files.append([A('file'), f'{r}.F90', sub_spec(r)])
    free_files = [f for f in files if head(f[2]) == 'sub']
    if collide and free_files:
        # a second file whose name differs only in case from an existing free-routine file, defining one more free
        # routine (module files are not used as victims: a lost module turns its importers' USE statements into
        # external-module imports, whose treatment depends on the order of earlier imports and is not modelled)
        victim = rng.choice(free_files)
        fn = victim[1]
        other = fn.upper() if fn.upper() != fn else fn.lower()
        other = other[:-4] + '.F90'
        extra = 'zz_hidden'
        files.append([A('file'), other, [A('sub'), extra, b2a(False)]])
        # call it from the first routine
        first = names[0]
        for f in files:
            for u in f[2:]:
                subs = [u] if head(u) == 'sub' else field(u, 'procs')[1:]
                for s in subs:
                    if s[1].lower() == first:
                        s.append([A('call'), A('free'), '', extra, ''])
    rng.shuffle(files)
    return [A('proj')] + files, names, place, modnames


def gen_config(rng, names, place, modnames, proj):
    items, _, _ = truth(proj)
    allnames = sorted(items)

    def some_key():
        n = rng.choice(allnames)
        local = n.split('#')[-1]
        scope = n.split('#')[0] if '#' in n else ''
        r = rng.random()
        if r < 0.3:
            k = local
        elif r < 0.5:
            k = n if scope else local
        elif r < 0.6 and scope:
            k = scope
        elif r < 0.75:
            k = '*' + local[-3:]
        elif r < 0.85:
            k = local[:3] + '*'
        elif r < 0.92 and scope:
            k = scope + '#*'
        else:
            k = local[:-1] + '?'
        return spell(rng, k)

    def keylist(p):
        out = []
        while rng.random() < p:
            out.append(some_key())
        return out

    default = [A('default'), [A('expand'), b2a(rng.random() < 0.9)], [A('strict'), b2a(rng.random() < 0.4)],
               [A('imports'), b2a(rng.random() < 0.5)],
               [A('disable')] + keylist(0.45), [A('block')] + keylist(0.35), [A('ignore')] + keylist(0.25)]
    routines = [A('routines')]
    for _ in range(rng.choice([0, 0, 1, 1, 2, 3])):
        r = rng.choice(names)
        key = r if rng.random() < 0.6 or not place[r] else f'{place[r]}#{r}'
        over = []
        if rng.random() < 0.5:
            over.append([A('expand'), b2a(rng.random() < 0.4)])
        if rng.random() < 0.4:
            over.append([A('block')] + keylist(0.7))
        if rng.random() < 0.3:
            over.append([A('disable')] + keylist(0.7))
        if rng.random() < 0.2:
            over.append([A('ignore')] + keylist(0.7))
        if any(x[1].lower().split('#')[-1] == r for x in routines[1:]):
            continue
        routines.append([A('r'), spell(rng, key)] + over)
    return [A('config'), default, routines]


def gen_seeds(rng, names, place):
    seeds = []
    for _ in range(rng.choice([1, 1, 1, 2, 3])):
        r = rng.choice(names[: max(1, len(names) // 2)])
        s = r if rng.random() < 0.6 or not place[r] else f'{place[r]}#{r}'
        s = spell(rng, s)
        if s.lower() not in [x.lower() for x in seeds]:
            seeds.append(s)
    if rng.random() < 0.08:
        seeds.append('nosuchseed')
    return seeds


def gen_match(rng):
    def ident():
        return spell(rng, rng.choice(_SYL) + rng.choice(['', '_k', '1', rng.choice(_SYL)]))
    r = rng.random()
    if r < 0.15:
        name = ident()
    elif r < 0.5:
        name = f'{rng.choice(["", ident()])}#{ident()}'
    elif r < 0.8:
        name = f'{ident()}#{ident()}' + ''.join('%' + ident() for _ in range(rng.randint(1, 3)))
    elif r < 0.93:
        name = f'{rng.choice(["", ident()])}#{ident()}#{ident()}'
    else:
        name = '#'.join(ident() for _ in range(4))
    parts = [x for x in name.replace('%', '#').split('#') if x]
    keys = []
    for _ in range(rng.randint(0, 4)):
        q = rng.random()
        part = rng.choice(parts)
        if q < 0.2:
            k = part
        elif q < 0.35:
            k = name
        elif q < 0.45:
            k = name.split('#', 1)[-1]
        elif q < 0.55:
            k = name.split('%')[0]
        elif q < 0.65:
            k = '*' + part[-2:]
        elif q < 0.75:
            k = part[:2] + '*'
        elif q < 0.82:
            k = part[:-1] + '?'
        elif q < 0.9:
            k = name.split('#')[0] + '#*'
        elif q < 0.95:
            k = '*%' + parts[-1]
        else:
            k = ident()
        keys.append(spell(rng, k))
    return [A('match'), name, keys, b2a(rng.random() < 0.6), b2a(rng.random() < 0.6)]


class C21(Prop):
    id = 'C21'
    title = 'The scheduler graph is exactly the pruned dependency closure of the seeds'
    model_modules = ['LokiModel.C21.Model']
    props_module = 'LokiModel.Props.C21'
    driver = 'Drivers/C21.lean'
    theorems = ['C21_populate_nodes', 'C21_populate_edges', 'C21_populate_terminates', 'C21_populate_error',
                'C21_children_spec', 'C21_node_one', 'C21_node_uq_single', 'C21_node_uq_duplicate', 'C21_node_imp',
                'C21_match_case_insensitive', 'C21_match_plain_spec', 'C21_match_pattern_spec', 'C21_candidates_scoped',
                'C21_tables', 'C21_glob_spec', 'C21_full_false', 'C21_partial', 'C21_no_full_parse',
                'C21_discover_full_false', 'C21_discover_partial']
    design_ref = 'DESIGN.md 4.D C21'
    level = 'proof'
    level_text = ('Theorems (Lean kernel; every project abstraction, configuration and seed list, no size bound): '
                  'C21_populate_nodes — the items of the model of SGraph._populate are exactly the inductive closure Reach '
                  '(a seed item, or a child of a reachable item); C21_populate_edges — (a,b) is an edge iff a is reachable and b is '
                  'a child of a other than a itself; C21_populate_terminates — the worklist fuel (number of names + 1) always '
                  'suffices; C21_populate_error — an exception is the exception of a reachable item; C21_children_spec / '
                  'C21_node_one / C21_node_imp / C21_node_uq_single — "child" stated outright: dependency of an expanded item '
                  'that _is_ignored (pattern+parent match against global disable, item disable and item block) and the plain '
                  'disable/block filters let through; C21_match_* and C21_glob_spec — decision logic of match_item_keys, its '
                  'case-insensitivity, and the fnmatch matcher against a relational semantics. Full statement for the whole '
                  'Scheduler construction (C21_full) is FALSE for the unchanged code (C21_full_false: with full_parse a cyclic '
                  'file graph raises although the item graph is a DAG) and proved as C21_partial outside the class '
                  'file-graph-cycle; "every definition in the search path is found" (C21_discover_full) is FALSE '
                  '(C21_discover_full_false: Foo.F90/foo.F90) and proved as C21_discover_partial when no two paths are equal up '
                  'to case. The model is tied to loki/batch by exporting the abstraction of generated multi-file Fortran projects '
                  'from the real ItemFactory and comparing the real Scheduler items/edges IN GRAPH ORDER with the Lean driver '
                  '(full_parse on and off), and match_item_keys on generated names/keys; the direct oracle compares the real '
                  'graph with a reference closure computed from the generator\'s ground truth. Two further open defect classes '
                  '(calls resolved through unqualified USE) are characterised in the model (C21_node_uq_single) and on the input; '
                  'they are oracle-level known findings.')
    level_note = ('Hand-written model. The abstraction function (harness export_abs: item -> dependency nodes under a neutral '
                  'config, classified by probing create_from_ir) is trusted but cross-checked by the ground-truth oracle. Not '
                  'modelled: fnmatch bracket classes, _break_cycles on mutually recursive RECURSIVE procedures, plan_data '
                  'additional/removed dependencies, lib propagation, generated/ExternalItem is_generated, is_ignored flags, item '
                  'names with three # parts, ambiguous unqualified seeds, the strict-mode error for items matching several '
                  'routines entries, external modules; that the FP full parse yields the same abstraction as REGEX is checked '
                  'by correspondence only.')
    technique = 'Lean 4 theorems about a hand-written model + correspondence with the real Scheduler on generated projects'
    rule = ('random call DAGs over 3-12 routines placed in free files and modules (calls via same module / ONLY / renamed / '
            'unqualified USE / free / unresolvable, type-bound procedure calls, generic interfaces, global-variable imports, '
            'module-level imports, direct recursion, mixed-case spellings, every 7th project with two files equal up to case) x '
            'configs (expand, strict, enable_imports, disable/block/ignore with plain, scope#name, scope, *suffix, prefix*, scope#*, '
            '? keys, per-routine overrides) x 1-3 seeds (plain, scoped, upper-case, unknown) x full_parse on/off; plus '
            'match_item_keys on generated names (1-4 # parts, % members) and keys; non-trivial = graph with more than one item; '
            'distinct by request line')
    trusted_base = ['harness/props/c21.py export_abs (abstraction function over the real ItemFactory)',
                    'harness/props/c21.py truth/reference_graph (ground-truth reference closure)',
                    'Lean driver evaluation of model definitions']
    assumptions = ['ASCII names; config keys use only * and ? wildcards',
                   'procedure names unique across modules (unqualified seeds resolve as on a fresh cache)',
                   'routines keys distinct up to case and at most one entry per item',
                   'no mutual recursion among RECURSIVE procedures (_break_cycles not modelled)',
                   'REGEX and full FP parse expose the same dependencies (checked by correspondence on generated projects)']
    extra_obligations = ['oracle: real graph vs ground-truth reference closure on every generated case',
                         'abstraction in the request equals a fresh export (stale-abstraction check)',
                         'match_item_keys vs documented rule and case swap on generated names/keys']

    def tables(self):
        """call-site flags of match_item_keys, the expand default and the source suffixes, read from the sources with ast"""
        import ast
        from ..core import REPO
        rows = []
        for f in ['loki/batch/configure.py', 'loki/batch/item_factory.py', 'loki/batch/item.py', 'loki/batch/sgraph.py']:
            tree = ast.parse((REPO / f).read_text())
            for fn in ast.walk(tree):
                if isinstance(fn, ast.FunctionDef):
                    for c in ast.walk(fn):
                        if isinstance(c, ast.Call) and getattr(c.func, 'attr', None) == 'match_item_keys':
                            kw = {k.arg: getattr(k.value, 'value', None) for k in c.keywords}
                            arg2 = ast.unparse(c.args[1]) if len(c.args) > 1 else ''
                            rows.append((fn.name, arg2, bool(kw.get('use_pattern_matching', False)),
                                         bool(kw.get('match_item_parents', False))))
        rows.sort()
        expand_default = None
        tree = ast.parse((REPO / 'loki/batch/configure.py').read_text())
        for cls in ast.walk(tree):
            if isinstance(cls, ast.ClassDef) and cls.name == 'ItemConfig':
                for fn in cls.body:
                    if isinstance(fn, ast.FunctionDef) and fn.name == 'expand':
                        for c in ast.walk(fn):
                            if isinstance(c, ast.Call) and getattr(c.func, 'attr', None) == 'get':
                                expand_default = c.args[1].value
        suffixes = list(Scheduler.source_suffixes)

        def lb(b):
            return 'true' if b else 'false'
        body = ',\n  '.join(f'("{a}", "{b}", {lb(c)}, {lb(d)})' for a, b, c, d in rows)
        text = ('/-! generated from /repo by harness/props/c21.py (tables) — do not edit -/\n'
                'namespace LokiModel.C21.Generated\n\n'
                '/-- (function, keys argument, use_pattern_matching, match_item_parents) of every `match_item_keys` call -/\n'
                f'def matchFlags : List (String × String × Bool × Bool) := [\n  {body}]\n\n'
                '/-- default of `ItemConfig.expand` when the key is absent -/\n'
                f'def expandDefault : Bool := {lb(bool(expand_default))}\n\n'
                '/-- `Scheduler.source_suffixes` -/\n'
                f'def sourceSuffixes : List String := [{", ".join(chr(34) + x + chr(34) for x in suffixes)}]\n\n'
                'end LokiModel.C21.Generated\n')
        return {'LokiModel/Generated/C21Tables.lean': text}

    def gen(self, rng, tier):
        nproj = {'quick': 24, 'thorough': 420, 'search': 120}.get(tier, 24)
        ncfg = {'quick': 4, 'thorough': 6, 'search': 5}.get(tier, 4)
        for p in range(nproj):
            collide = (p % 7 == 3)
            proj, names, place, modnames = gen_project(rng, rng.randint(3, 12), collide=collide)
            absx = export_abs(project_dir(proj))
            for c in range(ncfg):
                cfg = gen_config(rng, names, place, modnames, proj)
                seeds = gen_seeds(rng, names, place)
                fp = (c % 2 == 1)
                req = [A('sched'), proj, cfg, [A('seeds')] + seeds, [A('fullparse'), b2a(fp)], absx]
                ref = reference_graph(proj, decode_config(cfg), seeds)
                yield Case(req, stream=('collide-' if case_collisions(proj) else '') + ('fullparse' if fp else 'regex'),
                           nontrivial=ref[0] == 'ok' and len(ref[1]) > 1)
        nmatch = {'quick': 400, 'thorough': 6000, 'search': 2000}.get(tier, 400)
        for _ in range(nmatch):
            yield Case(gen_match(rng), stream='match')

    # ---- real code
    def impl(self, req):
        if head(req) == 'match':
            try:
                ks = SchedulerConfig.match_item_keys(req[1], [str(k) for k in req[2]], use_pattern_matching=a2b(req[3]),
                                                     match_item_parents=a2b(req[4]))
            except ValueError:
                return [A('error'), A('valueerror')]
            return [A('ok')] + list(ks)
        proj, cfg, seeds, fullparse = decode(req)
        d = project_dir(proj)
        if dumps(export_abs(d)) != dumps(field(req, 'abs')):
            return [A('error'), A('stale-abstraction')]
        ref = reference_graph(proj, cfg, seeds)
        res = run_real(d, cfg, seeds, fullparse, expect_abs=dumps(field(req, 'abs')),
                       doubt=lambda r: ref[0] == 'ok' and self.classify(proj, cfg, fullparse, ref, r) is None)
        if res[0] == 'error':
            return [A('error'), A(res[1])]
        return [A('ok'), [A('nodes')] + [[n, A(k)] for n, k in res[1]], [A('edges')] + [[a, b] for a, b in res[2]]]

    # ---- direct oracle
    def oracle(self, req):
        if head(req) == 'match':
            name, keys, pat, par = req[1], [str(k) for k in req[2]], a2b(req[3]), a2b(req[4])
            if name.count('#') > 2:
                return []
            got = bool(SchedulerConfig.match_item_keys(name, keys, use_pattern_matching=pat, match_item_parents=par))
            cands = name_candidates(name) if par else {name.lower(), name.lower().split('#', 1)[-1]}
            want = any((fnmatch.fnmatchcase(c, k.lower()) if pat else c == k.lower()) for k in keys for c in cands)
            # case-insensitivity: swapping the case of name and keys must not change the outcome
            got2 = bool(SchedulerConfig.match_item_keys(name.swapcase(), [k.swapcase() for k in keys],
                                                        use_pattern_matching=pat, match_item_parents=par))
            out = []
            if got != want:
                out.append(Failure(f'match_item_keys({name!r}, {keys}, pattern={pat}, parents={par}) is {got}, documented rule gives {want}'))
            if got != got2:
                out.append(Failure(f'match_item_keys({name!r}, {keys}) changes with the case of its arguments'))
            return out
        proj, cfg, seeds, fullparse = decode(req)
        ref = reference_graph(proj, cfg, seeds)
        if ref[0] == 'undefined':
            return []
        res = run_real(project_dir(proj), cfg, seeds, fullparse,
                       doubt=lambda r: ref[0] == 'ok' and self.classify(proj, cfg, fullparse, ref, r) is None)
        cls = self.classify(proj, cfg, fullparse, ref, res)
        if ref[0] == 'error':
            if res[0] != 'error':
                return [Failure('reference: unresolved call under strict must raise; scheduler built a graph', cls)]
            return []
        if res[0] == 'error':
            return [Failure(f'scheduler raised {res[1]}; reference graph has {len(ref[1])} items', cls)]
        nodes = {n for n, _ in res[1]}
        edges = set(res[2])
        out = []
        if nodes != ref[1]:
            out.append(Failure(f'items differ: missing {sorted(ref[1] - nodes)} extra {sorted(nodes - ref[1])}', cls))
        elif edges != ref[2]:
            out.append(Failure(f'dependencies differ: missing {sorted(ref[2] - edges)} extra {sorted(edges - ref[2])}', cls))
        elif dict(res[1]) != ref[3]:
            bad = sorted((n, k, ref[3][n]) for n, k in res[1] if ref[3][n] != k)
            out.append(Failure(f'item kinds differ (name, scheduler, reference): {bad}', cls))
        return out

    def classify(self, proj, cfg, fullparse, ref, res):
        """known-finding class of an input (decidable on the input; the observed error kind only selects among them)"""
        def live(sites):
            # call sites whose caller is an expanded item of the reference graph (every site if there is no such graph)
            if ref[0] != 'ok':
                return sites
            return [(a, c) for a, c in sites if a.lower() in ref[1] and conf_of(cfg, a).get('expand', False)]
        if res[0] == 'error' and res[1] == 'networkxunfeasible' and fullparse and ref[0] == 'ok' \
                and file_graph_cyclic(proj, cfg, ref[2]):
            return 'file-graph-cycle'
        if case_collisions(proj):
            return 'file-case-collision'
        if live(uq_fallthrough_sites(proj, cfg)):
            return 'uq-disabled-falls-through'
        if live(uq_unfiltered_sites(proj, cfg)):
            return 'uq-call-unfiltered'
        return None

    def classes(self):
        return ['file-case-collision', 'file-graph-cycle', 'uq-call-unfiltered', 'uq-disabled-falls-through']


PROP = C21()
READY = True
