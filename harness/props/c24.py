"""C24 — Planning mode predicts exactly the files a conversion writes.

Request = (plan (wcfg …) <export of the planning run> <export of the conversion run> (pipeline …) (layout …) (project …)).
``gen`` reuses the C22 project generator, places the files in sub-directories (so that equal file names in different
directories occur), and embeds what the Lean model is fed with: the item graphs after the pipeline in planning mode
(REGEX, full_parse=False) and in conversion mode (FP, full parse), the topological orders of the file graphs of the
writer and of the planner, and the per-file attributes.  ``impl`` rebuilds the project in a mkdtemp directory, runs the
real ``loki_transform`` sequence (pipeline, FileWriteTransformation, CMakePlanTransformation) in planning mode and the
real conversion, and returns the three plan lists per library plus the files the conversion actually created
(directory listing before/after).
"""
import shutil
import tempfile
from pathlib import Path

import networkx as nx

from loki import Scheduler, SchedulerConfig, ProcessingStrategy
from loki.batch import ExternalItem
from loki.frontend import REGEX, FP
from loki.transformations.build_system import (FileWriteTransformation, CMakePlanTransformation,
                                               DependencyTransformation, ModuleWrapTransformation)
from loki.transformations.dependency import DuplicateKernel, RemoveKernel
import loki.logging as _ll

from ..core import Prop, Case, Failure
from ..sexpr import A, dumps
from . import c22
from .c22 import b, ob, ostr, dstr, field, KINDS, kind_of

_ll.set_log_level(_ll.ERROR)

ROOT = '$R'


# ------------------------------------------------------------------ project on disk

def gen_layout(rng, proj):
    """file index -> path relative to the project root; sometimes two files share their name in different directories"""
    files = sorted({u[0] for u in proj['units']})
    layout = {}
    clash = rng.random() < 0.3 and len(files) >= 2
    for f in files:
        sub = rng.choice(['src', 'src/a', 'src/b'])
        layout[f] = f'{sub}/f{f}.F90'
    if clash:
        x, y = rng.sample(files, 2)
        layout[x] = f'src/a/g{x}.F90'
        layout[y] = f'src/b/g{x}.F90'
    return layout


def write_project(proj, cfg, layout, root):
    home = c22.home_of(proj)
    rmap = {r['name']: r for r in proj['routines']}
    files = {}
    for f, kind, name, rs in proj['units']:
        if kind == 'mod':
            txt = [f'module {name}', '  implicit none', f'  integer :: v_{name}', f'  type t_{name}', '    integer :: a',
                   f'  end type t_{name}']
            if rs:
                txt.append('contains')
                for i in rs:
                    txt.append(c22.routine_text(rmap[f'r{i}'], home, cfg))
            txt.append(f'end module {name}')
            files.setdefault(f, []).append('\n'.join(txt) + '\n')
        else:
            for i in rs:
                files.setdefault(f, []).append(c22.routine_text(rmap[f'r{i}'], home, cfg))
    for f, parts in files.items():
        p = Path(root) / layout[f]
        p.parent.mkdir(parents=True, exist_ok=True)
        p.write_text('\n'.join(parts))
    (Path(root) / 'build').mkdir(exist_ok=True)


def make_config(cfg, extra):
    default = {'role': 'kernel', 'expand': True, 'strict': cfg['strict'], 'enable_imports': True,
               'generated': ['xgen0'], 'replicate': extra['dreplicate']}
    if cfg['dmode'] is not None:
        default['mode'] = cfg['dmode']
    if cfg['ddisable']:
        default['disable'] = list(cfg['ddisable'])
    if cfg['dignore']:
        default['ignore'] = list(cfg['dignore'])
    if extra['dlib'] is not None:
        default['lib'] = extra['dlib']
    routines = {}
    for name, ent in cfg['routines']:
        routines[name] = {k: (v if isinstance(v, str) else list(v)) for k, v in ent.items()}
    for name, rep, lib in extra['routines']:
        e = routines.setdefault(name, {})
        if rep is not None:
            e['replicate'] = rep
        if lib is not None:
            e['lib'] = lib
    return SchedulerConfig.from_dict({'default': default, 'routines': routines})


def gen_extra(rng, proj):
    names = [r['name'] for r in proj['routines']]
    ex = dict(dreplicate=rng.random() < 0.3, dlib=rng.choice([None, None, 'libmain']), routines=[])
    for n in names:
        rep = rng.choice([None, None, None, True, False])
        lib = rng.choice([None, None, None, 'liba', 'lib.b'])
        if rep is not None or lib is not None:
            ex['routines'].append([n, rep, lib])
    return ex


def unresolved_renamed(exp_p, exp_v):
    """routines that are regular items of the planning graph and whose `_x`-renamed name is an ExternalItem of the
    conversion graph"""
    plan_items = {x[0].split('#')[-1] for x in sec(exp_p, 'pool') if not ob(x[2])}
    return sorted(x[0] for x in sec(exp_v, 'pool')
                  if ob(x[2]) and x[0].endswith('_x') and x[0].split('#')[-1][:-2] in plan_items)


GATED = ('rename-unresolved-callee',)


def listed_classes():
    from ..core import load_known
    return {k['class'] for k in load_known() if k['property'] == 'C24' and k.get('status', 'open') == 'open'}


def name_generated_items(rng, proj, cfg, kernel):
    """copy of `cfg` in which a disable / block / ignore list (of the calling driver r0, or the default `disable`)
    names the item an item-creating transformation generates from `kernel` (DuplicateKernel suffixes `_dup` /
    `_dupm`), or the original: planning registers generated items in plan_data, the conversion finds them in the IR"""
    import copy
    cfg = copy.deepcopy(cfg)
    home = c22.home_of(proj).get(kernel)
    vals = [kernel + '_dup', kernel + '_dup', kernel]
    if home:
        vals += [f'{home}_dupm#{kernel}_dup', home + '_dupm', home + '_du*']
    else:
        vals += [kernel + '_du*']
    val = rng.choice(vals)
    if rng.random() < 0.25:
        cfg['ddisable'] = sorted(set(cfg['ddisable']) | {val})
        return cfg
    key = rng.choice(['disable', 'disable', 'block', 'ignore'])
    ents = dict(cfg['routines'])
    ent = ents.setdefault('r0', {})
    ent[key] = sorted(set(ent.get(key, [])) | {val})
    cfg['routines'] = [[k, v] for k, v in ents.items()]
    return cfg


def gen_wcfg(rng):
    return dict(suffix=rng.choice([None, None, '.F90', '.f90', '']), outdir=rng.random() < 0.6, root=rng.random() < 0.4,
                modvars=rng.random() < 0.4)


def make_pipeline(pl):
    kind = pl[0]
    if kind == 'none':
        return []
    if kind == 'dup':
        return [DuplicateKernel(duplicate_kernels=(pl[1],), duplicate_suffix='_dup', duplicate_module_suffix='_dupm')]
    if kind == 'rem':
        return [RemoveKernel(remove_kernels=(pl[1],))]
    if kind == 'dep':
        return [DependencyTransformation(suffix='_x', module_suffix='_mod')]
    if kind == 'wrap':
        return [ModuleWrapTransformation(module_suffix='_mod'), DependencyTransformation(suffix='_x', module_suffix='_mod')]
    raise ValueError(kind)


# ------------------------------------------------------------------ the two real runs

def rel(p, root):
    """canonical form of a path: `$R/...` for paths below the scratch root, unchanged (relative) otherwise"""
    s = str(p)
    r = str(root)
    # item names are lower-cased paths, and may carry a prefix ("duplicate of …" after rekey_item_cache)
    return s.replace(r, ROOT).replace(r.lower(), ROOT)


def listing(root):
    return {str(p.relative_to(root)) for p in Path(root).rglob('*') if p.is_file()}


def fw_of(w):
    return FileWriteTransformation(suffix=w['suffix'], include_module_var_imports=w['modvars'])


def run_sched(proj, cfg, extra, layout, w, pl, root, plan):
    """scheduler after pipeline + file write (+ planner), the planner (plan mode) and the new files (conversion)"""
    conf = make_config(cfg, extra)
    out = Path(root) / 'build' if w['outdir'] else None
    sched = Scheduler(paths=[Path(root) / 'src'], config=conf, seed_routines=cfg['seeds'], full_parse=not plan,
                      frontend=REGEX if plan else FP, output_dir=out, xmods=[Path(root) / 'build'])
    strat = ProcessingStrategy.PLAN if plan else ProcessingStrategy.SEQUENCE
    for t in make_pipeline(pl):
        sched.process(t, proc_strategy=strat)
    sched.process(fw_of(w), proc_strategy=strat)
    planner = None
    if plan:
        planner = CMakePlanTransformation(rootpath=root if w['root'] else None)
        sched.process(planner, proc_strategy=ProcessingStrategy.PLAN)
    return sched, planner


def export(sched, w, root):
    """item graph, orders of the writer's and the planner's file graphs, per-file attributes"""
    sg = sched.sgraph
    seen = {t.name: t for t in nx.topological_sort(sg._graph)}
    fac = sched.item_factory
    pool, files, finfo = [], {}, []
    fobj = {}
    for node in sg.items:
        it = seen.get(node.name, node)
        ext = isinstance(it, ExternalItem)
        fname = ''
        if not ext:
            fi = fac.get_or_create_file_item_from_source(it.source, sched.config)
            fname = rel(fi.name, root)
            if fname not in files:
                files[fname] = [fname, ostr(fi.mode), ostr(fi.role)]
                fobj[fname] = fi
        pool.append([it.name, A(kind_of(it)), b(ext), b(it.is_ignored), fname])
    fw = fw_of(w)
    orders = []
    for flt in (fw.item_filter, None):
        fg = sg.as_filegraph(fac, sched.config, item_filter=flt, exclude_ignored=True)
        try:
            orders.append([rel(f.name, root) for f in nx.topological_sort(fg._graph)])
        except nx.NetworkXUnfeasible:
            orders.append(A('none'))
    rootpath = Path(root).resolve() if w['root'] else None
    for fname, fi in fobj.items():
        p = Path(fi.path)
        op = Path(fi.orig_path)

        def shown(q):
            if rootpath is not None:
                return str(q.resolve().relative_to(rootpath))
            return rel(q, root)
        finfo.append([fname, rel(p.parent, root), p.stem, p.suffix, shown(p), b(p.exists()), shown(op), b(op.exists()),
                      b(fi.replicate), ostr(fi.lib), ostr(fi.mode)])
    return [[A('files')] + list(files.values()), [A('pool')] + pool, [A('nodes')] + [n.name for n in sg.items],
            [A('edges')] + [[a.name, c.name] for a, c in sg.dependencies],
            [A('order')] + [t.name for t in nx.topological_sort(sg._graph)],
            [A('forderw'), orders[0]], [A('forderc'), orders[1]], [A('finfo')] + finfo]


def parse_planfile(text):
    """every `set( NAME … )` block of the plan file, in file order: [[NAME, entry, …], …]"""
    import re
    return [[m.group(1)] + m.group(2).split() for m in re.finditer(r'set\(\s*(\w+)\s*(.*?)\s*\)', text, re.S)]


def libmap(d, root):
    return [[ostr(k)] + [rel(p, root) for p in v] for k, v in d.items()]


def real_runs(proj, cfg, extra, layout, w, pl):
    """returns dict(plan=…, conv=…) with exports, plan lists, written files, exceptions"""
    root = tempfile.mkdtemp(prefix='c24_')
    res = {}
    try:
        write_project(proj, cfg, layout, root)
        before = listing(root)
        try:
            sched, planner = run_sched(proj, cfg, extra, layout, w, pl, root, True)
            res['plan'] = dict(exp=export(sched, w, root), transform=libmap(planner.sources_to_transform, root),
                               append=libmap(planner.sources_to_append, root), remove=libmap(planner.sources_to_remove, root))
            planfile = Path(root) / 'build' / 'plan.cmake'
            planner.write_plan(planfile)
            res['plan']['file'] = planfile.read_text().replace(str(root), ROOT)
            res['plan']['sets'] = parse_planfile(res['plan']['file'])
            planfile.unlink()
        except (nx.NetworkXUnfeasible, RuntimeError):
            raise
        except Exception as e:  # pylint: disable=broad-except
            res['plan'] = dict(exc=f'{type(e).__name__}: {str(e)[:160]}')
        try:
            sched, _ = run_sched(proj, cfg, extra, layout, w, pl, root, False)
            res['conv'] = dict(exp=export(sched, w, root),
                               written=sorted(ROOT + '/' + p for p in listing(root) - before))
        except nx.NetworkXUnfeasible:
            raise
        except Exception as e:  # pylint: disable=broad-except
            res['conv'] = dict(exc=f'{type(e).__name__}: {str(e)[:160]}',
                               written=sorted(ROOT + '/' + p for p in listing(root) - before))
    finally:
        shutil.rmtree(root, ignore_errors=True)
    return res


# ------------------------------------------------------------------ request <-> python

def wcfg_sexp(w):
    return [A('wcfg'), ostr(w['suffix']), b(w['outdir']), b(w['root']), b(w['modvars'])]


def decode(req):
    if str(req[0]) != 'plan':
        raise ValueError('not a plan request')
    wx = field(req, 'wcfg')
    w = dict(suffix=dstr(wx[0]), outdir=ob(wx[1]), root=ob(wx[2]), modvars=ob(wx[3]))
    pl = [str(x) for x in field(req, 'pipeline')]
    lay = {int(str(e[0])): str(e[1]) for e in field(req, 'layout')}
    ex = field(req, 'extra')
    extra = dict(dreplicate=ob(ex[0]), dlib=dstr(ex[1]),
                 routines=[[str(e[0]), None if str(e[1]) == 'none' else ob(e[1]), dstr(e[2])] for e in ex[2:]])
    proj, cfg = c22.project_from_sexp([A('project')] + field(req, 'project'))
    if set(lay) != {u[0] for u in proj['units']}:
        raise ValueError('layout does not cover the files')
    return proj, cfg, extra, lay, w, pl


def make_request(proj, cfg, extra, layout, w, pl, res):
    tag = lambda t, exp: [[A(t + str(x[0]))] + x[1:] for x in exp]      # noqa: E731
    return ([A('plan'), wcfg_sexp(w)] + tag('p-', res['plan']['exp']) + tag('v-', res['conv']['exp']) +
            [[A('pipeline')] + [A(pl[0])] + [A(x) for x in pl[1:]],
             [A('layout')] + [[f, p] for f, p in sorted(layout.items())],
             [A('extra'), b(extra['dreplicate']), ostr(extra['dlib'])] +
             [[A(n), A('none') if r is None else b(r), ostr(l)] for n, r, l in extra['routines']],
             c22.project_sexp(proj, cfg)])


_memo = {}


def run_case(req):
    key = dumps(req)
    if key in _memo:
        return _memo[key]
    proj, cfg, extra, layout, w, pl = decode(req)
    res = real_runs(proj, cfg, extra, layout, w, pl)
    if len(_memo) > 3000:
        _memo.clear()
    _memo[key] = (res, (proj, cfg, extra, layout, w, pl))
    return _memo[key]


def known_flags(res):
    p = res['plan']
    app = flat(p['append'])
    fw = sec(p['exp'], 'forderw')[0]
    created = any(x[0] in fw and not ob(x[5]) and not ob(x[8]) and ob(x[7]) for x in sec(p['exp'], 'finfo'))
    return [A('known'), b(len(set(app)) != len(app)),
            b(set(fw) != set(sec(res['conv']['exp'], 'forderw')[0])), b(created)]


def response(req, res):
    if any(isinstance(x, list) and x and str(x[0]) == 'broken' for x in req[1:]):
        return [A('error'), A('unmodelled')]
    if 'exc' in res['plan']:
        return [A('error'), A('plan-exception'), res['plan']['exc'].split(':')[0]]
    if 'exc' in res['conv']:
        return [A('error'), A('convert-exception'), res['conv']['exc'].split(':')[0]]
    emb = [x for x in req[1:] if isinstance(x, list) and (str(x[0]).startswith('p-') or str(x[0]).startswith('v-'))]
    tag = lambda t, exp: [[A(t + str(x[0]))] + x[1:] for x in exp]      # noqa: E731
    if dumps(emb) != dumps(tag('p-', res['plan']['exp']) + tag('v-', res['conv']['exp'])):
        return [A('error'), A('export-mismatch')]
    p = res['plan']
    return [A('ok'), [A('transform')] + p['transform'], [A('append')] + p['append'], [A('remove')] + p['remove'],
            [A('written')] + res['conv']['written'], known_flags(res),
            [A('planfile')] + sorted(p['sets'])]


# ------------------------------------------------------------------ direct oracle

def flat(lm):
    return [x for e in lm for x in e[1:]]


def sec(exp, name):
    for x in exp:
        if str(x[0]) == name:
            return x[1:]
    raise KeyError(name)


def check_property(res, ctx):
    proj, cfg, extra, layout, w, pl = ctx
    fails = []
    if 'exc' in res['plan']:
        return [Failure(f"planning raised {res['plan']['exc']}")]
    p = res['plan']
    if 'exc' in res['conv']:
        return [Failure(f"planning succeeds (append {sorted(flat(p['append']))}) but the conversion raises "
                        f"{res['conv']['exc']}", 'convert-raises' if pl[0] in ('dup', 'rem', 'dep', 'wrap') else None)]
    written = res['conv']['written']
    app = sorted(flat(p['append']))
    # which items are processed differs between the graph built once (planning) and twice (conversion)?
    # class graph-drift: an item present in BOTH graphs (same routine; renaming pipelines add `_x`) is ignored in one and
    # not in the other.  Items present in only one graph are not part of this class.
    def local(n):
        n = n.split('#')[-1]
        return n[:-2] if n.endswith('_x') else n
    ign_p = {local(x[0]): str(x[3]) for x in sec(p['exp'], 'pool')}
    ign_v = {local(x[0]): str(x[3]) for x in sec(res['conv']['exp'], 'pool')}
    drift = sorted(n for n in set(ign_p) & set(ign_v) if ign_p[n] != ign_v[n])
    dup = sorted({x for x in app if app.count(x) > 1})
    if app != written:
        if dup and sorted(set(app)) == written:
            cls = 'output-collision'
            what = (f'plan appends {dup} more than once: different source files map to the same output file, the '
                    f'conversion leaves {len(written)} files for {len(app)} planned')
        elif unresolved_renamed(p['exp'], res['conv']['exp']):
            cls = 'rename-unresolved-callee'
            what = (f'plan appends {app} but the conversion wrote {written}: the pipeline renames the calls to '
                    f'{unresolved_renamed(p["exp"], res["conv"]["exp"])} but not the routines themselves (driver role / '
                    f'ignored); non-strict, so the renamed callee becomes an ExternalItem in the conversion graph and its '
                    f'file is not written, while planning (the renaming transformations have no plan_* methods) lists it')
        elif drift:
            cls = 'graph-drift'
            what = (f'plan appends {app} but the conversion wrote {written}: items {drift[:4]} differ (ignored / present) '
                    f'between the planning graph (built once) and the conversion graph (rebuilt after the full parse)')
        else:
            cls, what = None, f'plan appends {app} but the conversion wrote {written}'
        fails.append(Failure(what, cls))
    # origins / replaced, from the planning graph and the generator's ground truth (layout, replicate flags)
    pool = sec(p['exp'], 'pool')
    fwkinds = ('proc', 'module') if w['modvars'] else ('proc',)
    rep = {n: r for n, r, _ in extra['routines'] if r is not None}

    def item_rep(name):
        return rep.get(name.split('#')[-1], extra['dreplicate'])
    finfo = {x[0]: x for x in sec(p['exp'], 'finfo')}
    planned = []            # files the writer plans: they hold a non-ignored item of the writer's kinds
    for x in pool:
        if not ob(x[2]) and not ob(x[3]) and str(x[1]) in fwkinds and x[4] not in planned:
            planned.append(x[4])
    origs = {ROOT + '/' + v: v for v in layout.values()}

    def show(q):                                    # q = $R/src/…  ->  as listed
        return q[len(ROOT) + 1:] if w['root'] else q
    want_t, want_r = [], []
    for f in planned:
        members = [x for x in pool if x[4] == f and not ob(x[2]) and not ob(x[3])]
        replicated = any(item_rep(x[0]) for x in members)
        fi = finfo[f]
        cur = fi[1] + '/' + fi[2] + fi[3]
        if cur in origs:
            want_t.append(show(cur))
            if not replicated:
                want_r.append(show(cur))
        else:
            # a file created by the pipeline: derived from the original it was cloned from
            want_t.append(fi[6])
    if not drift and not dup:
        got_t = set(flat(p['transform']))
        if got_t != set(want_t):
            created = {finfo[f][6] for f in planned if (finfo[f][1] + '/' + finfo[f][2] + finfo[f][3]) not in origs}
            cls = 'created-not-replicated' if got_t < set(want_t) and set(want_t) - got_t <= created else None
            fails.append(Failure(f"sources_to_transform {sorted(got_t)} but the written files derive from "
                                 f"{sorted(set(want_t))} (file created by the pipeline, not replicated: its original is "
                                 f"not listed)", cls))
        if sorted(flat(p['remove'])) != sorted(want_r):
            fails.append(Failure(f"sources_to_remove {sorted(flat(p['remove']))} but the replaced originals are {sorted(want_r)}"))
    # the plan file: every block, global and per library
    sets = {}
    for blk in p.get('sets', []):
        if blk[0] in sets:
            fails.append(Failure(f'plan file defines {blk[0]} twice (library names that differ only in the sanitised character)',
                                 'planfile-key-clash'))
        sets[blk[0]] = blk[1:]
    libs = []
    for lm in (p['transform'], p['append'], p['remove']):
        for e in lm:
            k = dstr(e[0])
            if k is not None and k not in libs:
                libs.append(k)
    clash = len({k.replace('.', '_') for k in libs}) != len(libs)
    for name, lm in (('APPEND', p['append']), ('TRANSFORM', p['transform']), ('REMOVE', p['remove'])):
        got = sets.get('LOKI_SOURCES_TO_' + name)
        if got != flat(lm):
            fails.append(Failure(f'plan file LOKI_SOURCES_TO_{name} = {got}, lists say {flat(lm)}'))
        for k in libs:
            blk = sets.get(f"LOKI_SOURCES_TO_{name}_{k.replace('.', '_')}")
            mine = [x for e in lm if dstr(e[0]) == k for x in e[1:]]
            if blk is None:
                fails.append(Failure(f'plan file has no LOKI_SOURCES_TO_{name} block for library {k}'))
                continue
            if not clash and blk != mine:
                fails.append(Failure(f"plan file LOKI_SOURCES_TO_{name}_{k.replace('.', '_')} = {blk} but the {name.lower()} "
                                     f'list of library {k} is {mine}'))
            extra_ = [x for x in blk if x not in (got or [])]
            if extra_:
                fails.append(Failure(f"plan file LOKI_SOURCES_TO_{name}_{k.replace('.', '_')} lists {extra_} which are not in "
                                     f'the global LOKI_SOURCES_TO_{name}'))
    # independent of the lists: no replicated (or unprocessed) original in any REMOVE block
    if not drift and not dup:
        for nm, blk in sets.items():
            if nm.startswith('LOKI_SOURCES_TO_REMOVE'):
                bad = sorted(set(blk) - set(want_r))
                if bad:
                    fails.append(Failure(f'plan file {nm} removes {bad}: not originals that are replaced (replicated files '
                                         f'stay in the build)'))
    return fails


# ------------------------------------------------------------------ the property object

class C24(Prop):
    id = 'C24'
    title = 'Planning mode predicts exactly the files a conversion writes'
    model_modules = ['LokiModel.C24.Model']
    props_module = 'LokiModel.Props.C24'
    findings_module = 'LokiModel.Findings.C24'
    driver = 'Drivers/C24.lean'
    theorems = ['C24_append_spec', 'C24_transform_eq_origins', 'C24_remove_eq_replaced', 'C24_remove_sub_transform',
                'C24_append_eq_writes', 'C24_append_eq_written', 'C24_append_covers_written', 'C24_writer_sub_planner',
                'C24_plan_eq_conversion', 'C24_plan_transform_remove_all', 'C24_transform_derived_partial',
                'C24_outdir_name_only', 'C24_nooutdir_same_dir', 'C24_planfile_lib_spec', 'C24_planfile_lib_sub_global']
    design_ref = 'DESIGN.md 4.D C24'
    level_text = ('Lean theorems for ALL traversals, file attributes and writer configurations about a model of '
                  'FileWriteTransformation (_get_file_path, plan_file, transform_file) and of the CMakePlanTransformation.plan_file '
                  'state machine, composed with the C22 model of as_filegraph/SFilter: C24_append_spec / C24_transform_eq_origins / '
                  'C24_remove_eq_replaced give the three per-library lists exactly (in traversal order); C24_remove_sub_transform '
                  '(every removed file is listed as transformed and has its replacement appended in the same library); '
                  'C24_append_eq_writes (sources_to_append is a permutation of the sequence of files the conversion writes, for any '
                  'duplicate-free traversals where the planner covers the writer and both runs select the same files) and '
                  'C24_append_eq_written (under the explicit injectivity side condition KnownCollision = false it is duplicate free and '
                  'equals the set of files existing afterwards; without it C24_append_covers_written: same members); '
                  'C24_writer_sub_planner (from the C22 file-graph characterisation: every file the writer visits the planner visits) '
                  'and C24_plan_eq_conversion (end to end for all item graphs of the two runs and all topological orders networkx '
                  'may return, under the hypothesis SameSelection). _partial: C24_transform_derived_partial (transform = files the '
                  'planned files derive from, outside KnownCreatedNotReplicated). Findings module (not gating): the de-duplication '
                  'test never triggers; the full statements without injectivity / SameSelection / replicate are refuted by replayed '
                  'witnesses. Tied to the code by running the real planning sequence (pipeline, FileWriteTransformation, '
                  'CMakePlanTransformation; REGEX, full_parse=False) and the real conversion (full FP parse, files written into a '
                  'mkdtemp directory, listing before/after) on generated projects and diffing the three lists per library, the '
                  'written files and three class memberships with the Lean driver fed with the exported graphs; the direct oracle '
                  'compares the real plan with the real directory diff and with origins/replaced files computed from the '
                  "generator's layout and replicate flags.")
    level_note = ('Item graphs after the pipeline (both runs), topological orders and per-file attributes (path split by pathlib, '
                  'exists(), orig_path, replicate, lib, mode as left by _populate_filegraph) are exported from the real objects, not '
                  'verified; paths are strings ($R = scratch root), rootpath handling (resolve().relative_to) is done by the '
                  'abstraction function; DuplicateKernel / RemoveKernel / DependencyTransformation / ModuleWrapTransformation are not '
                  'modelled themselves: the model is fed the graphs they leave behind, their plan-vs-convert agreement is checked by the '
                  'oracle only (class convert-raises when the conversion raises); write_plan is compared textually with the lists '
                  '(oracle); cyclic file graphs (C22 finding) and multi-pipeline mode are not generated.')
    rule = ('C22 project generator (acyclic file placement, no externals) with files placed in src, src/a, src/b and 30% name clashes '
            'across directories; configs: default/per-routine replicate and lib, default mode (None, idem, scc-hoist), disable/ignore/'
            'block lists, extra seeds, strict; writer: suffix (None, .F90, .f90, empty), output_dir or not, rootpath or not, '
            'include_module_var_imports; pipelines none / DependencyTransformation / ModuleWrap+Dependency / DuplicateKernel / '
            'RemoveKernel; non-trivial = at least two appended files; distinct by request line')
    trusted_base = ['harness/props/c24.py export() and real_runs() (abstraction of the two real runs, directory diff)',
                    'harness/props/c24.py check_property (direct oracle)', 'C22 model of as_filegraph / SFilter (own correspondence)',
                    'Lean driver evaluation of model definitions']
    assumptions = ['different file items have different names; the sources lie below rootpath when one is given',
                   'the file attributes are the same in the planning and the conversion run (exported separately, compared per run)',
                   'FileWriteTransformation and CMakePlanTransformation are processed without a mode argument, as loki_transform does']
    extra_obligations = ['oracle: real plan lists vs files actually written, origins and replaced files from ground truth, plan file text',
                         'correspondence of the class predicates (collision, drift, created-not-replicated) with the harness classifiers']

    def tables(self):
        """constants of `_get_file_path` read from the source with ast"""
        import ast
        from ..core import REPO
        src = (REPO / 'loki/transformations/build_system/file_write.py').read_text()
        fn = next(n for n in ast.walk(ast.parse(src)) if isinstance(n, ast.FunctionDef) and n.name == '_get_file_path')
        default, rep = None, None
        for n in ast.walk(fn):
            if isinstance(n, ast.IfExp) and isinstance(n.orelse, ast.Constant) and isinstance(n.orelse.value, str) \
                    and default is None:
                default = n.orelse.value
            if isinstance(n, ast.Call) and isinstance(n.func, ast.Attribute) and n.func.attr == 'replace':
                rep = [a.value for a in n.args]
        if default is None or rep is None or len(rep) != 2 or any(len(x) != 1 for x in rep):
            raise ValueError('cannot read the constants of _get_file_path')
        psrc = (REPO / 'loki/transformations/build_system/plan.py').read_text()
        wp = next(n for n in ast.walk(ast.parse(psrc)) if isinstance(n, ast.FunctionDef) and n.name == 'write_plan')
        krep = None
        for n in ast.walk(wp):
            if isinstance(n, ast.Call) and isinstance(n.func, ast.Attribute) and n.func.attr == 'replace':
                krep = [a.value for a in n.args]
        if krep is None or len(krep) != 2 or any(len(x) != 1 for x in krep):
            raise ValueError('cannot read the key sanitising of write_plan')
        q = lambda c: "'\\''" if c == "'" else f"'{c}'"      # noqa: E731
        return {'LokiModel/Generated/C24Tables.lean':
                '/-! generated from loki/transformations/build_system/file_write.py:_get_file_path — do not edit -/\n'
                'namespace LokiModel.C24.Tables\n'
                f'def defaultMode : String := {dumps(default)}\n'
                f'def sanFrom : Char := {q(rep[0])}\n'
                f'def sanTo : Char := {q(rep[1])}\n'
                f'def keyFrom : Char := {q(krep[0])}\n'
                f'def keyTo : Char := {q(krep[1])}\n'
                'end LokiModel.C24.Tables\n'}

    def gen(self, rng, tier):
        nproj = {'quick': 20, 'thorough': 150, 'search': 50}.get(tier, 20)
        per = {'quick': 3, 'thorough': 4, 'search': 3}.get(tier, 3)
        for _ in range(nproj):
            proj = c22.gen_project(rng, cyc_bias=0.0)
            for r in proj['routines']:      # unresolved / generated externals have no files: not C24's subject
                r['ext'], r['xmod'] = [], False
            cfg = c22.gen_config(rng, proj)
            extra = gen_extra(rng, proj)
            layout = gen_layout(rng, proj)
            cfg['dmode'] = rng.choice([None, 'idem', 'idem', 'scc-hoist'])
            callees = proj['routines'][0]['calls']
            for _ in range(per):
                w = gen_wcfg(rng)
                kind = rng.choice(['none', 'none', 'dep', 'wrap', 'dup', 'rem'])
                pl = [kind]
                if kind in ('dup', 'rem'):
                    if not callees:
                        pl = ['none']
                    else:
                        pl.append(rng.choice(callees))
                cfg0 = cfg
                if pl[0] in ('dup', 'rem') and rng.random() < 0.6:
                    cfg = name_generated_items(rng, proj, cfg0, pl[1])
                try:
                    case = self._case(proj, cfg, extra, layout, w, pl)
                finally:
                    cfg = cfg0
                if case is None:
                    break
                if case is False:
                    continue
                yield case

    def _case(self, proj, cfg, extra, layout, w, pl):
        if True:
            if True:
                try:
                    res = real_runs(proj, cfg, extra, layout, w, pl)
                except (nx.NetworkXUnfeasible, RuntimeError):
                    return None  # cyclic file graph (C22 finding) / strict-mode graph construction: not C24's subject
                if 'exc' in res['plan'] or 'exc' in res['conv']:
                    req = [A('plan'), wcfg_sexp(w), [A('broken')]] + make_request(
                        proj, cfg, extra, layout, w, pl, dict(plan=dict(exp=[]), conv=dict(exp=[])))[2:]
                    return Case(req, stream='exception-' + pl[0], nontrivial=False)
                # inputs of a defect class that is not (yet) listed among the known findings are not generated
                hit = {f.cls for f in check_property(res, (proj, cfg, extra, layout, w, pl))} & set(GATED)
                if hit - listed_classes():
                    return False
                req = make_request(proj, cfg, extra, layout, w, pl, res)
                return Case(req, stream=pl[0] + ('-outdir' if w['outdir'] else ''),
                            nontrivial=len(flat(res['plan']['append'])) >= 2)

    def impl(self, req):
        res, _ = run_case(req)
        return response(req, res)

    def canon_model(self, resp):
        if isinstance(resp, list) and resp and str(resp[0]) == 'ok':
            return [[x[0]] + sorted(x[1:]) if isinstance(x, list) and x and str(x[0]) in ('written', 'planfile') else x
                    for x in resp]
        return resp

    def oracle(self, req):
        res, ctx = run_case(req)
        return check_property(res, ctx)

    def classes(self):
        return ['output-collision', 'graph-drift', 'convert-raises', 'created-not-replicated', 'rename-unresolved-callee']

    def shrink_candidates(self, req):
        """structure-preserving smaller requests (the oracle works from wcfg/pipeline/layout/extra/project alone)"""
        keep = ('wcfg', 'broken', 'pipeline', 'layout', 'extra', 'project')
        head = [x for x in req[1:] if isinstance(x, list) and str(x[0]) in keep]
        if len(head) < len(req) - 1:
            if not any(str(x[0]) == 'broken' for x in head):
                head.insert(1, [A('broken')])
            yield [req[0]] + head
            return
        for i, x in enumerate(req):
            if not isinstance(x, list):
                continue
            if str(x[0]) == 'extra':
                for j in range(3, len(x)):
                    yield req[:i] + [x[:j] + x[j + 1:]] + req[i + 1:]
            if str(x[0]) == 'pipeline' and str(x[1]) != 'none':
                yield req[:i] + [[x[0], A('none')]] + req[i + 1:]
            if str(x[0]) == 'project':
                for k, y in enumerate(x):
                    if isinstance(y, list) and str(y[0]) == 'config':
                        for j in range(6, len(y)):
                            yield req[:i] + [x[:k] + [y[:j] + y[j + 1:]] + x[k + 1:]] + req[i + 1:]


PROP = C24()
READY = True
