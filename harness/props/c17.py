"""C17 — cloning a program unit yields an independent, correctly scoped copy.

Request (one whole history per line)

    (clone17 <heap> <root> <ops>)      -- what the Lean driver reads
    wrapped as  (c17 (src "<fortran>") (defs "<fortran>") (target "<unit name>") (model (clone17 …)))

`heap` is the export of the real objects the frontend built for `src` (cells with owner tags, see lean/LokiModel/C17/Model.lean),
`ops` the edit history applied to the original (`o`) or to the clone (`c`).  The response lists, after the clone and after every
op, the abstraction of both copies (names, table entries, every symbol occurrence with the type code its scope yields and the
name and owner of that scope) and what the heap walker finds shared.
"""
import weakref
import zlib

import pymbolic.primitives as pmbl

from loki import Sourcefile, Subroutine, Module, fgen, Scope, BasicType, SymbolAttributes, Variable
from loki import ir
from loki.ir import nodes as irn
from loki.expression import symbols as sym, ExpressionRetriever
from loki.program_unit import ProgramUnit
from loki.types import SymbolTable, ProcedureType, DerivedType

from ..core import Prop, Case, Failure
from ..sexpr import A, dumps, loads

NONE = A('none')


# ------------------------------------------------------------------------------------------ program generator

def gen_program(rng, tier, force=None):
    """a Fortran source (one module with optional derived type, module variables, routines with members and associates,
    or a bare subroutine) plus an optional definitions module; returns dict(src, defs, targets, feats)"""
    f = dict(
        module=rng.random() < 0.7, typedef=rng.random() < 0.3, members=rng.random() < 0.6,
        assoc=rng.random() < 0.5, defs=rng.random() < 0.35, two=rng.random() < 0.6, modvar=rng.random() < 0.7,
        doc=rng.random() < 0.5, attr=rng.random() < 0.45,
    )
    # the attribute-rich procedure: prefix x BIND(C, name=…) x function/result clause
    att = dict(prefix=rng.choice(['', '', 'pure', 'elemental', 'recursive', 'pure']), bind=rng.random() < 0.6,
               func=rng.random() < 0.5, result=rng.random() < 0.6, doc=rng.randint(0, 2))
    if att['prefix'] == 'elemental':
        att['bind'] = False      # an elemental procedure cannot have a language binding (fparser rejects it)
    if force:
        f.update(force)
    if not f['module']:
        f['typedef'] = False
        f['modvar'] = False
    nv = rng.randint(1, 3)
    loc = [f'v{i}' for i in range(nv)]
    L = []
    defs = ''
    if f['defs']:
        defs = ('module d_mod\n  implicit none\n  real :: dg\ncontains\n  subroutine ext(w)\n    real, intent(inout) :: w\n'
                '    w = w + dg\n  end subroutine ext\nend module d_mod\n')
    ind = '  ' if f['module'] else ''
    def doc(k, ind_):
        # two adjacent comment lines form a CommentBlock (its inner Comment objects are exported as children of the block)
        return [f'{ind_}! documentation line {j} of {k}' for j in range(rng.randint(1, 2))] if f['doc'] else []

    if f['module']:
        L += ['module m_mod'] + doc('m_mod', '  ')
        if f['defs']:
            L += ['  use d_mod, only: ext, dg']
        L += ['  implicit none']
        if f['typedef']:
            L += ['  type t_pt', '    real :: a', '    integer :: n', '  end type t_pt']
        if f['modvar']:
            L += ['  real :: g', '  integer, parameter :: jp = 4']
        L += ['contains']

    def routine(name, callee, with_members):
        R = [f'subroutine {name}(x, n)'] + doc(name, '  ')
        if f['defs'] and not f['module']:
            R += ['  use d_mod, only: ext, dg']
        R += ['  integer, intent(in) :: n', '  real, intent(inout) :: x(n)']
        for v in loc:
            R += [f'  real :: {v}']
        if f['typedef']:
            R += ['  type(t_pt) :: p']
        R += ['  integer :: i']
        R += ['  do i = 1, n', f'    x(i) = x(i) + {loc[0]}' + (' + g' if f['modvar'] else '') + (' + p%a' if f['typedef'] else ''),
              '  end do']
        if f['assoc']:
            R += ['  associate(y => x(1))', f'    y = y + {loc[-1]}', '  end associate']
        if f['doc']:
            R += [f'  ! block comment one in {name}', f'  ! block comment two in {name}']
        if callee:
            R += [f'  call {callee}(x, n)']
        if f['defs']:
            R += ['  call ext(x(1))']
        if with_members:
            R += [f'  call {name}_in(x(1))', 'contains', f'  subroutine {name}_in(z)'] + doc(name + '_in', '    ') + ['    real, intent(inout) :: z',
                  '    real :: w', f'    w = {loc[0]}', '    z = z + x(2) + w' + (' + g' if f['modvar'] else ''),
                  f'  end subroutine {name}_in']
        R += [f'end subroutine {name}']
        return [ind + r for r in R]

    def attr_routine():
        pre = (att['prefix'] + ' ') if att['prefix'] else ''
        bind = " bind(c, name='p_att_c')" if att['bind'] else ''
        dl = [f'  ! attribute doc {j}' for j in range(att['doc'])]
        if att['func']:
            res = 'r_att' if att['result'] else 'p_att'
            R = [f'{pre}function p_att(i)' + (' result(r_att)' if att['result'] else '') + bind] + dl + \
                ['  integer, intent(in) :: i', f'  integer :: {res}', f'  {res} = 2*i', 'end function p_att']
        else:
            R = [f'{pre}subroutine p_att(i, k)' + bind] + dl + \
                ['  integer, intent(in) :: i', '  integer, intent(out) :: k', '  k = 2*i', 'end subroutine p_att']
        return [ind + r for r in R]

    names = ['s_one']
    if f['attr'] and f['module']:
        L += attr_routine()
    if f['two'] and f['module']:
        L += routine('s_two', None, False)
        names.append('s_two')
    L += routine('s_one', 's_two' if (f['two'] and f['module']) else None, f['members'])
    if f['module']:
        L += ['end module m_mod']
    elif f['attr']:
        # a bare file: the attribute-rich procedure alone
        L = attr_routine()
    src = '\n'.join(L) + '\n'
    targets = []
    if f['module']:
        targets += ['m_mod', 'm_mod', 's_one'] + (['s_two'] if 's_two' in names else []) + (['p_att', 'p_att'] if f['attr'] else [])
    elif f['attr']:
        return dict(src=src, defs='', targets=['p_att'], feats=dict(f, members=False, defs=False, assoc=False))
    else:
        targets += ['s_one']
    if f['members']:
        targets.append('s_one_in')
    return dict(src=src, defs=defs, targets=targets, feats=f)


TYPES = [
    lambda: SymbolAttributes(BasicType.INTEGER),
    lambda: SymbolAttributes(BasicType.REAL),
    lambda: SymbolAttributes(BasicType.LOGICAL),
    lambda: SymbolAttributes(BasicType.REAL, kind=sym.IntLiteral(8)),
]


def tcode(t):
    """type code of a SymbolAttributes: what the model calls `Ty.code`"""
    if t is None:
        return None
    if isinstance(t.dtype, ProcedureType):
        return 1
    return 1000 + zlib.crc32(repr(t).encode()) % 1000000


DCODE = tcode(SymbolAttributes(BasicType.DEFERRED))


# ------------------------------------------------------------------------------------------ real objects: structure

def split_children(node):
    """(kids: child IR nodes, syms: typed symbols of the node's own expressions, in traversal order)"""
    kids, syms = [], []

    def rec(c):
        if isinstance(c, irn.Node):
            kids.append(c)
        elif isinstance(c, ProgramUnit):
            pass
        elif isinstance(c, (tuple, list)):
            for x in c:
                rec(x)
        elif isinstance(c, pmbl.Expression):
            r = ExpressionRetriever(lambda e: isinstance(e, sym.TypedSymbol))
            syms.extend(r.retrieve(c))
    for c in node.children:
        rec(c)
    if isinstance(node, irn.CommentBlock):
        # not traversable for visitors, but part of the node: every rebuild of the block rebuilds its comments (CommentBlock._rebuild)
        kids.extend(node.comments)
    return kids, syms


def sections(u):
    """spec, body, contains, then the docstring nodes (`unit.docstring` is a tuple of Comment/CommentBlock nodes that `clone` rebuilds
    like the sections; they come last so that the spec stays the first section)"""
    return [s for s in (u.spec, getattr(u, 'body', None) if isinstance(u, Subroutine) else None, u.contains) if s is not None] + \
        [d for d in (u.docstring or ()) if isinstance(d, irn.Node)]


def section_names(u):
    out = []
    if u.spec is not None:
        out.append('spec')
    if isinstance(u, Subroutine) and u.body is not None:
        out.append('body')
    if u.contains is not None:
        out.append('contains')
    return out + ['doc' for d in (u.docstring or ()) if isinstance(d, irn.Node)]


def unit_attrs(u):
    """the plain constructor attributes of a unit as strings (model: `attrs` of the unit cell)"""
    out = [type(u).__name__]
    if isinstance(u, Subroutine):
        out += ['prefix=' + ','.join(str(x) for x in u.prefix), 'bind=' + str(u.bind), 'args=' + ','.join(u._dummies)]
        if u.is_function:
            out += ['result=' + str(u.result_name)]
    if isinstance(u, Module):
        out += ['access=' + str(u.default_access_spec), 'public=' + ','.join(u.public_access_spec),
                'private=' + ','.join(u.private_access_spec)]
    return out


def comments_below(u):
    """the Comment nodes of a unit (not of its members) in pre-order over the sections incl. the docstring"""
    out = []

    def rec(n):
        if isinstance(n, irn.Comment):
            out.append(n)
        for k in split_children(n)[0]:
            rec(k)
    for sec in sections(u):
        rec(sec)
    return out


def members(u):
    return [n for n in (u.contains.body if u.contains is not None else ()) if isinstance(n, ProgramUnit)]


def scoped_below(node):
    out = []
    if isinstance(node, Scope):
        out.append(node)
    kids, _ = split_children(node)
    for k in kids:
        out += scoped_below(k)
    return out


def own_scopes(u):
    """scope objects owned by the unit tree: units and scoped nodes"""
    out = [u]
    for s in sections(u):
        out += scoped_below(s)
    for mu in members(u):
        out += own_scopes(mu)
    return out


def all_symbols(u):
    """every symbol occurrence of the unit tree in render order"""
    out = []

    def rec(n):
        kids, syms = split_children(n)
        out.extend(syms)
        for k in kids:
            rec(k)
    for s in sections(u):
        rec(s)
    for mu in members(u):
        out.extend(all_symbols(mu))
    return out


def scope_name(s):
    if isinstance(s, ProgramUnit):
        return s.name
    return type(s).__name__


def lname(n):
    return n.lower().partition('(')[0]


# ------------------------------------------------------------------------------------------ export: real objects -> model heap

class Export:
    def __init__(self):
        self.cells = []       # [tag, cell] ; cell filled later
        self.addr = {}        # id(obj) -> address
        self.keep = []

    def new(self, obj):
        self.addr[id(obj)] = len(self.cells)
        self.keep.append(obj)
        self.cells.append(None)
        return len(self.cells) - 1

    def a(self, obj):
        return NONE if obj is None or id(obj) not in self.addr else self.addr[id(obj)]

    # pass 1: addresses
    def number_node(self, n):
        self.new(n)
        if isinstance(n, Scope):
            self.new(n.symbol_attrs)
        for k in split_children(n)[0]:
            self.number_node(k)

    def number_unit(self, u):
        self.new(u)
        self.new(u.symbol_attrs)
        for s in sections(u):
            self.number_node(s)
        for mu in members(u):
            self.number_unit(mu)

    # pass 2: cells
    def tab_cell(self, t):
        ents = []
        for k, v in dict.items(t):
            td = NONE
            if isinstance(v.dtype, DerivedType) and isinstance(v.dtype.typedef, irn.TypeDef):
                td = self.a(v.dtype.typedef)
            pr = NONE
            if isinstance(v.dtype, ProcedureType) and isinstance(v.dtype.procedure, ProgramUnit):
                pr = self.a(v.dtype.procedure)
            ents.append([k, tcode(v), td, pr])
        return [A('tab'), self.a(t.parent), ents]

    def fill_node(self, n, tag):
        kids, syms = split_children(n)
        sc = NONE
        if isinstance(n, Scope):
            sc = [self.a(n.symbol_attrs), self.a(n.parent)]
            self.cells[self.addr[id(n.symbol_attrs)]] = [tag, self.tab_cell(n.symbol_attrs)]
        self.cells[self.addr[id(n)]] = [tag, [A('node'), type(n).__name__, sc,
                                              [[lname(s.name), self.a(s.scope)] for s in syms], [self.a(k) for k in kids]]]
        for k in kids:
            self.fill_node(k, tag)

    def fill_unit(self, u, tag, own):
        t = 1 if (tag == 1 or u is own) else 0
        self.cells[self.addr[id(u.symbol_attrs)]] = [t, self.tab_cell(u.symbol_attrs)]
        self.cells[self.addr[id(u)]] = [t, [A('unit'), isinstance(u, Module), u.name, unit_attrs(u), self.a(u.parent), self.a(u.symbol_attrs),
                                            [self.a(s) for s in sections(u)], [self.a(mu) for mu in members(u)]]]
        for s in sections(u):
            self.fill_node(s, t)
        for mu in members(u):
            self.fill_unit(mu, t, own)


def top_units(sf):
    return [n for n in sf.ir.body if isinstance(n, ProgramUnit)]


def find_unit(units, name):
    for u in units:
        if u.name.lower() == name.lower():
            return u
        r = find_unit(members(u), name)
        if r is not None:
            return r
    return None


def parse(src, defs):
    dsf = Sourcefile.from_source(defs) if defs else None
    sf = Sourcefile.from_source(src, definitions=dsf.modules if dsf else None)
    return sf, dsf


def export(sf, dsf, target):
    ex = Export()
    roots = (top_units(dsf) if dsf else []) + top_units(sf)
    for u in roots:
        ex.number_unit(u)
    for u in roots:
        ex.fill_unit(u, 0, target)
    return ex


# ------------------------------------------------------------------------------------------ heap walker on real objects

MUTABLE = (ProgramUnit, Scope, SymbolTable, irn.Node, Sourcefile)
ATOMS = (str, int, float, bool, type(None), type, bytes, weakref.ref)


def walk(root, stop):
    """ids -> objects reachable from root through __dict__/slots/tuples/lists/dicts/sets (weak references are not followed),
    not entering objects whose id is in `stop`"""
    seen, todo = {}, [root]
    while todo:
        o = todo.pop()
        if id(o) in seen or id(o) in stop or isinstance(o, ATOMS):
            continue
        if callable(o) and not hasattr(o, '__dict__'):
            continue
        seen[id(o)] = o
        if isinstance(o, dict):
            todo.extend(o.keys())
            todo.extend(o.values())
        if isinstance(o, (tuple, list, set, frozenset)):
            todo.extend(o)
        d = getattr(o, '__dict__', None)
        if isinstance(d, dict):
            todo.extend(d.values())
        for cls in type(o).__mro__:
            for s in getattr(cls, '__slots__', ()) if isinstance(getattr(cls, '__slots__', ()), (tuple, list)) else ():
                if hasattr(o, s):
                    todo.append(getattr(o, s))
        if isinstance(o, pmbl.Expression) and hasattr(o, '__getinitargs__'):
            try:
                todo.extend(o.__getinitargs__())
            except Exception:  # pylint: disable=broad-except
                pass
    return seen


def mutable(seen):
    return {i: o for i, o in seen.items() if isinstance(o, MUTABLE)}


def walker_label(o):
    if isinstance(o, ProgramUnit):
        return 'unit'
    return type(o).__name__


def env_ids(env_roots, orig):
    ids = {}
    for r in env_roots:
        ids.update(walk(r, {id(orig)}))
    return set(ids)


def shared_objects(orig, copy, env):
    a = mutable(walk(orig, env))
    b = mutable(walk(copy, env))
    return [a[i] for i in set(a) & set(b)]


# ------------------------------------------------------------------------------------------ abstraction of real objects (= model `render`)

def render_node(n):
    kids, syms = split_children(n)
    out = [A('<'), [A('n'), type(n).__name__]]
    if isinstance(n, Scope):
        out += [[A('e'), k, tcode(v)] for k, v in dict.items(n.symbol_attrs)]
    for s in syms:
        sc = s.scope
        t = sc.symbol_attrs.lookup(s.name) if sc is not None else None
        out.append([A('s'), lname(s.name), NONE if t is None else tcode(t), NONE if sc is None else scope_name(sc)])
    for k in kids:
        out += render_node(k)
    return out + [A('>')]


def render_unit(u):
    out = [A('<'), [A('n'), u.name]] + [[A('n'), a] for a in unit_attrs(u)] + [[A('e'), k, tcode(v)] for k, v in dict.items(u.symbol_attrs)]
    for s in sections(u):
        out += render_node(s)
    for mu in members(u):
        out += render_unit(mu)
    return out + [A('>')]


def scope_tags(u, own_o, own_c):
    out = []
    for s in all_symbols(u):
        sc = s.scope
        out.append(NONE if sc is None else 1 if id(sc) in own_o else 2 if id(sc) in own_c else 0)
    return out


class Run:
    """the real objects of one request: parse, pick the target, clone, apply ops"""

    def __init__(self, req, copy=None):
        body = {str(x[0]): x[1:] for x in req[1:]}
        self.src, self.defs, self.target_name = body['src'][0], body['defs'][0], body['target'][0]
        self.model_req = body['model'][0]
        self.sf, self.dsf = parse(self.src, self.defs)
        self.orig = find_unit(top_units(self.sf), self.target_name)
        if self.orig is None:
            raise ValueError('target not found')
        self.env_roots = [self.sf] + ([self.dsf] if self.dsf else [])
        self.env = env_ids(self.env_roots, self.orig)
        self.copy = (copy or (lambda u: u.clone()))(self.orig)

    def side(self, s):
        return self.copy if str(s) == 'c' else self.orig

    def snapshot(self):
        own_o = {id(x) for x in own_scopes(self.orig)}
        own_c = {id(x) for x in own_scopes(self.copy)}
        sh = sorted(walker_label(o) for o in shared_objects(self.orig, self.copy, self.env))
        return [A('snap'), render_unit(self.orig), scope_tags(self.orig, own_o, own_c),
                render_unit(self.copy), scope_tags(self.copy, own_o, own_c), sh]

    def apply(self, op):
        root = self.side(op[0])
        o, path, args = str(op[1]), [int(str(i)) for i in op[2]], op[3:]
        u = root
        for i in path:
            u = members(u)[i]
        if o == 'rename':
            u.name = args[0]
        elif o == 'retype':
            u.symbol_attrs[args[0]] = type_of_code(int(str(args[1])))
        elif o == 'setsec':
            k = int(str(args[0]))
            if section_names(u)[k] != 'body':
                raise ValueError('setsec only replaces bodies')
            stmts = []
            for names in args[1]:
                vs = [Variable(name=n, scope=u) for n in names]
                rhs = vs[1] if len(vs) == 2 else sym.Sum(tuple(vs[1:])) if len(vs) > 2 else sym.IntLiteral(1)
                stmts.append(ir.Assignment(lhs=vs[0], rhs=rhs))
            u.body = ir.Section(body=tuple(stmts))
        elif o == 'addvar':
            u.variables += (Variable(name=args[0], type=type_of_code(int(str(args[1]))), scope=u),)
        elif o == 'touch':
            cs = comments_below(u)
            j = int(str(args[0]))
            if j < len(cs):
                cs[j]._update(text=args[1])
        elif o == 'retypenode':
            k = int(str(args[0]))
            nodes = [n for s in sections(u) for n in scoped_below(s)]
            if k < len(nodes):      # the node may have been replaced by an earlier op of the history: no-op, as in the model
                nodes[k].symbol_attrs[args[1]] = type_of_code(int(str(args[2])))
        else:
            raise ValueError('bad op')


_TC = None


def type_of_code(c):
    global _TC  # pylint: disable=global-statement
    if _TC is None:
        _TC = {tcode(t()): t for t in TYPES}
    return _TC[c]()


# ------------------------------------------------------------------------------------------ known classes

def has_typedef(u):
    """Known17Typedef: the cloned unit tree defines a derived type (a TypeDef node in a spec) — the `DerivedType.typedef`
    links in the copied symbol tables keep pointing at the original's TypeDef"""
    for x in own_scopes(u):
        if isinstance(x, irn.TypeDef):
            return True
    return False


def typedef_reach(u, env):
    """ids of the mutable objects reachable from the TypeDef nodes of the unit tree (what class clone-shares-typedef may share)"""
    ids = set()
    for x in own_scopes(u):
        if isinstance(x, irn.TypeDef):
            ids |= set(mutable(walk(x, env)))
    return ids


ATTR_NAMES = ('name', 'prefix', 'bind', '_dummies', 'is_function', 'result_name', 'default_access_spec', 'public_access_spec',
              'private_access_spec', '_incomplete')


def attr_record(u):
    """every plain (non-IR) constructor attribute of a unit, the docstring text, recursively for contained units"""
    rec = {k: repr(getattr(u, k)) for k in ATTR_NAMES if hasattr(u, k)}
    rec['class'] = type(u).__name__
    rec['docstring'] = repr([fgen(d) for d in (u.docstring or ())])
    rec['members'] = [attr_record(mu) for mu in members(u)]
    return rec


def overrides_for(u):
    """(keyword, value, attribute, expected repr) for every constructor attribute clone() accepts as an override"""
    out = [('name', 'ovr_name', 'name', repr('ovr_name')),
           ('docstring', (irn.Comment(text='! ovr doc'),), 'docstring', repr(['! ovr doc']))]
    if isinstance(u, Subroutine):
        out += [('prefix', ('IMPURE',), 'prefix', repr(('IMPURE',))),
                ('bind', sym.StringLiteral('ovr_c'), 'bind', repr(sym.StringLiteral('ovr_c'))),
                ('args', tuple(u._dummies[:1]), '_dummies', repr(tuple(u._dummies[:1])))]
        if u.is_function:
            out += [('result_name', 'ovr_res', 'result_name', repr('ovr_res'))]
    if isinstance(u, Module):
        out += [('default_access_spec', 'private', 'default_access_spec', repr('private')),
                ('public_access_spec', ('ovr_pub',), 'public_access_spec', repr(('ovr_pub',)))]
    return out


def inplace_edit(n, text):
    """an in-place edit (`_update`) of one IR node that changes the code generated for it; False if the class is not handled"""
    if isinstance(n, irn.Comment):
        n._update(text=text)
    elif isinstance(n, irn.CommentBlock):
        n._update(comments=(irn.Comment(text=text),) + tuple(n.comments[1:]))
    elif isinstance(n, irn.Assignment):
        n._update(rhs=sym.IntLiteral(7))
    elif isinstance(getattr(n, 'body', None), tuple) and not isinstance(n, irn.Interface):
        n._update(body=(irn.Comment(text=text),) + tuple(b for b in n.body))
    else:
        return False
    return True


def sweep_nodes(u, cap=3):
    """nodes to edit in place: every docstring node, and per other section the first `cap` editable nodes in pre-order"""
    out = []
    for name, sec in zip(section_names(u), sections(u)):
        found = []

        def rec(n):
            found.append(n)
            for k in split_children(n)[0]:
                rec(k)
        rec(sec)
        out += found if name == 'doc' else found[:cap]
    for mu in members(u):
        out += sweep_nodes(mu, cap=2)
    return out


K_TYPEDEF = 'clone-shares-typedef'
K_REREG = 'clone-reregisters-in-parent'
# clone-shares-commentblock-comments is repaired in /repo (CommentBlock._rebuild rebuilds the inner comments): no longer a known class


def refers_to_itself(u):
    """Known17Rereg (state part): the unit keeps a parent and contains a symbol with its own name (recursive call, function
    result, …); after `clone()` re-registered the CLONE under that name in the parent's table, this symbol's type follows the clone"""
    return u.parent is not None and any(lname(s.name) == u.name.lower() for s in all_symbols(u))


# ------------------------------------------------------------------------------------------ the property

def gen_ops(rng, orig, n):
    ops = []
    units = [([], orig)] + [([i], mu) for i, mu in enumerate(members(orig))]
    fresh = 0
    for _ in range(n):
        side = A(rng.choice('oc'))
        path, u = rng.choice(units)
        names = [k for k in dict.keys(u.symbol_attrs)]
        vis = list(names)
        p = u.parent
        while p is not None:
            vis += list(dict.keys(p.symbol_attrs))
            p = p.parent
        vis = [v for v in vis if '%' not in v]
        kind = rng.choice(['rename', 'retype', 'retype', 'setsec', 'addvar', 'retypenode', 'touch', 'touch'])
        if kind == 'rename':
            ops.append([side, A('rename'), path, rng.choice(['renamed', 'other_name', u.name + '_x'])])
        elif kind == 'retype' and names:
            var = rng.choice([n_ for n_ in names if '%' not in n_] or names)
            ops.append([side, A('retype'), path, var, tcode(rng.choice(TYPES)())])
        elif kind == 'setsec' and isinstance(u, Subroutine) and 'body' in section_names(u):
            stmts = []
            for _ in range(rng.randint(1, 2)):
                pool = vis + ['undeclared_q']
                stmts.append([rng.choice(pool) for _ in range(rng.randint(1, 3))])
            ops.append([side, A('setsec'), path, section_names(u).index('body'), stmts, DCODE])
        elif kind == 'addvar' and u.spec is not None:
            fresh += 1
            ops.append([side, A('addvar'), path, f'nv{fresh}', tcode(rng.choice(TYPES)())])
        elif kind == 'touch':
            cs = comments_below(u)
            if cs:
                ops.append([side, A('touch'), path, rng.randrange(len(cs)), f'! touched {len(ops)}'])
        elif kind == 'retypenode':
            nodes = [x for s in sections(u) for x in scoped_below(s)]
            if nodes:
                k = rng.randrange(len(nodes))
                keys = list(dict.keys(nodes[k].symbol_attrs))
                if keys:
                    ops.append([side, A('retypenode'), path, k, rng.choice(keys), tcode(rng.choice(TYPES)())])
    return ops


def make_request(src, defs, target, ops):
    """request for a given source / target / op list (the heap export is recomputed from the real frontend)"""
    sf, dsf = parse(src, defs)
    orig = find_unit(top_units(sf), target)
    ex = export(sf, dsf, orig)
    model = [A('clone17'), ex.cells, ex.addr[id(orig)], ops]
    return [A('c17'), [A('src'), src], [A('defs'), defs], [A('target'), target], [A('model'), model]]


def build_case(rng, tier, force=None, nops=None):
    prog = gen_program(rng, tier, force)
    target = rng.choice(prog['targets'])
    sf, dsf = parse(prog['src'], prog['defs'])
    orig = find_unit(top_units(sf), target)
    ex = export(sf, dsf, orig)
    ops = gen_ops(rng, orig, nops if nops is not None else rng.randint(0, 5))
    model = [A('clone17'), ex.cells, ex.addr[id(orig)], ops]
    return [A('c17'), [A('src'), prog['src']], [A('defs'), prog['defs']], [A('target'), target], [A('model'), model]], prog, ops


def reg_owner(orig, copy):
    """who the parent's table entry for the unit's name is linked to after the clone: 1 original, 2 clone, 0 other, none"""
    p = orig.parent
    if p is None:
        return NONE
    t = dict.get(p.symbol_attrs, orig.name.lower())
    if t is None or not isinstance(t.dtype, ProcedureType) or not isinstance(t.dtype.procedure, ProgramUnit):
        return NONE
    proc = t.dtype.procedure
    return 2 if proc is copy else 1 if proc is orig else 0


class C17(Prop):
    id = 'C17'
    title = 'Cloning a program unit yields an independent, correctly scoped copy'
    model_modules = ['LokiModel.C17.Model', 'LokiModel.C17.Wire']
    props_module = 'LokiModel.Props.C17'
    findings_module = 'LokiModel.Findings.C17'
    driver = 'Drivers/C17.lean'
    theorems = ['clone_inv', 'clone_scoped', 'clone_parents', 'clone_attrs', 'clone_footprint_disjoint_partial', 'clone_struct_disjoint',
                'noninterference', 'noninterference_cells', 'copyEnts_tdef']
    design_ref = 'DESIGN.md 4.B C17'
    level = 'proof'
    level_text = ('Full strength, for all heaps with the ownership invariant, all units, all fuel values and all edit histories: '
                  'clone_inv (clone keeps every owner tag, allocates only cells whose strong references stay in the clone and whose weak '
                  'references go to the clone or the environment), clone_scoped / clone_parents (no symbol, parent or table parent of the '
                  'clone points into the original, given every name is declared in the new chain), clone_attrs (clone without overrides keeps kind, '
                  'name, parent and the attribute record prefix/bind/arguments/result name/access specs), noninterference (any op history on one '
                  'side leaves render of the other side unchanged and re-establishes the hypotheses; noninterference_cells: the other '
                  "side's cells are not even written). _partial: clone_footprint_disjoint_partial needs TdefClosed (typedef links respect "
                  'ownership), which fails exactly in the known class clone-shares-typedef (Findings: witness); clone_struct_disjoint is '
                  'the unconditional statement for heaps without typedef links. NOT proved: render(clone) = render(original) '
                  '(correspondence + oracle only).')
    level_note = ('The model (cells, clone as one pass with placeholders instead of rebuild + rescope passes, `variables +=` as in-place '
                  'append instead of a Transformer rebuild of the spec) is tied to loki by correspondence only; the exporter '
                  '(harness/props/c17.py: split_children, Export) and the heap walker are trusted; owner tags are ghost data; '
                  'render is the abstraction (names, table entries with type codes, symbol occurrences with looked-up type code and scope '
                  'name), fgen itself is only compared by the direct oracle.')
    technique = 'Lean 4 theorems about a hand-written heap model + correspondence with the real code (histories, heap walker)'
    rule = ('generated Fortran units (module with optional derived type / module variables / imports from a definitions module / two '
            'routines calling each other, routines with member procedures and ASSOCIATE blocks, or a bare subroutine); the target '
            '(module, contained routine, member) is cloned and 0-5 random ops (rename, retype, body replacement, variables +=, '
            'scoped-node table update, in-place comment edit, on the unit or a member) hit either copy; units carry one- or two-line docstrings (CommentBlock) and comment blocks in bodies, and a '
            'procedure with prefix x BIND(C) x result clause; the oracle also clones with an override per constructor attribute and edits '
            'nodes of every section in place; non-trivial = at least one op; distinct = feature '
            'vector, target and op list')
    trusted_base = ['exporter real objects -> heap cells (harness/props/c17.py)', 'heap walker (follows __dict__, slots, containers, '
                    'pymbolic init args; not weakrefs)', 'Loki FP frontend builds the objects']
    assumptions = ['names are compared lower-cased without dimensions', 'type codes identify SymbolAttributes by repr (crc32)',
                   'Interface bodies / program units nested anywhere but in `contains` are not generated',
                   'the Comment objects of a CommentBlock are exported as children of the block (visitors do not traverse them)']
    extra_obligations = ['heap-walker sharing set = model reach intersection']

    def classes(self):
        return [K_TYPEDEF, K_REREG]

    def canon_model(self, resp):
        return resp

    def gen(self, rng, tier):
        n = dict(quick=24, thorough=400, search=200).get(tier, 24)
        for i in range(n):
            req, prog, ops = build_case(rng, tier)
            feats = ''.join(k[0] for k, v in sorted(prog['feats'].items()) if v)
            yield Case(req, stream='typedef' if prog['feats']['typedef'] else 'plain',
                       nontrivial=len(ops) > 0, key=f'{feats}:{dumps(req[3])}:{dumps(ops)}')

    def shrink_candidates(self, req):
        """structure-preserving: drop ops (the program and its heap export stay)"""
        body = {str(x[0]): x[1:] for x in req[1:]}
        m = body['model'][0]
        ops = m[3]
        for i in range(len(ops)):
            yield req[:4] + [[A('model'), [m[0], m[1], m[2], ops[:i] + ops[i + 1:]]]]

    def run_driver_req(self, req):
        return {str(x[0]): x[1:] for x in req[1:]}['model'][0]

    def impl(self, req):
        r = Run(req)
        unres = False
        out = [A('ok'), unres, reg_owner(r.orig, r.copy), r.snapshot()]
        ops = r.model_req[3]
        for op in ops:
            r.apply(op)
            out.append(r.snapshot())
        return out

    def oracle(self, req):
        return oracle(req)


def oracle(req):
    """the property itself on the real objects"""
    fails = []
    r = Run(req)
    o, c = r.orig, r.copy
    if fgen(o) != fgen(c):
        fails.append(Failure('fgen(clone) != fgen(original)', None))
    own_c = {id(x) for x in own_scopes(c)}
    chain_env = set()
    p = c.parent
    while p is not None:
        chain_env.add(id(p))
        p = p.parent
    for s in all_symbols(c):
        if s.scope is None or (id(s.scope) not in own_c and id(s.scope) not in chain_env):
            fails.append(Failure(f'symbol {s} of the clone is attached to {s.scope!r}, outside the clone and its parents', None))
            break
        if s.type is None:
            fails.append(Failure(f'symbol {s} of the clone has no type', None))
            break
    types_o = [repr(s.type) for s in all_symbols(o)]
    types_c = [repr(s.type) for s in all_symbols(c)]
    if types_o != types_c:
        fails.append(Failure('symbol types of the clone differ from the original', None))
    if attr_record(o) != attr_record(c):
        ro, rc = attr_record(o), attr_record(c)
        diff = sorted(k for k in ro if ro[k] != rc.get(k))
        fails.append(Failure(f'clone() without overrides changed attribute(s) {diff}: '
                             + '; '.join(f'{k}: {ro[k]} -> {rc.get(k)}' for k in diff if k != 'members')[:200], None))
    sh = shared_objects(o, c, r.env)
    if sh:
        # the known class covers exactly what hangs off the original's TypeDef nodes
        tdr = typedef_reach(o, r.env)
        outside = [x for x in sh if id(x) not in tdr]
        lbl = lambda xs: ', '.join(sorted(walker_label(x) + (':' + x.name if hasattr(x, 'name') and isinstance(x.name, str) else '') for x in xs))
        if outside:
            fails.append(Failure('mutable objects shared by clone and original: ' + lbl(outside), None))
        elif sh:
            fails.append(Failure('mutable objects shared by clone and original: ' + lbl(sh), K_TYPEDEF))
    # edits on one side leave the other unchanged
    for op in r.model_req[3]:
        other = r.orig if str(op[0]) == 'c' else r.copy
        before = (fgen(other), [repr(s.type) for s in all_symbols(other)], repr(sorted((k, repr(v)) for k, v in dict.items(other.symbol_attrs))))
        rereg = (str(op[0]) == 'c' and str(op[1]) == 'rename' and len(op[2]) == 0 and refers_to_itself(r.orig))
        r.apply(op)
        after = (fgen(other), [repr(s.type) for s in all_symbols(other)], repr(sorted((k, repr(v)) for k, v in dict.items(other.symbol_attrs))))
        if before != after:
            fails.append(Failure(f'op {dumps(op)} on one copy changed the other', K_REREG if rereg else None))
            break
    if any(f.cls is None for f in fails):
        return fails
    # clone() with an override for every constructor attribute: the override wins, everything else is carried over
    base = attr_record(r.orig)
    for kw, val, attr, want in overrides_for(r.orig):
        try:
            c2 = r.orig.clone(**{kw: val})
        except Exception as e:  # pylint: disable=broad-except
            fails.append(Failure(f'clone({kw}=…) raises {type(e).__name__}: {str(e)[:80]}', None))
            continue
        rec = attr_record(c2)
        if rec[attr] != want:
            fails.append(Failure(f'clone({kw}=…): attribute {attr} is {rec[attr]}, not the override {want}', None))
        other = sorted(k for k in base if k not in (attr, 'members') and base[k] != rec.get(k))
        if kw == 'args':
            other = [k for k in other if k != 'docstring']
        if other:
            fails.append(Failure(f'clone({kw}=…) also changed {other}: ' + '; '.join(f'{k}: {base[k]} -> {rec.get(k)}' for k in other)[:160], None))
        if any(f.cls is None for f in fails):
            return fails
    # in-place edits (`_update`) of IR nodes in every section incl. the docstring, on either copy: the other copy's code stays
    for side, this, other in (('clone', r.copy, r.orig), ('original', r.orig, r.copy)):
        for k, n in enumerate(sweep_nodes(this)):
            before = fgen(other)
            if not inplace_edit(n, f'! edited in place {k}'):
                continue
            if fgen(other) != before:
                fails.append(Failure(f'in-place edit of a {type(n).__name__} node of the {side} changed the code of the other copy', None))
                return fails
    return fails


PROP = C17()
READY = True
