"""C10 — loop-range helpers match Fortran DO-loop iteration semantics."""
from loki.expression import symbols as sym
from loki.expression.symbolic import get_pyrange, iteration_number, iteration_index
from loki import Scope, SymbolAttributes, BasicType

from ..core import Prop, Case, Failure
from ..sexpr import A
from ..feval import feval, EvalError, tdiv


def fortran_do(s, e, st):
    """reference: values visited by DO v = s, e, st (F2018 11.1.7.4.1)"""
    n = max(0, tdiv(e - s + st, st))
    return [s + k * st for k in range(n)]


def lit(n, shape):
    """integer constant in one of the shapes Loki trees contain"""
    if shape == 'lit' or n >= 0:
        return sym.IntLiteral(n)
    return sym.Product((-1, sym.IntLiteral(-n)))   # frontend shape of a negative constant


_scope = Scope()
_itype = SymbolAttributes(BasicType.INTEGER)


def var(name):
    return sym.Variable(name=name, scope=_scope, type=_itype)


def mk_range(s, e, st, shape):
    """LoopRange with literal or symbolic bounds; returns (range, env)"""
    if shape == 'sym':
        env = {'ns': s, 'ne': e, 'nst': st}
        return sym.LoopRange((var('ns'), var('ne'), None if st is None else var('nst'))), env
    return sym.LoopRange((lit(s, shape), lit(e, shape), None if st is None else lit(st, shape))), {}


def dec_step(x):
    return None if str(x) == 'none' else int(str(x))


class C10(Prop):
    id = 'C10'
    title = 'Loop-range helpers match Fortran DO-loop iteration semantics'
    model_modules = ['LokiModel.C10.Model']
    props_module = 'LokiModel.Props.C10'
    driver = 'Drivers/C10.lean'
    theorems = ['C10_getPyrange_full', 'C10_getPyrange_nostep', 'C10_numIter', 'C10_numIter_nostep',
                'C10_normalized_len', 'C10_iterNumber', 'C10_iterIndex', 'C10_iter_roundtrip', 'C10_iter_nostep']
    design_ref = 'DESIGN.md 4.A C10'
    level_text = ('Theorems (Lean kernel, all integers, no size bound): C10_getPyrange_full — for every start, stop and non-zero step '
                  'the model of get_pyrange returns exactly the DO-loop value sequence (full strength since the fix: commit; the old '
                  'stop+1 bound is kept as C10_old_bound_wrong); C10_numIter / C10_normalized_len — for every non-empty loop the value '
                  'of num_iterations equals the trip count and the normalised range has the same length; C10_iterNumber / C10_iterIndex '
                  '/ C10_iter_roundtrip — iteration number and index are mutually inverse on every visited value. The model is tied to the '
                  'code by running get_pyrange, LoopRange.num_iterations, iteration_number, iteration_index on every triple of a box '
                  '(exhaustive) in literal, frontend-shaped and symbolic form and diffing with the Lean driver; a Python reference '
                  'DO-sequence is the direct oracle on the real helpers.')
    level_note = ('Model is hand-written (value level: expressions returned by the helpers are read through the harness Fortran evaluator); '
                  'real-valued stops (floor/ceil) and integer overflow are not modelled; consumers (unroll, constant propagation) are C31/C32.')
    technique = 'Lean 4 theorems over all integers about a hand-written model + exhaustive small-box correspondence with the real helpers'
    rule = ('all (s,e,st) in a box [-R,R]^3 with st != 0 and st absent (exhaustive for the box), in three constant shapes '
            '(IntLiteral, frontend-shaped Product(-1,n), symbolic variables bound by the valuation), plus random wide triples; '
            'non-trivial = the Fortran loop is non-empty; distinct by request line')
    trusted_base = ['harness/feval.py (Fortran-semantics evaluator used to read values off Loki expression trees)',
                    'harness/props/c10.py fortran_do reference', 'Lean driver evaluation of model definitions']
    assumptions = ['bounds are integers (get_pyrange also floors real stops; not modelled)',
                   'values of num_iterations / iteration_number / iteration_index are read under Fortran integer semantics']
    extra_obligations = ['oracle: real helpers vs fortran_do on every generated triple']

    def gen(self, rng, tier):
        R = {'quick': 5, 'thorough': 9, 'search': 7}.get(tier, 5)
        shapes = ['lit', 'fe', 'sym']
        for s in range(-R, R + 1):
            for e in range(-R, R + 1):
                for st in list(range(-R, R + 1)) + [None]:
                    if st == 0:
                        continue
                    ref = fortran_do(s, e, 1 if st is None else st)
                    stx = A('none') if st is None else st
                    shape = shapes[(s * 31 + e * 7 + (0 if st is None else st)) % 3] if tier != 'thorough' else None
                    for sh in ([shape] if shape else shapes):
                        if sh != 'sym':
                            yield Case([A('pyrange'), s, e, stx, A(sh)], stream='pyrange-' + sh, nontrivial=bool(ref))
                        yield Case([A('numiter'), s, e, stx, A(sh)], stream='numiter-' + sh, nontrivial=bool(ref))
                    if ref:
                        k = rng.randrange(len(ref))
                        sh = rng.choice(shapes)
                        yield Case([A('iternum'), ref[k], s, stx, A(sh)], stream='iternum')
                        yield Case([A('iteridx'), k + 1, s, stx, A(sh)], stream='iteridx')
        n = {'quick': 300, 'thorough': 5000, 'search': 2000}.get(tier, 300)
        for _ in range(n):
            s, e = rng.randint(-1000, 1000), rng.randint(-1000, 1000)
            st = rng.choice([None, 1, -1, 2, -2, 3, -3, 7, -7, 10, -10, 100, -100, rng.randint(-50, 50) or 1])
            stx = A('none') if st is None else st
            yield Case([A('pyrange'), s, e, stx, A(rng.choice(['lit', 'fe']))], stream='pyrange-wide',
                       nontrivial=bool(fortran_do(s, e, st or 1)))
            yield Case([A('numiter'), s, e, stx, A(rng.choice(shapes))], stream='numiter-wide',
                       nontrivial=bool(fortran_do(s, e, st or 1)))

    # ---- real code
    def _run(self, req):
        op = str(req[0])
        if op == 'pyrange':
            s, e, st, sh = int(req[1]), int(req[2]), dec_step(req[3]), str(req[4])
            lr, _ = mk_range(s, e, st, sh)
            try:
                return ('ok', list(get_pyrange(lr)))
            except ValueError:
                return ('error', 'valueerror')
        if op == 'numiter':
            s, e, st, sh = int(req[1]), int(req[2]), dec_step(req[3]), str(req[4])
            lr, env = mk_range(s, e, st, sh)
            return ('ok', [feval(lr.num_iterations, env)])
        if op == 'iternum':
            i, s, st, sh = int(req[1]), int(req[2]), dec_step(req[3]), str(req[4])
            lr, env = mk_range(s, 0, st, sh)
            if sh == 'sym':
                env['ii'] = i
                return ('ok', [feval(iteration_number(var('ii'), lr), env)])
            return ('ok', [feval(iteration_number(lit(i, sh), lr), env)])
        if op == 'iteridx':
            k, s, st, sh = int(req[1]), int(req[2]), dec_step(req[3]), str(req[4])
            lr, env = mk_range(s, 0, st, sh)
            if sh == 'sym':
                env['kk'] = k
                return ('ok', [feval(iteration_index(var('kk'), lr), env)])
            return ('ok', [feval(iteration_index(lit(k, sh), lr), env)])
        raise ValueError(op)

    def impl(self, req):
        tag, val = self._run(req)
        if tag == 'ok':
            return [A('ok')] + list(val)
        return [A('error'), A(val)]

    def canon_model(self, resp):
        return resp

    # ---- direct oracle on the real code
    def oracle(self, req):
        op = str(req[0])
        try:
            tag, val = self._run(req)
        except EvalError as ex:
            return [Failure(f'{op}: helper expression not evaluable: {ex}')]
        st = dec_step(req[3])
        st1 = 1 if st is None else st
        if op == 'pyrange':
            s, e = int(req[1]), int(req[2])
            ref = fortran_do(s, e, st1)
            if tag != 'ok' or val != ref:
                cls = 'pyrange-negative-step' if st1 < 0 and val == list(range(s, e + 1, st1)) else None
                return [Failure(f'get_pyrange({s},{e},{st}) = {val} but a Fortran DO visits {ref}', cls)]
        elif op == 'numiter':
            s, e = int(req[1]), int(req[2])
            ref = fortran_do(s, e, st1)
            if ref and val != [len(ref)]:
                return [Failure(f'num_iterations({s},{e},{st}) = {val} but the loop has {len(ref)} iterations')]
            if ref:
                nr = fortran_do(1, val[0], 1)
                if len(nr) != len(ref):
                    return [Failure(f'normalized range of ({s},{e},{st}) has {len(nr)} iterations, loop has {len(ref)}')]
        elif op == 'iternum':
            i, s = int(req[1]), int(req[2])
            if (i - s) % st1 == 0 and (i - s) // st1 >= 0 and val != [(i - s) // st1 + 1]:
                return [Failure(f'iteration_number({i}; start {s}, step {st}) = {val}, expected {(i - s) // st1 + 1}')]
        elif op == 'iteridx':
            k, s = int(req[1]), int(req[2])
            if val != [s + (k - 1) * st1]:
                return [Failure(f'iteration_index({k}; start {s}, step {st}) = {val}, expected {s + (k - 1) * st1}')]
        return []

    def classes(self):
        return ['pyrange-negative-step']


PROP = C10()
READY = True
