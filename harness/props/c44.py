"""C44 — parallel JIT library builds compile objects after their module dependencies.

Trace validation: random module DAGs are written as small Fortran files into a mkdtemp directory and
built by the real ``Lib.build`` / ``Builder`` / ``Obj`` / ``workqueue`` code with 1..N workers.  The
compiler is a harness-supplied shell wrapper (logs ``b <name>`` / ``e <name>`` lines into an O_APPEND
log, sleeps a per-file delay, then touches the ``.o`` or runs gfortran); a ``Compiler`` subclass logs the
submit (``compile_args`` is called by ``Obj.build`` right before the job is queued) and the link.  The
position of a line in the log file is the monotonic counter.  The observed log is part of the request,
so the Lean driver replays exactly what the real code did.

Every real build runs in a forked child (own session, stdout/stderr to /dev/null) so that worker pools,
``multiprocessing.Manager`` processes and leaked listener threads never outlive a case.
"""
import hashlib
import logging
import os
import pickle
import shutil
import signal
import subprocess
import tempfile
import time
from pathlib import Path

import networkx as nx
import loki.logging as ll
import loki.jit_build.lib as libmod
from loki.jit_build import Builder, Lib, Obj
from loki.jit_build.compiler import Compiler

from ..core import Prop, Case, Failure
from ..sexpr import A, dumps

BUILD_TIMEOUT = 150


# ------------------------------------------------------------------ request codec

def nm(i):
    return f'n{i}'


def dec(req):
    """request -> (files [(stem, mod, [uses])], lib [stem], w, log [(kind, [ids])], extras dict)"""
    assert str(req[0]) == 'build'
    d = {str(x[0]): x[1:] for x in req[1:]}
    files = [(int(str(f[1])), int(str(f[2])), [int(str(u)) for u in f[3]]) for f in d['files']]
    lib = [int(str(x)) for x in d['lib']]
    w = int(str(d['w'][0]))
    log = [(str(e[0]), [int(str(x)) for x in e[1:]]) for e in d.get('log', [])]
    delays = [int(str(x)) for x in d.get('delays', [])]
    mode = str(d['mode'][0]) if 'mode' in d else 'touch'
    return files, lib, w, log, delays, mode


def dec_fresh(req):
    """(uptodate s…): objects whose .o is newer than the source (incremental build, force=False); absent = full build"""
    d = {str(x[0]): x[1:] for x in req[1:]}
    return None if 'uptodate' not in d else [int(str(x)) for x in d['uptodate']]


def enc(files, lib, w, log, delays, mode, fresh=None):
    return enc0(files, lib, w, log, delays, mode) + ([] if fresh is None else [[A('uptodate')] + list(fresh)])


def enc0(files, lib, w, log, delays, mode):
    return [A('build'),
            [A('files')] + [[A('f'), s, m, list(us)] for s, m, us in files],
            [A('lib')] + list(lib),
            [A('w'), w],
            [A('log')] + [[A(k)] + list(ids) for k, ids in log],
            [A('delays')] + list(delays),
            [A('mode'), A(mode)]]


# ------------------------------------------------------------------ python statement of the property

def true_deps(files, o):
    """stems of the other files that define a module file ``o`` uses (ground truth)"""
    f = next((f for f in files if f[0] == o), None)
    if f is None:
        return []
    return [g[0] for u in f[2] for g in files if g[1] == u and g[0] != o]


def src_deps(files, o):
    """what the code can honour: used names that are the stem of a file"""
    f = next((f for f in files if f[0] == o), None)
    stems = {g[0] for g in files}
    return [] if f is None else [u for u in f[2] if u in stems]


def known_stem_mismatch(files):
    return any(g[1] == u and g[0] != f[0] and g[0] != u for f in files for u in f[2] for g in files)


def prec_violations(depfn, log):
    """[(o, d)] such that o started before d finished"""
    fin, bad = set(), []
    for k, ids in log:
        if k == 'b':
            bad += [(ids[0], d) for d in depfn(ids[0]) if d not in fin]
        elif k == 'e':
            fin.add(ids[0])
    return bad


def once_ok(log):
    walk = [i[0] for k, i in log if k == 's']
    st = sorted(i[0] for k, i in log if k == 'b')
    en = sorted(i[0] for k, i in log if k == 'e')
    return len(set(walk)) == len(walk) and st == sorted(walk) and en == sorted(walk)


def max_running(log):
    cur = top = 0
    for k, _ in log:
        if k == 'b':
            cur += 1
            top = max(top, cur)
        elif k == 'e':
            cur -= 1
    return top


# ------------------------------------------------------------------ source files and compiler wrapper

def fname(stem):
    """file name of the file with stem id ``stem`` (some upper-case stems / .F90 suffixes)"""
    return f'N{stem}.F90' if stem % 4 == 3 else f'n{stem}.f90'


def use_line(stem, u):
    v = (stem + u) % 4
    return ['use n%d', 'USE N%d', 'use :: n%d', 'use, non_intrinsic :: N%d'][v] % u


def ftext(stem, mod, uses):
    name = f'N{mod}' if mod % 5 == 4 else f'n{mod}'
    lines = [f'module {name}']
    lines += ['  ' + use_line(stem, u) for u in uses]
    if stem % 3 == 0:
        lines.append('  use, intrinsic :: iso_fortran_env')      # must not become a dependency
    lines += ['  implicit none', f'  integer :: v{mod} = {mod}', 'contains',
              f'  integer function g{mod}()',
              '    g%d = v%d' % (mod, mod) + ''.join(f' + v{u}' for u in uses),
              f'  end function g{mod}', f'end module {name}', '']
    return '\n'.join(lines)


WRAPPER = '''#!/bin/sh
LOG="%(log)s"
for a in "$@"; do last="$a"; done
prev=""; tgt=""
for a in "$@"; do if [ "$prev" = "-o" ]; then tgt="$a"; fi; prev="$a"; done
name=${last##*/}; name=${name%%.*}
printf 'b %%s\\n' "$name" >> "$LOG"
case "$name" in
%(cases)s
esac
%(real)s
printf 'e %%s\\n' "$name" >> "$LOG"
'''


def write_tree(tmp, files, delays, mode):
    src, bld = tmp / 'src', tmp / 'build'
    src.mkdir()
    bld.mkdir()
    log = tmp / 'events.log'
    log.write_text('')
    for s, m, us in files:
        (src / fname(s)).write_text(ftext(s, m, us))
    cases = '\n'.join(f'  {Path(fname(s)).stem}) sleep {d / 1000:.3f};;'
                      for (s, _, _), d in zip(files, delays) if d > 0)
    if mode == 'gfortran':
        real = 'gfortran "$@" || { printf \'x %s\\n\' "$name" >> "$LOG"; exit 1; }'
    else:
        real = ': > "$tgt"'
    w = tmp / 'fc.sh'
    w.write_text(WRAPPER % dict(log=log, cases=cases or '  zzz) ;;', real=real))
    w.chmod(0o755)
    return src, bld, log, w


def _child_build(tmp, files, lib, w, delays, mode, fresh=None):
    """runs in the forked child: the real Loki build; returns a picklable dict"""
    ll.logger.setLevel(logging.CRITICAL + 1)
    libmod.tqdm = lambda it, *a, **k: it
    quiet = logging.getLogger('c44quiet')
    quiet.addHandler(logging.NullHandler())
    quiet.propagate = False
    quiet.setLevel(logging.CRITICAL + 1)

    src, bld, log, wrapper = write_tree(tmp, files, delays, mode)
    pre = {}
    if fresh is not None:
        # incremental build: sources are 100 s old; up-to-date objects have a .o that is 50 s old, the others either no
        # .o or one that is older than the source
        now = time.time()
        for s_, _, _ in files:
            os.utime(src / fname(s_), (now - 100, now - 100))
            o = bld / (Path(fname(s_)).stem.lower() + '.o')
            if s_ in fresh:
                o.write_text('')
                os.utime(o, (now - 50, now - 50))
            elif s_ % 2:
                o.write_text('')
                os.utime(o, (now - 200, now - 200))
            if o.exists():
                pre[o.name] = o.stat().st_mtime_ns

    class WrapCompiler(Compiler):
        def __init__(self):
            super().__init__()
            self.f90 = self.fc = str(wrapper)

        @staticmethod
        def _log(s):
            fd = os.open(str(log), os.O_WRONLY | os.O_APPEND)
            os.write(fd, (s + '\n').encode())
            os.close(fd)

        def compile_args(self, source, **kw):       # called by Obj.build right before the job is queued / executed
            self._log('s ' + Path(source).stem)
            return super().compile_args(source, **kw)

        def link(self, objs, target, shared=True, cwd=None):
            missing = [Path(o).stem for o in objs if not Path(o).exists()]
            self._log('l ' + ' '.join(Path(o).stem for o in objs))
            if missing:
                self._log('m ' + ' '.join(missing))
            if mode == 'gfortran':
                super().link(objs=objs, target=target, shared=shared, cwd=cwd)

    out = dict(error=None, edges={}, order=[], objs=[], symbols=None)
    Obj.clear_cache()
    try:
        builder = Builder(source_dirs=src, build_dir=bld, workers=w, compiler=WrapCompiler(), logger=quiet)
        objs = [Obj(source_path=src / fname(s)) for s in lib]
        thelib = Lib('c44', shared=False, objs=objs)
        g = builder.get_dependency_graph(thelib.objs)
        out['edges'] = {o.name: [(d.name, d.source_path is not None) for d in o.obj_dependencies] for o in g.nodes}
        try:
            out['order'] = [o.name for o in reversed(list(nx.topological_sort(g)))]
        except nx.NetworkXException as e:
            out['order'] = None
        thelib.build(builder=builder, force=fresh is None)
    except BaseException as e:     # noqa
        out['error'] = type(e).__name__
    out['objs'] = sorted(p.stem for p in bld.glob('*.o') if pre.get(p.name) != p.stat().st_mtime_ns)   # (re)written
    out['rawlog'] = log.read_text().splitlines()
    if mode == 'gfortran' and out['error'] is None:
        a = bld / 'libc44.a'
        if a.exists():
            p = subprocess.run(['nm', '-g', '--defined-only', str(a)], stdout=subprocess.PIPE, stderr=subprocess.DEVNULL,
                               text=True, check=False)
            syms = sorted({l.split()[-1] for l in p.stdout.splitlines() if len(l.split()) == 3})
            mem = subprocess.run(['ar', 't', str(a)], stdout=subprocess.PIPE, text=True, check=False).stdout.split()
            out['symbols'] = (sorted(mem), syms)
        else:
            out['symbols'] = 'no-archive'
    return out


def isolated(fn, resfile, timeout=BUILD_TIMEOUT):
    """run fn() in a forked child in its own session (stdio to /dev/null), result pickled into ``resfile``;
    the whole session is killed afterwards (worker pools, Manager processes)"""
    pid = os.fork()
    if pid == 0:
        code = 0
        try:
            os.setsid()
            dn = os.open(os.devnull, os.O_RDWR)
            os.dup2(dn, 0)
            os.dup2(dn, 1)
            os.dup2(dn, 2)
            try:
                res = ('ok', fn())
            except BaseException as e:   # noqa
                res = ('exc', type(e).__name__ + ': ' + str(e)[:300])
            with open(str(resfile) + '.tmp', 'wb') as fh:
                pickle.dump(res, fh)
            os.rename(str(resfile) + '.tmp', str(resfile))
        except BaseException:            # noqa
            code = 3
        finally:
            os._exit(code)
    end = time.time() + timeout
    timed_out = False
    while True:
        done, _ = os.waitpid(pid, os.WNOHANG)
        if done:
            break
        if time.time() > end:
            timed_out = True
            break
        time.sleep(0.004)
    try:
        os.killpg(pid, signal.SIGKILL)
    except (ProcessLookupError, PermissionError):
        pass
    if timed_out:
        try:
            os.waitpid(pid, 0)
        except ChildProcessError:
            pass
        return ('exc', 'timeout')
    try:
        with open(resfile, 'rb') as fh:
            return pickle.load(fh)
    except Exception as e:
        return ('exc', 'no-result ' + type(e).__name__)


def parse_name(s):
    s = s.lower()
    return int(s[1:]) if s.startswith('n') and s[1:].isdigit() else -1


def real_build(files, lib, w, delays, mode='touch', fresh=None):
    tmp = Path(tempfile.mkdtemp(prefix='verif_c44_'))
    try:
        tag, res = isolated(lambda: _child_build(tmp, files, lib, w, delays, mode, fresh), tmp / 'result.pkl')[:2]
    finally:
        shutil.rmtree(tmp, ignore_errors=True)
    if tag != 'ok':
        return dict(error='harness:' + str(res), log=[], objs=[], edges={}, order=[], symbols=None, failed=[], missing=[])
    log, failed, missing = [], [], []
    for line in res.pop('rawlog'):
        p = line.split()
        if not p:
            continue
        if p[0] in ('s', 'b', 'e'):
            log.append((p[0], [parse_name(p[1])]))
        elif p[0] == 'l':
            log.append(('l', sorted(parse_name(x) for x in p[1:])))
        elif p[0] == 'x':
            failed.append(parse_name(p[1]))
        elif p[0] == 'm':
            missing += [parse_name(x) for x in p[1:]]
    res.update(log=log, failed=failed, missing=missing)
    res['objs'] = sorted(parse_name(x) for x in res['objs'])
    res['edges'] = {parse_name(k): sorted({(parse_name(d), s) for d, s in v}) for k, v in res['edges'].items()}
    return res


# ------------------------------------------------------------------ generator

def gen_dag(rng, n, mismatch_p, lib_subset):
    """module-level DAG on ids 0..n-1 (uses only lower ids); stems = module id, or 100+id (mismatch)"""
    files = []
    for i in range(n):
        k = rng.choice([0, 1, 1, 2, 2, 3]) if i else 0
        uses = rng.sample(range(i), min(k, i))            # USE statements in any order
        if uses and rng.random() < 0.15:
            uses = uses + [uses[0]]                       # the same module used twice
        if rng.random() < 0.25:
            uses.insert(rng.choice([0, 0, len(uses), rng.randrange(len(uses) + 1)]), 50 + i)   # an external module (no file
            #                                               defines it): first, last or in between
        stem = 100 + i if rng.random() < mismatch_p else i
        files.append((stem, i, uses))
    order = list(range(n))
    rng.shuffle(order)
    files = [files[i] for i in order]
    stems = [f[0] for f in files]
    if lib_subset:
        k = rng.randint(1, n)
        lib = sorted(rng.sample(stems, k))
    else:
        lib = sorted(stems)
    return files, lib


def gen_taskless_first(rng, incremental):
    """family: an object lists a dependency WITHOUT a build task (external module, or - incremental - an up-to-date
    object) before in-tree dependencies that are slow to compile; w >= 2"""
    n = rng.randint(3, 6)
    files, fresh = [], []
    for i in range(n):
        k = min(i, rng.choice([1, 2, 2, 3])) if i else 0
        uses = rng.sample(range(i), k)
        files.append([i, i, uses])
    if incremental:
        # some objects that are used by others are up to date; users list them first
        used = sorted({u for _, _, us in files for u in us})
        fresh = sorted(rng.sample(used, rng.randint(1, max(1, len(used) // 2))))
        for f in files:
            f[2] = [u for u in f[2] if u in fresh] + [u for u in f[2] if u not in fresh]
        stale = [f[0] for f in files if f[0] not in fresh]
        if not any(set(f[2]) & set(fresh) and set(f[2]) & set(stale) for f in files if f[0] in stale):
            tgt = files[-1]
            if tgt[0] in fresh:
                fresh.remove(tgt[0])
            st = [x for x in range(n - 1) if x not in fresh] or [0]
            if st == [0] and 0 in fresh:
                fresh.remove(0)
            tgt[2] = [fresh[0] if fresh and fresh[0] != tgt[0] else 50] + [rng.choice(st)]
    else:
        for f in files:
            if f[2] and rng.random() < 0.7:
                f[2] = [50 + f[0]] + f[2]
        if not any(f[2] and f[2][0] >= 50 for f in files):
            files[-1][2] = [50 + n] + (files[-1][2] or [0])
    used = {u for _, _, us in files for u in us}
    delays = [rng.choice([30, 40, 50]) if i in used and i not in fresh else 0 for i, _, _ in files]
    files = [(a, b, list(c)) for a, b, c in files]
    order = list(range(n))
    rng.shuffle(order)
    return [files[i] for i in order], sorted(f[0] for f in files), rng.choice([2, 3, 4]), [delays[i] for i in order], \
        (sorted(fresh) if incremental else None)


def gen_delays(rng, files):
    style = rng.choice(['rand', 'rand', 'slowdeps', 'zero'])
    out = []
    used = {u for f in files for u in f[2]}
    for s, m, us in files:
        if style == 'zero':
            out.append(0)
        elif style == 'slowdeps':
            out.append(rng.choice([20, 30, 40]) if m in used else rng.choice([0, 2]))
        else:
            out.append(rng.choice([0, 0, 3, 8, 15, 25, 40]))
    return out


class C44(Prop):
    id = 'C44'
    title = 'Parallel JIT library builds compile objects after their module dependencies'
    model_modules = ['LokiModel.C44.Model']
    props_module = 'LokiModel.Props.C44'
    driver = 'Drivers/C44.lean'
    theorems = ['C44_order', 'C44_order_step', 'C44_once', 'C44_final', 'C44_serial_eq_parallel', 'C44_progress',
                'C44_serial_run', 'C44_accept_sound', 'C44_full_false', 'C44_partial', 'C44_partial_incremental']
    design_ref = 'DESIGN.md 4.G C44'
    level = 'proof'
    level_text = (
        'Lean theorems about a transition-system model of Lib.build/_build_objs (main thread walks an order, waits for the '
        'futures of the obj_dependencies that have a task, submits; w workers start/finish queued jobs in any interleaving; '
        'final barrier; link), for EVERY dependency function, every order satisfying the checked contract isTopo, every w '
        'and every reachable state: C44_order / C44_order_step (a dependency the code knows and that has a source has '
        'finished before the dependent starts), C44_once (nothing submitted/started/finished twice), C44_final (in a linked '
        'state starts, finishes and the done set are permutations of the duplicate-free walk: each object built exactly '
        'once), C44_serial_eq_parallel (same objects built for any two worker counts/schedules), C44_progress (no deadlock '
        'for w>=1), C44_serial_run (the serial build is a complete run), C44_accept_sound (a log accepted by replay is a '
        'run) - all at full strength, proved by an inductive invariant (inv_init, inv_step, inv_reach). The property w.r.t. '
        'the files that DEFINE the used modules (C44_full) is FALSE for the unchanged code (C44_full_false: module name != '
        'file stem, dependency node Obj(name=<module>) has no source and is not waited for) and is proved outside that '
        'family (C44_partial, hypothesis KnownStemMismatch fs = false; C44_partial_incremental: the same for incremental builds '
        'with force=False, where up-to-date objects - like external modules - get no task and are not waited for, wherever '
        'they stand in the dependency list). Tied to the code by trace validation: real '
        'Lib.build runs with 1, 2, 3, 4 or 6 workers on generated module DAGs with a logging compiler wrapper; the Lean driver replays '
        'each observed log (acceptance), checks the order contract on the observed submit order, derives the dependency '
        'edges and compares them with Builder.get_dependency_graph; a Python oracle checks the ordering invariant on every '
        'log, exactly-once, the worker bound, and equality of object/link/symbol sets with a serial build (gfortran for a '
        'subset).')
    level_note = (
        'Partial. Modelled, not verified: the model is hand-written; ProcessPoolExecutor / multiprocessing.Manager / '
        'futures (task.result blocks until completion, FIFO pick-up), wait_and_check timeouts (60 s) and error '
        'propagation, OS scheduling, file-system timestamps (force=False up-to-date skips), include-transitive header '
        'dependencies, the USE regex on arbitrary Fortran text (only the generated USE forms are compared), several '
        'modules per file, two files with the same stem, cyclic graphs (networkx raises) - these are exhibited only by the '
        'real runs or not at all. The topological order is a parameter with a contract checked on each observed run, not '
        'a model of networkx.')
    technique = 'Lean 4 invariant proof over all interleavings of a transition system + trace validation of real builds'
    rule = ('random module DAGs (2..8 files, 0..3 uses each, duplicate and external uses, 4 USE spellings, upper-case names, '
            'optional stem != module name, library = all files or a random subset; USE statements in any order with external '
            'modules first/last/in between; a family with a task-less dependency - external module, or up-to-date object in an '
            'incremental force=False build - listed before slow in-tree dependencies) built by the real code with w in 1..6 '
            'under seed-derived per-file compiler delays (random / slow dependencies / zero); non-trivial = at least one '
            'dependency edge with a source and w >= 2; distinct by (files, lib, w, delays)')
    trusted_base = ['harness/props/c44.py (compiler wrapper, O_APPEND log order as the monotonic counter, Python statement of '
                    'the ordering invariant)', 'Lean driver evaluation of model definitions', 'gfortran/ar/nm (oracle subset)']
    assumptions = ['a future result is available only after the job ended (concurrent.futures contract)',
                   'appends of one short line to an O_APPEND file are atomic and ordered (Linux)',
                   'one module per file, unique stems, acyclic module graph in generated inputs',
                   'no timeout of wait_and_check, no failing compile job in the model']
    extra_obligations = ['acceptance: every observed compiler log is a complete run of the model',
                         'contract: isTopo holds for every observed submit order',
                         'edges: Builder.get_dependency_graph agrees with the model on every generated file set',
                         'oracle: ordering invariant, exactly-once, worker bound, serial = parallel on every real run']

    def __init__(self):
        self._runs = {}      # (files, lib, w, delays, mode) -> result of a real build in this process (the log is not part of the key)

    @staticmethod
    def key(files, lib, w, delays, mode, fresh=None):
        return repr((files, lib, w, delays, mode, fresh))

    def build(self, files, lib, w, delays, mode, fresh=None):
        k = self.key(files, lib, w, delays, mode, fresh)
        if k not in self._runs:
            self._runs[k] = real_build(files, lib, w, delays, mode, fresh)
        return self._runs[k]

    # ---- generation (runs the real code: the log is part of the request)
    def gen(self, rng, tier):
        n_cases = {'quick': 16, 'thorough': 60, 'search': 40}.get(tier, 16)
        n_gf = {'quick': 2, 'thorough': 6, 'search': 4}.get(tier, 2)
        for k in range(n_cases):
            n = rng.randint(2, 8 if tier != 'quick' else 7)
            mismatch = rng.random() < 0.2
            files, lib = gen_dag(rng, n, 0.3 if mismatch else 0.0, lib_subset=rng.random() < 0.3)
            w = rng.choice([1, 2, 2, 3, 3, 4, 6])
            delays = gen_delays(rng, files)
            mode = 'gfortran' if k < n_gf else 'touch'
            if mode == 'gfortran':
                files = [(s, m, [u for u in us if u < 50]) for s, m, us in files]     # externals do not compile
                delays = [min(d, 10) for d in delays]
            run = real_build(files, lib, w, delays, 'touch')
            req = enc(files, lib, w, run['log'], delays, mode)
            nontriv = w >= 2 and any(src_deps(files, f[0]) for f in files)
            key = repr((files, lib, w, delays))
            self._runs[self.key(files, lib, w, delays, 'touch')] = run   # impl/oracle of this process reuse the run; a replay makes a fresh one
            yield Case(req, stream=mode + ('-mismatch' if known_stem_mismatch(files) else ''), nontrivial=nontriv, key=key)
        # family: a dependency without a build task (external module / up-to-date object with force=False) listed BEFORE
        # slow in-tree dependencies
        n_tl = {'quick': 4, 'thorough': 16, 'search': 10}.get(tier, 4)
        for k in range(n_tl):
            files, lib, w, delays, fresh = gen_taskless_first(rng, incremental=bool(k % 2))
            run = real_build(files, lib, w, delays, 'touch', fresh)
            self._runs[self.key(files, lib, w, delays, 'touch', fresh)] = run
            req = enc(files, lib, w, run['log'], delays, 'touch', fresh)
            yield Case(req, stream='taskless-first' + ('-incremental' if fresh is not None else ''), nontrivial=True,
                       key=repr((files, lib, w, delays, fresh)))

    # ---- real code
    def fresh(self, req):
        files, lib, w, _, delays, _ = dec(req)
        return self.build(files, lib, w, delays, 'touch', dec_fresh(req))

    def impl(self, req):
        files, lib, w, log, delays, mode = dec(req)
        fresh = dec_fresh(req) or []
        run = self.fresh(req)
        if run['error']:
            return [A('error'), A('build-failed'), run['error']]
        edges = [A('edges')]
        for s, _, _ in files:
            if s in run['edges']:          # nodes of the dependency graph of the library (closure of lib)
                edges.append([s] + [[d, bool(src)] for d, src in run['edges'][s]])
        link = next((ids for k, ids in run['log'] if k == 'l'), [])
        return [A('ok'), edges,
                [A('known'), known_stem_mismatch(files)],
                [A('topo'), True],
                [A('accepted'), A('true')],
                [A('inv-code'), True],
                [A('inv-true'), not prec_violations(lambda o: [d for d in true_deps(files, o) if d not in fresh], log)],
                [A('once'), True],
                [A('walk-complete'), True],
                [A('built')] + run['objs'],
                [A('linked')] + sorted(link),
                [A('lib')] + sorted(lib)]

    # ---- direct oracle
    def oracle(self, req):
        files, lib, w, log, delays, mode = dec(req)
        stems = [f[0] for f in files]
        if not (files and lib and w >= 1 and len(delays) == len(files) and len(set(stems)) == len(stems)
                and len({f[1] for f in files}) == len(files) and set(lib) <= set(stems) and len(set(lib)) == len(lib)
                and all(u != f[1] for f in files for u in f[2]) and mode in ('touch', 'gfortran')):
            raise ValueError('ill-formed request (not a generated input)')
        fresh = dec_fresh(req)
        if fresh is not None and not (set(fresh) <= set(stems) and mode == 'touch' and set(stems) - set(fresh)):
            raise ValueError('ill-formed request (not a generated input)')
        rebuilt = set(stems) - set(fresh or [])
        cls = 'stem-mismatch' if known_stem_mismatch(files) else None
        fails = []
        run = self.fresh(req)
        if run['error']:
            return [Failure(f'real build with {w} workers raised {run["error"]}', None)]
        serial = self.build(files, lib, 1, delays, 'touch', fresh) if w != 1 else run
        if serial['error']:
            return [Failure(f'real serial build raised {serial["error"]}', None)]
        tdeps = lambda o: [d for d in true_deps(files, o) if d in rebuilt]    # noqa  (up-to-date objects are not rebuilt)
        for what, lg, ww in (('log of the parallel run', run['log'], w), ('log of the serial run', serial['log'], 1)):
            bad = prec_violations(tdeps, lg)
            if bad:
                o, d = bad[0]
                fails.append(Failure(f'{what} (workers={ww}): object {nm(o)} started before {nm(d)}, which defines a module '
                                     f'it uses, had finished', cls))
            if {i[0] for k, i in lg if k == 's'} - rebuilt:
                fails.append(Failure(f'{what}: an up-to-date object was rebuilt: {lg}', None))
            if not once_ok(lg):
                fails.append(Failure(f'{what}: some object was not submitted/started/finished exactly once: {lg}', None))
            if max_running(lg) > max(ww, 1):
                fails.append(Failure(f'{what}: {max_running(lg)} jobs running with {ww} workers', None))
            lk = [i for i, (k, _) in enumerate(lg) if k == 'l']
            if len(lk) != 1 or lk[0] != len(lg) - 1:
                fails.append(Failure(f'{what}: link is not the single last event', None))
        if run['missing'] or serial['missing']:
            fails.append(Failure(f'objects missing at link time: {run["missing"]} / serial {serial["missing"]}', None))
        if run['objs'] != serial['objs']:
            fails.append(Failure(f'objects built with {w} workers {run["objs"]} differ from the serial build {serial["objs"]}', None))
        lp = [ids for k, ids in run['log'] if k == 'l']
        ls = [ids for k, ids in serial['log'] if k == 'l']
        if lp != ls or (lp and lp[0] != sorted(lib)):
            fails.append(Failure(f'objects linked {lp} differ from the serial build {ls} / the library {sorted(lib)}', None))
        if mode == 'gfortran':
            gp = self.build(files, lib, w, delays, 'gfortran')
            gs = self.build(files, lib, 1, delays, 'gfortran')
            for what, g in ((f'gfortran build with {w} workers', gp), ('serial gfortran build', gs)):
                if g['error']:
                    fails.append(Failure(f'{what} failed ({g["error"]}; compile errors in {[nm(x) for x in g["failed"]]})', cls))
            if not gp['error'] and not gs['error'] and gp['symbols'] != gs['symbols']:
                fails.append(Failure(f'library of the parallel build {gp["symbols"]} differs from the serial one {gs["symbols"]}', None))
        return fails

    def classes(self):
        return ['stem-mismatch']


PROP = C44()
READY = True
