"""C26 — dataflow def/use/live sets over-approximate actual reads and writes.

Shared machinery for C26 and C27 (c27.py imports from here):

* ``Built``: FIR program -> Fortran text (fir.emit_fortran) -> real Loki IR (fparser frontend) -> real
  ``DataflowAnalysis().attach_dataflow_analysis`` -> tree of real nodes aligned with the FIR statements;
* ``TraceInterp``: the Python FIR interpreter (fir.Interp) INSTRUMENTED: every element read / write is recorded as an
  event on the *main unit's* cell (accesses of a callee to a dummy are translated to the actual argument's cell and
  offset; callee locals are dropped), with the event-index span of every executed main-unit statement and of every
  loop iteration;
* decidable class predicates (Python mirrors of the Lean ``Known…`` definitions in lean/LokiModel/C26/Model.lean).
"""
import random
import re
from fractions import Fraction

from ..core import Prop, Case, Failure
from ..sexpr import A, dumps, loads
from .. import fir
from ..fir import _h, _is_none

# ====================================================================== symbol keys (mirror of Lean `exKey`)

_OPN = {'add': '+', 'sub': '-', 'mul': '*', 'div': '/', 'pow': '**', 'eq': '==', 'ne': '/=', 'lt': '<', 'le': '<=',
        'gt': '>', 'ge': '>=', 'and': '&', 'or': '|'}


def ex_key(e):
    """canonical text of a FIR expression; must agree character by character with Lean `exKey`"""
    h = _h(e)
    if h == 'i':
        return str(int(str(e[1])))
    if h == 'r':
        return f'{int(str(e[1]))}/{int(str(e[2]))}'
    if h == 'b':
        return 'T' if fir._truth(e[1]) else 'F'
    if h == 'v':
        return str(e[1])
    if h == 'idx':
        return str(e[1]) + '(' + ','.join(ex_key(x) for x in e[2:]) + ')'
    if h == 'sec':
        return str(e[1]) + '[' + ','.join(dim_key(d) for d in e[2:]) + ']'
    if h == 'neg':
        return '-(' + ex_key(e[1]) + ')'
    if h == 'not':
        return '!(' + ex_key(e[1]) + ')'
    if h == 'bin':
        return '(' + ex_key(e[2]) + _OPN[str(e[1])] + ex_key(e[3]) + ')'
    if h == 'call':
        return str(e[1]) + '<' + ','.join(ex_key(x) for x in e[2:]) + '>'
    raise ValueError('bad expression ' + dumps(e))


def dim_key(d):
    if _h(d) == 'at':
        return ex_key(d[1])
    return ':'.join('' if _is_none(x) else ex_key(x) for x in d[1:4])


def _canon_real(e):
    """reduce (r n d) fractions the way Lean's Rat does"""
    if isinstance(e, list):
        if _h(e) == 'r':
            q = Fraction(int(str(e[1])), int(str(e[2])))
            return [A('r'), q.numerator, q.denominator]
        return [_canon_real(x) for x in e]
    return e


def sym_of(s):
    """an element of a real dataflow set -> (name, key): key '' for a symbol without subscripts, else the key of the
    exported expression; name '' for an element that is not a variable at all (inverted expression selector)"""
    from loki.expression import symbols as sym
    if isinstance(s, (sym.Array, sym.Scalar, sym.DeferredTypeSymbol, sym.ProcedureSymbol)):
        name = str(s.name).lower()
        if getattr(s, 'dimensions', None):
            return (name, ex_key(_canon_real(fir._x_expr(s))))
        return (name, '')
    return ('', ex_key(_canon_real(fir._x_expr(s))))


def enc_set(syms):
    out = []
    for name, key in sorted(set(syms)):
        out.append(A(name) if key == '' and name else [A(name if name else '-'), key])
    return out


# ====================================================================== syntactic helpers on FIR (wire form)

def vars_ex(e):
    """all variable names of an expression (including those inside subscripts), in evaluation order"""
    h = _h(e)
    if h in ('i', 'r', 'b'):
        return []
    if h == 'v':
        return [str(e[1])]
    if h == 'idx':
        return [n for x in e[2:] for n in vars_ex(x)] + [str(e[1])]
    if h == 'sec':
        return [n for d in e[2:] for n in vars_dim(d)] + [str(e[1])]
    if h in ('neg', 'not'):
        return vars_ex(e[1])
    if h == 'bin':
        return vars_ex(e[2]) + vars_ex(e[3])
    if h == 'call':
        return [n for x in e[2:] for n in vars_ex(x)]
    raise ValueError('bad expression')


def vars_dim(d):
    if _h(d) == 'at':
        return vars_ex(d[1])
    return [n for x in d[1:4] if not _is_none(x) for n in vars_ex(x)]


def sub_vars(e):
    """variable names inside the subscripts of an idx/sec (not the array itself); [] for anything else"""
    h = _h(e)
    if h == 'idx':
        return [n for x in e[2:] for n in vars_ex(x)]
    if h == 'sec':
        return [n for d in e[2:] for n in vars_dim(d)]
    return []


def all_sub_vars(e):
    """variable names inside any subscript occurring anywhere in e"""
    h = _h(e)
    if h in ('i', 'r', 'b', 'v'):
        return []
    if h == 'idx':
        return [n for x in e[2:] for n in vars_ex(x)]
    if h == 'sec':
        return [n for d in e[2:] for n in vars_dim(d)]
    if h in ('neg', 'not'):
        return all_sub_vars(e[1])
    if h == 'bin':
        return all_sub_vars(e[2]) + all_sub_vars(e[3])
    if h == 'call':
        return [n for x in e[2:] for n in all_sub_vars(x)]
    return []


def kids_of(s):
    """statement lists nested in a statement, in textual order"""
    h = _h(s)
    if h == 'do':
        return [s[5]]
    if h == 'while':
        return [s[2]]
    if h == 'if':
        return [s[2], s[3]]
    if h == 'select':
        return [c[1] for c in s[2]] + [s[3]]
    if h == 'assoc':
        return [s[2]]
    return []


def walk(stmts):
    for s in stmts:
        yield s
        for k in kids_of(s):
            yield from walk(k)


def loop_vars(s):
    return {str(x[1]) for x in walk([s]) if _h(x) == 'do'}


def print_vars(s):
    return {n for x in walk([s]) if _h(x) == 'print' for a in x[1:] for n in vars_ex(a)}


def selector_vars(s):
    """variables read when an ASSOCIATE inside s is entered: subscripts of element/section selectors, every variable
    of an expression selector"""
    out = set()
    for x in walk([s]):
        if _h(x) == 'assoc':
            for b in x[1]:
                e = b[1]
                if _h(e) in ('idx', 'sec'):
                    out |= set(sub_vars(e))
                elif _h(e) != 'v':
                    out |= set(vars_ex(e))
    return out


def unit_intents(prog):
    out = {}
    for u in prog[2:]:
        decls = {str(d[1]): str(d[3]) for d in u[3]}
        out[str(u[1])] = [decls.get(str(a), 'none') for a in u[2]]
    return out


def call_nointent_vars(prog, s):
    """variables of actual arguments passed to a dummy without intent, in calls inside s"""
    ints = unit_intents(prog)
    out = set()
    for x in walk([s]):
        if _h(x) == 'callsub' and str(x[1]) in ints:
            for it, a in zip(ints[str(x[1])], x[2:]):
                if it == 'none':
                    out |= set(vars_ex(a))
    return out


def call_subscript_vars(s):
    """variables that occur inside a subscript of an actual argument of a call inside s (the attacher's `dims`)"""
    out = set()
    for x in walk([s]):
        if _h(x) == 'callsub':
            for a in x[2:]:
                out |= set(all_sub_vars(a))
    return out


def do_bound_self(s):
    """DO variables that occur in their own loop's bounds (read at entry, then discarded from uses)"""
    out = set()
    for x in walk([s]):
        if _h(x) == 'do':
            v = str(x[1])
            bs = [b for b in x[2:5] if not _is_none(b)]
            if any(v in vars_ex(b) for b in bs):
                out.add(v)
    return out


# ====================================================================== real objects

class Al:
    """a FIR statement aligned with the real Loki node it was parsed to"""
    __slots__ = ('stmt', 'node', 'kids', 'env', 'parent', 'pidx')

    def __init__(self, stmt, node, env):
        self.stmt, self.node, self.env = stmt, node, env
        self.kids = []
        self.parent = None
        self.pidx = None


def _flat(nodes):
    for n in nodes or ():
        if isinstance(n, tuple):
            yield from _flat(n)
        else:
            yield n


class Built:
    """real IR of the main unit of a FIR program with the real dataflow analysis attached"""

    def __init__(self, prog, enrich, recase=0):
        from loki.analyse.dataflow_analysis import DataflowAnalysis
        self.prog = prog
        self.enrich = enrich
        src = fir.emit_fortran(prog, wrap_program=False)
        if recase:
            src = recase_source(src, prog, recase)
        self.src = src
        sf = fir.parse_fortran(src)
        self.sf = sf
        routines = {str(r.name).lower(): r for r in sf.all_subroutines}
        self.routine = routines[fir.prog_main(prog)]
        if enrich:
            self.routine.enrich([r for n, r in routines.items() if n != fir.prog_main(prog)])
        self.unit = fir.find_unit(prog, fir.prog_main(prog))
        self.error = None
        try:
            DataflowAnalysis().attach_dataflow_analysis(self.routine)
        except AttributeError as e:
            self.error = 'attributeerror'
            self.tree = None
            return
        self.tree = self.align(self.routine.body.body, self.unit[4], [])
        self.nodes = list(self.all_nodes())      # pre-order

    def align(self, nodes, stmts, env):
        """pair the FIR statements (request) with the real nodes they were parsed to; checks the round trip"""
        from loki import ir
        out = []
        k = 0
        for n in _flat(nodes):
            xs = fir._x_body((n,))
            if not xs:
                continue
            for x in xs:
                if k >= len(stmts):
                    raise RuntimeError('alignment: real IR has more statements than the request')
                s = stmts[k]
                k += 1
                if _h(s) != _h(x):
                    raise RuntimeError(f'alignment: {_h(s)} vs {_h(x)}')
                al = Al(s, n, env)
                h = _h(s)
                if h in ('do', 'while'):
                    al.kids = [self.align(n.body, kids_of(s)[0], env)]
                elif h == 'if':
                    al.kids = [self.align(n.body, s[2], env), self.align(n.else_body or (), s[3], env)]
                elif h == 'select':
                    if len(n.bodies) != len(s[2]):
                        raise RuntimeError('alignment: select bodies')
                    al.kids = [self.align(b, c[1], env) for b, c in zip(n.bodies, s[2])] + \
                              [self.align(n.else_body or (), s[3], env)]
                elif h == 'assoc':
                    m = {}
                    for b in s[1]:
                        e = b[1]
                        m[str(b[0])] = str(e[1]) if _h(e) in ('v', 'idx', 'sec') else None
                    al.kids = [self.align(n.body, s[2], [m] + env)]
                for j, kl in enumerate(al.kids):
                    for c in kl:
                        c.parent, c.pidx = al, j
                out.append(al)
        if k != len(stmts):
            raise RuntimeError('alignment: request has more statements than the real IR')
        return out

    def bind(self, prog):
        """{id(statement object of `prog`): aligned node} for another copy of the same program (the cache is keyed by
        the program text, the interpreter reports statement objects)"""
        u = fir.find_unit(prog, fir.prog_main(prog))
        stmts = list(walk(u[4]))
        if len(stmts) != len(self.nodes):
            raise RuntimeError('bind: statement count')
        return {id(s): al for s, al in zip(stmts, self.nodes)}

    def all_nodes(self, lst=None):
        for al in (self.tree if lst is None else lst):
            yield al
            for k in al.kids:
                yield from self.all_nodes(k)

    # names of a real set seen from the main unit's cells: associate names -> base variable of the selector
    @staticmethod
    def map_name(name, env):
        for m in env:
            if name in m and m[name] is not None:
                name = m[name]
        return name

    def names(self, symset, env):
        out = set()
        for s in symset:
            n, _ = sym_of(s)
            if n:
                out.add(self.map_name(n, env))
        return out


_cache = {}


def program_names(prog):
    """every identifier a program introduces: units, declared variables, associate names (lower case)"""
    names = set()
    for u in prog[2:]:
        names.add(str(u[1]))
        names |= {str(a) for a in u[2]}
        names |= {str(d[1]) for d in u[3]}
        for s in walk(u[4]):
            if _h(s) == 'assoc':
                names |= {str(b[0]) for b in s[1]}
            elif _h(s) == 'do':
                names.add(str(s[1]))
    return names


_IDENT = re.compile(r'(?<![0-9A-Za-z_.])[A-Za-z_][A-Za-z0-9_]*')


def recase_source(src, prog, seed):
    """Fortran is case-insensitive: spell every occurrence of every identifier of the program (variables, dummies, DO
    variables, associate names, routine names) in a letter case drawn per occurrence; comments / pragmas are left alone"""
    rnd = random.Random(seed)
    names = program_names(prog)

    def sub(m):
        t = m.group(0)
        if t.lower() not in names:
            return t
        k = rnd.randrange(4)
        if k == 0:
            return t.lower()
        if k == 1:
            return t.upper()
        if k == 2:
            return t[0].upper() + t[1:].lower()
        return ''.join(c.upper() if rnd.random() < 0.5 else c.lower() for c in t)
    out = []
    for line in src.split('\n'):
        i = line.find('!')
        code, rest = (line, '') if i < 0 else (line[:i], line[i:])
        out.append(_IDENT.sub(sub, code) + rest)
    return '\n'.join(out)


def built(prog, enrich, recase=0):
    key = (dumps(prog), bool(enrich), int(recase))
    if key not in _cache:
        if len(_cache) > 3000:
            _cache.clear()
        _cache[key] = Built(prog, enrich, int(recase))
    return _cache[key]


frontend_rejects = [0]


def frontend_ok(prog, enrich, recase=0):
    """False when the Loki frontend itself rejects the (valid) generated source, e.g. an ASSOCIATE selector that mentions
    another associate name (notes/FIR.md finding L2; a frontend matter, C01/C02): such programs are not used"""
    try:
        built(prog, enrich, recase)
        return True
    except Exception:
        frontend_rejects[0] += 1
        return False


def ann(b, lst):
    out = []
    for al in lst:
        n = al.node
        out.append([A(_h(al.stmt)), enc_set(sym_of(s) for s in n.defines_symbols),
                    enc_set(sym_of(s) for s in n.uses_symbols), enc_set(sym_of(s) for s in n.live_symbols)]
                   + [ann(b, k) for k in al.kids])
    return out


# ====================================================================== instrumented interpreter

class TraceInterp(fir.Interp):
    def __init__(self, prog):
        super().__init__(prog)
        self.trace = []         # (kind 'r'|'w', cell, offset) on main-unit cells
        self.frames = {}        # id(callee state) -> (caller state, {dummy: (cell, base) | None})
        self.pending = None
        self.segs = []          # (id(stmt), start, end) of every executed main-unit statement
        self.loops = []         # (id(stmt), start, end, [(istart, iend)…]) per dynamic loop execution
        self.loopstack = []
        self.main_state = None

    def rec(self, kind, st, y, off):
        while id(st) in self.frames:
            parent, m = self.frames[id(st)]
            tgt = m.get(y)
            if tgt is None:
                return
            y, off = tgt[0], tgt[1] + off
            st = parent
        self.trace.append((kind, y, off))

    def _where(self, st, x, subs):
        y, idx = self.resolve(st, x, subs)
        c = st.cell(y)
        if c is None:
            raise fir._Fail()
        return y, (0 if c.bounds is None else fir._offset(c.bounds, idx))

    def read_at(self, st, x, subs):
        v = super().read_at(st, x, subs)
        y, off = self._where(st, x, subs)
        self.rec('r', st, y, off)
        return v

    def write_at(self, st, x, subs, v):
        super().write_at(st, x, subs, v)
        y, off = self._where(st, x, subs)
        self.rec('w', st, y, off)

    def enter_unit(self, u, get_data, msg):
        # copy of fir.Interp.enter_unit with the frame of the new state registered before anything is evaluated in it
        decls = {}
        for d in u[3]:
            decls.setdefault(str(d[1]), d)
        args = [str(a) for a in u[2]]
        cs = fir._State()
        if self.pending is not None:
            self.frames[id(cs)] = self.pending
            self.pending = None
        else:
            self.main_state = cs
        self._keep = getattr(self, '_keep', [])
        self._keep.append(cs)       # keep ids unique
        try:
            for want_scalar in (True, False):
                for k, x in enumerate(args):
                    d = decls.get(x)
                    if (d is None or not d[4]) != want_scalar:
                        continue
                    if d is None:
                        raise fir._Fail()
                    c = self.decl_cell(cs, d)
                    cs.store.append([x, self.fill_cell(c, get_data(k, x))])
            for d in u[3]:
                x = str(d[1])
                if x in args:
                    continue
                c = self.decl_cell(cs, d)
                if not _is_none(d[5]):
                    c = self.fill_cell(c, [self.eval(cs, (), d[5])])
                cs.store.append([x, c])
        except fir._Fail:
            raise fir._Err(msg)
        return cs, decls, args

    def exec_call(self, f, s, st):
        u = self.units.get(str(s[1]))
        if u is not None and len(u[2]) == len(s) - 2:
            m = {}
            try:
                for x, a in zip(u[2], s[2:]):
                    h = _h(a)
                    if h == 'v' and st.loc(str(a[1])) is None and st.cell(str(a[1])) is not None:
                        m[str(x)] = (str(a[1]), 0)
                    elif h == 'idx':
                        # resolved silently (the base class evaluates the subscripts again and records the reads)
                        n0 = len(self.trace)
                        y, off = self._where(st, str(a[1]), self.eval_idx(st, (), a[2:]))
                        del self.trace[n0:]
                        m[str(x)] = (y, off)
                    else:
                        m[str(x)] = None
            except fir._Fail:
                pass
            self.pending = (st, m)
        return super().exec_call(f, s, st)

    def exec_stmt(self, f, s, st):
        top = id(st) not in self.frames
        start = len(self.trace)
        h = _h(s)
        if top and h in ('do', 'while'):
            self.loopstack.append([id(s), start, None, []])
        try:
            if h == 'while' and top:
                sig = self._while(f, s, st)
            else:
                sig = super().exec_stmt(f, s, st)
        finally:
            if top and h in ('do', 'while'):
                L = self.loopstack.pop()
                L[2] = len(self.trace)
                self.loops.append(tuple(L))
        if top:
            self.segs.append((id(s), start, len(self.trace)))
        return sig

    def _while(self, f, s, st):
        if f == 0:
            raise fir._Fuel()
        f -= 1
        self.steps += 1
        while True:
            if f == 0:
                raise fir._Fuel()
            f -= 1
            self.cur = s
            i0 = len(self.trace)
            try:
                c = self.eval(st, (), s[1])
            except fir._Fail:
                c = None
            if c is True:
                try:
                    sig = self.exec_stmts(f, s[2], st)
                finally:
                    self.loopstack[-1][3].append((i0, len(self.trace)))
                if sig == fir.EXIT:
                    return fir.NORMAL
            elif c is False:
                return fir.NORMAL
            else:
                raise fir._Err('while condition')

    def do_iter(self, f, v, body, step, n, cur, st):
        top = id(st) not in self.frames
        while True:
            if f == 0:
                raise fir._Fuel()
            f -= 1
            i0 = len(self.trace)
            try:
                self.write_at(st, v, [], cur)
            except fir._Fail:
                raise fir._Err('loop variable')
            if n == 0:
                return fir.NORMAL
            n -= 1
            try:
                sig = self.exec_stmts(f, body, st)
            finally:
                if top:
                    self.loopstack[-1][3].append((i0, len(self.trace)))
            if sig == fir.EXIT:
                return fir.NORMAL
            cur += step


def run_traced(prog, inputs, fuel=100000):
    it = TraceInterp(prog)
    res = it.run_main(inputs, fuel)
    return res, it


def seg_sets(trace, a, b):
    """(names written, names read before written [element granularity]) of trace[a:b]"""
    written, W, R = set(), set(), set()
    for k in range(a, b):
        kind, y, off = trace[k]
        if kind == 'w':
            written.add((y, off))
            W.add(y)
        elif (y, off) not in written:
            R.add(y)
    return W, R


def seg_elems(trace, a, b):
    """(elements written, elements read before written) of trace[a:b]"""
    written, R = set(), set()
    for k in range(a, b):
        kind, y, off = trace[k]
        if kind == 'w':
            written.add((y, off))
        elif (y, off) not in written:
            R.add((y, off))
    return written, R


# ====================================================================== class predicates (mirrors of Lean Known…)

def must_def(s, env):
    """names (main-unit cells) completely written whenever s completes normally"""
    h = _h(s)
    if h == 'assign':
        l = s[1]
        if _h(l) == 'v':
            x = str(l[1])
            for m in env:
                if x in m:
                    # an associate name: complete definition only of a plain-variable selector
                    return set()
            return {x}
        return set()
    if h == 'if':
        return must_list(s[2], env) & must_list(s[3], env)
    if h == 'select':
        out = must_list(s[3], env)
        for c in s[2]:
            out &= must_list(c[1], env)
        return out
    if h == 'assoc':
        m = {str(b[0]): None for b in s[1]}
        return {x for x in must_list(s[2], [m] + env) if x not in m}
    return set()


def must_list(ss, env):
    out = set()
    for s in ss:
        out |= must_def(s, env)
    return out


def uses_fresh(b, als):
    """name-level `_visit_body` fold over real per-node sets"""
    d, u = set(), set()
    for al in als:
        u |= b.names(al.node.uses_symbols, al.env) - d
        d |= b.names(al.node.defines_symbols, al.env)
    return u


def may_kill_list(b, als, x):
    """Lean `mayKillL`: some sibling before a use of x defines x without defining it completely on every path"""
    if not als:
        return False
    al, rest = als[0], als[1:]
    if may_kill(b, al, x):
        return True
    if x in must_def(al.stmt, al.env):
        return False
    if may_kill_list(b, rest, x):
        return True
    return x in b.names(al.node.defines_symbols, al.env) and x in uses_fresh(b, rest)


def may_kill(b, al, x):
    return any(may_kill_list(b, k, x) for k in al.kids)


def enclosing_loops(al):
    out = []
    p = al.parent
    while p is not None:
        if _h(p.stmt) in ('do', 'while'):
            out.append(p)
        p = p.parent
    return out


def classify_def(b, al, x):
    s = al.stmt
    if x in {b.map_name(v, al.env) for v in loop_vars(s)}:
        return 'loop-variable-not-defined'
    if b.enrich and x in {b.map_name(v, al.env) for v in call_nointent_vars(b.prog, s)}:
        return 'call-no-intent'
    if x in {b.map_name(v, al.env) for v in call_subscript_vars(s)}:
        return 'call-subscript-actual'
    return None


def classify_use(b, al, x):
    s = al.stmt
    mp = lambda vs: {b.map_name(v, al.env) for v in vs}
    if x in mp(print_vars(s)):
        return 'print-reads'
    if b.enrich and x in mp(call_nointent_vars(b.prog, s)):
        return 'call-no-intent'
    if x in mp(selector_vars(s)):
        return 'assoc-selector-reads'
    if x in mp(do_bound_self(s)):
        return 'loop-variable-in-bounds'
    if may_kill(b, al, x):
        return 'may-kill'
    return None


def classify_live(b, al, x):
    body = b.unit[4]
    decls = {str(d[1]): d for d in b.unit[3]}
    for L in enclosing_loops(al):
        own = {str(L.stmt[1])} if _h(L.stmt) == 'do' else set()
        inner = {v for k in kids_of(L.stmt) for t in k for v in loop_vars(t)}
        wr = b.names(L.node.defines_symbols, L.env) | {b.map_name(v, L.env) for v in (inner - own)}
        if x in wr:
            return 'live-loop-back-edge'
    if x in decls and str(decls[x][3]) == 'none' and x in [str(a) for a in b.unit[2]]:
        return 'live-no-intent-dummy'
    if any(x in loop_vars(s) for s in body):
        return 'loop-variable-not-defined'
    if b.enrich and any(x in call_nointent_vars(b.prog, s) for s in body):
        return 'call-no-intent'
    if any(x in call_subscript_vars(s) for s in body):
        return 'call-subscript-actual'
    return None


CLASSES = ['loop-variable-not-defined', 'call-no-intent', 'call-subscript-actual', 'print-reads',
           'assoc-selector-reads', 'loop-variable-in-bounds', 'may-kill', 'live-loop-back-edge',
           'live-no-intent-dummy', 'assoc-expr-selector-crash']


def has_assoc_crash(prog):
    """Lean `crashes`: an ASSOCIATE nested in another one whose (inverted) uses contain an expression selector"""
    u = fir.find_unit(prog, fir.prog_main(prog))

    def expr_names(binds):
        return {str(b[0]) for b in binds if _h(b[1]) not in ('v', 'idx', 'sec')}

    def uses_names(ss):
        out = set()
        for x in walk(ss):
            h = _h(x)
            if h == 'assign':
                out |= set(vars_ex(x[2])) | set(sub_vars(x[1]))
            elif h == 'do':
                out |= {n for bnd in x[2:5] if not _is_none(bnd) for n in vars_ex(bnd)}
            elif h in ('while', 'if', 'select'):
                out |= set(vars_ex(x[1]))
            elif h == 'callsub':
                out |= {n for a in x[2:] for n in vars_ex(a)}
        return out

    def rec(ss, depth):
        for x in ss:
            if _h(x) == 'assoc':
                if depth > 0 and expr_names(x[1]) & uses_names(x[2]):
                    return True
                if rec(x[2], depth + 1):
                    return True
            else:
                for k in kids_of(x):
                    if rec(k, depth):
                        return True
        return False
    return rec(u[4], 0)


# ====================================================================== generator configurations

GEN_CFGS = [
    # (weight, name, cfg)
    (4, 'default', {}),
    (3, 'branchy', {'max_stmts': 16, 'weights': {'if': 22, 'do': 16, 'select': 8, 'assign_scalar': 24, 'accumulate': 8,
                                                   'exit': 4, 'cycle': 4, 'call': 2, 'assoc': 1, 'print': 2}}),
    (3, 'calls', {'max_stmts': 14, 'n_callees': (1, 2), 'weights': {'call': 30, 'do': 10, 'if': 10}}),
    (2, 'assoc', {'max_stmts': 14, 'weights': {'assoc': 20, 'assign_elem': 16, 'if': 8, 'do': 8}}),
    (2, 'arrays', {'max_stmts': 14, 'weights': {'assign_elem': 24, 'assign_section': 14, 'assign_whole': 6, 'do': 16,
                                                  'if': 10}, 'overlap_prob': 0.7, 'zero_trip_prob': 0.2}),
    (2, 'small', {'max_stmts': 7, 'max_depth': 2, 'n_callees': (0, 1)}),
]


def gen_programs(rng, n):
    tot = sum(w for w, _, _ in GEN_CFGS)
    for _ in range(n):
        r = rng.random() * tot
        for w, name, cfg in GEN_CFGS:
            r -= w
            if r <= 0:
                break
        prog = fir.gen_program(rng, cfg)
        if name in ('calls', 'default', 'small') and rng.random() < 0.6:
            prog = fir.canon(strip_intents(rng, prog))
        yield name, prog


def strip_intents(rng, prog):
    """remove the intent of every dummy of some callees (the probed defect: such calls define and use nothing).  The
    program stays valid Fortran with the same meaning in FIR (copy-in/copy-out for every non-`in` dummy) as long as an
    intent(in) dummy with an expression actual keeps its intent (it is never written)."""
    units = prog[2:]
    if len(units) < 2:
        return prog
    out = list(prog[:3])
    calls = [x for u in units for x in walk(u[4]) if _h(x) == 'callsub']
    for u in units[1:]:
        if rng.random() < 0.5:
            out.append(u)
            continue
        name = str(u[1])
        keep = set()        # dummies that receive a non-variable actual somewhere
        for x in calls:
            if str(x[1]) == name:
                for d, a in zip(u[2], x[2:]):
                    if _h(a) not in ('v', 'idx'):
                        keep.add(str(d))
        decls = []
        for d in u[3]:
            if str(d[1]) in [str(a) for a in u[2]] and str(d[1]) not in keep:
                decls.append([d[0], d[1], d[2], A('none'), d[4], d[5]])
            else:
                decls.append(d)
        out.append([u[0], u[1], u[2], decls, u[4]])
    return out


def gen_tables():
    """Lean table file regenerated from the analysed source: `_mem_property_queries` and the intent tuples of
    `visit_CallStatement`"""
    import ast
    from ..core import REPO
    src = (REPO / 'loki' / 'analyse' / 'dataflow_analysis.py').read_text()
    tree = ast.parse(src)
    mem, tuples = None, []
    for cls in ast.walk(tree):
        if isinstance(cls, ast.ClassDef) and cls.name == 'DataflowAnalysisAttacher':
            for n in cls.body:
                if isinstance(n, ast.Assign) and any(getattr(t, 'id', None) == '_mem_property_queries' for t in n.targets):
                    mem = [c.value for c in n.value.elts]
                if isinstance(n, ast.FunctionDef) and n.name == 'visit_CallStatement':
                    for a in ast.walk(n):
                        if isinstance(a, ast.Assign) and getattr(a.targets[0], 'id', None) in ('outvals', 'invals'):
                            for c in ast.walk(a.value):
                                if isinstance(c, ast.Compare) and isinstance(c.ops[0], ast.In) and isinstance(c.comparators[0], ast.Tuple):
                                    tuples.append((a.targets[0].id, [e.value for e in c.comparators[0].elts]))
    if mem is None or [t[0] for t in tuples] != ['outvals', 'invals']:
        raise RuntimeError('C26 tables: visit_CallStatement / _mem_property_queries no longer have the expected shape')
    q = lambda xs: '[' + ', '.join('"' + x + '"' for x in xs) + ']'
    return ('/-! generated from /repo/loki/analyse/dataflow_analysis.py by harness/props/c26.py — do not edit -/\n'
            'namespace LokiModel.Generated.C26\n'
            '/-- `DataflowAnalysisAttacher._mem_property_queries` -/\n'
            f'def memPropertyQueries : List String := {q(mem)}\n'
            '/-- intent strings whose actual arguments `visit_CallStatement` treats as (potentially) defined -/\n'
            f'def outIntents : List String := {q(tuples[0][1])}\n'
            '/-- intent strings whose actual arguments `visit_CallStatement` treats as used -/\n'
            f'def inIntents : List String := {q(tuples[1][1])}\n'
            'end LokiModel.Generated.C26\n')


# ---------------------------------------------------------------- directed programs (branch families)

def _D(x, ty, intent='none', dims=()):
    return [A('decl'), A(x), A(ty), A(intent), [list(d) for d in dims], fir.NONE]


def _subst_name(e, old, new):
    if isinstance(e, list):
        if _h(e) in ('v', 'idx', 'sec') and str(e[1]) == old:
            return [e[0], A(new)] + [_subst_name(x, old, new) for x in e[2:]]
        return [_subst_name(x, old, new) for x in e]
    return e


def directed_program(rng):
    """small routine `kernel(n, a, res, acc)` with a loop over 1..n whose body is a SELECT CASE or an IF / ELSE IF / ELSE
    chain; the branches write and read the scalar `acc` in all arrangements (written in an earlier branch and read in a
    later one, the reverse, accumulated, untouched), optionally through an ASSOCIATE name.  Mutually exclusive branches
    are the family: a read in one branch is upward exposed whatever the other branches define."""
    V, I, IDX, BIN, CALL = fir.V, fir.I, fir.IDX, fir.BIN, fir.CALL
    i = 'i1'
    ai = IDX('a', V(i))
    pool = {
        'write': lambda: [[A('assign'), V('acc'), rng.choice([ai, BIN('add', ai, I(1)), I(0)])]],
        'read': lambda: [[A('assign'), IDX('res', V(i)), rng.choice([V('acc'), BIN('add', V('acc'), ai)])]],
        'accum': lambda: [[A('assign'), V('acc'), CALL('mod', BIN('add', V('acc'), ai), I(97))]],
        'neutral': lambda: [[A('assign'), IDX('res', V(i)), ai]],
        'write-read': lambda: [[A('assign'), V('acc'), ai], [A('assign'), IDX('res', V(i)), V('acc')]],
    }
    kinds = list(pool)
    nb = rng.choice((2, 2, 3))
    if rng.random() < 0.6:
        # the family member the other arrangements are measured against: write in an earlier, read in a later branch
        br = ['neutral'] * nb
        w = rng.randrange(nb - 1)
        r = rng.randrange(w + 1, nb)
        br[w], br[r] = 'write', 'read'
    else:
        br = [rng.choice(kinds) for _ in range(nb)]
    bodies = [pool[k]() for k in br]
    shape = rng.choice(('select', 'select', 'if', 'if'))
    if shape == 'select':
        K = nb + rng.choice((0, 1))
        vals = list(range(K))
        rng.shuffle(vals)
        cases = [[[vals[j]], bodies[j]] for j in range(nb)]
        dflt = pool[rng.choice(kinds)]() if (K > nb and rng.random() < 0.5) else []
        inner = [A('select'), CALL('mod', V(i), I(K)), cases, dflt]
    else:
        conds = [BIN('eq', CALL('mod', V(i), I(2)), I(1)), BIN('gt', V(i), I(2)), BIN('gt', ai, I(0)),
                 BIN('lt', ai, I(0))]
        rng.shuffle(conds)
        # if c0 B0 [else if c1 B1] else B_last   (ELSE IF chains are nested single-IF else branches)
        last = bodies[-1] if rng.random() < 0.8 else []
        chain = last
        for j in range(nb - 2, -1, -1):
            chain = [[A('if'), conds[j], bodies[j], chain]]
        inner = chain[0]
    body = [inner]
    if rng.random() < 0.3:
        body = [[A('assoc'), [[A('z1'), V('acc')]], _subst_name(body, 'acc', 'z1')]]
    pre = [[A('assign'), V('acc'), I(rng.randint(0, 3))]] if rng.random() < 0.3 else []
    post = [[A('assign'), IDX('res', I(1)), BIN('add', IDX('res', I(1)), V('acc'))]] if rng.random() < 0.4 else []
    main = [A('unit'), A('kernel'), [A('n'), A('a'), A('res'), A('acc')],
            [_D('n', 'int', 'in'), _D('a', 'int', 'in', [(I(1), V('n'))]), _D('res', 'int', 'inout', [(I(1), V('n'))]),
             _D('acc', 'int', 'inout'), _D(i, 'int')],
            pre + [[A('do'), A(i), I(1), V('n'), fir.NONE, body]] + post]
    return fir.canon([A('program'), A('kernel'), main])


def directed_inputs(rng, prog, k=2):
    out = []
    for _ in range(k):
        n = rng.randint(3, 5)
        row = lambda x: [A(x)] + [fir.encode_val(rng.randint(-4, 6)) for _ in range(n)]
        out.append([[A('n'), fir.encode_val(n)], row('a'), row('res'), [A('acc'), fir.encode_val(rng.randint(-3, 3))]])
    return fir.canon(out)


def dec_bool(x):
    s = str(x)
    if s not in ('true', 'false'):
        raise ValueError('bad bool')
    return s == 'true'


def decode_req(req, head):
    """(enrich, program, input sets, recase): the optional 5th element is the seed of the letter-case respelling of the
    emitted source (0 / absent = lower case as emitted)"""
    if not (isinstance(req, list) and len(req) in (4, 5) and str(req[0]) == head):
        raise ValueError('malformed request')
    recase = int(str(req[4])) if len(req) == 5 else 0
    if recase < 0:
        raise ValueError('malformed recase')
    enrich = dec_bool(req[1])
    prog = req[2]
    if not (isinstance(prog, list) and prog and str(prog[0]) == 'program'):
        raise ValueError('malformed program')
    inputs = req[3]
    if not isinstance(inputs, list):
        raise ValueError('malformed inputs')
    return enrich, prog, inputs, recase


def _list_variants(ss):
    """smaller variants of a statement list: drop one statement, replace a compound statement by one of its bodies,
    shrink inside a compound statement"""
    for i, s in enumerate(ss):
        yield ss[:i] + ss[i + 1:]
    for i, s in enumerate(ss):
        for k in kids_of(s):
            yield ss[:i] + list(k) + ss[i + 1:]
    for i, s in enumerate(ss):
        h = _h(s)
        if h == 'do':
            for v in _list_variants(s[5]):
                yield ss[:i] + [s[:5] + [v]] + ss[i + 1:]
        elif h == 'while':
            for v in _list_variants(s[2]):
                yield ss[:i] + [s[:2] + [v]] + ss[i + 1:]
        elif h == 'if':
            for v in _list_variants(s[2]):
                yield ss[:i] + [[s[0], s[1], v, s[3]]] + ss[i + 1:]
            for v in _list_variants(s[3]):
                yield ss[:i] + [[s[0], s[1], s[2], v]] + ss[i + 1:]
        elif h == 'assoc':
            for v in _list_variants(s[2]):
                yield ss[:i] + [[s[0], s[1], v]] + ss[i + 1:]
        elif h == 'select':
            for j, c in enumerate(s[2]):
                for v in _list_variants(c[1]):
                    if v:       # the frontend mis-pairs empty CASE blocks (notes/FIR.md L1)
                        yield ss[:i] + [[s[0], s[1], s[2][:j] + [[c[0], v]] + s[2][j + 1:], s[3]]] + ss[i + 1:]
            for v in _list_variants(s[3]):
                yield ss[:i] + [[s[0], s[1], s[2], v]] + ss[i + 1:]


def shrink_request(req):
    """structure-preserving smaller requests: fewer input sets, fewer statements in the main unit (declarations and
    callees are kept, so the program stays well-formed; variants that no longer run are skipped by the oracle)"""
    head, enrich, prog, inputs, tail = req[0], req[1], req[2], req[3], list(req[4:])
    if len(inputs) > 1:
        for i in range(len(inputs)):
            yield [head, enrich, prog, inputs[:i] + inputs[i + 1:]] + tail
    main = prog[2]
    for v in _list_variants(list(main[4])):
        yield [head, enrich, prog[:2] + [[main[0], main[1], main[2], main[3], v]] + prog[3:], inputs] + tail


HAND = [
    # the probed witnesses (DESIGN 4.E R): conditional definition kills a later use; call to a routine without intents
    '''(dfa false (program kernel (unit kernel (n y) ((decl n int in () none) (decl y int inout (((i 1) (v n))) none) (decl x int none () none) (decl i1 int none () none)) ((assign (v x) (i 5)) (do i1 (i 1) (v n) none ((if (bin eq (v i1) (i 2)) ((assign (v x) (i 0))) ()) (assign (idx y (v i1)) (v x)) (assign (v x) (bin add (v x) (i 1)))))))) (((n (i 3)) (y (i 0) (i 0) (i 0)))))''',
    '''(dfa true (program kernel (unit kernel (x y) ((decl x int inout () none) (decl y int inout () none)) ((callsub sub1 (v x) (v y)))) (unit sub1 (u v) ((decl u int none () none) (decl v int none () none)) ((assign (v v) (bin add (v u) (i 1)))))) (((x (i 3)) (y (i 0)))))''',
]


class C26(Prop):
    id = 'C26'
    title = 'Dataflow def/use/live sets over-approximate actual reads and writes'
    model_modules = ['LokiModel.C26.Model', 'LokiModel.C26.Trace']
    props_module = 'LokiModel.Props.C26'
    findings_module = 'LokiModel.Findings.C26'
    driver = 'Drivers/C26.lean'
    theorems = ['defines_sound_partial', 'defines_sound_block_partial', 'defines_sound_loopfree', 'must_define_sound',
                'uses_sound_partial', 'uses_sound_block_partial', 'uses_sound_NoMayKill']
    design_ref = 'DESIGN.md 4.E C26'
    level = 'proof'
    level_text = ('Theorems (Lean kernel; every FIR program, enriched or not, every fuel, state, statement or block, variable; statements '
                  'without ASSOCIATE/CALL): defines_sound_partial / _block_partial - every variable written during the run of a node is '
                  'in its defines_symbols except DO variables of loops at/inside the node (defines_sound_loopfree: full strength without '
                  'loops); must_define_sound - what the model calls a must-definition is completely written on normal completion; '
                  'uses_sound_partial / _block_partial / uses_sound_NoMayKill - every variable read before being completely written is in '
                  'uses_symbols outside the decidable class knownUS (may-kill by a conditional / zero-trip / partial definition, PRINT, DO '
                  'variable in its own bounds). Findings (non-gating): uses_full_false, defines_full_false by executed witnesses, '
                  'call_no_intent_empty. The model (all FIR statement kinds incl. ASSOCIATE inversion and calls with/without routine; '
                  'defines, uses and live of every node) is compared with the real attacher node by node; the instrumented interpreter '
                  'compares actual element-level reads/writes/earlier values with the real sets at every executed node, including '
                  'ASSOCIATE, calls (any intent) and live sets.')
    level_note = ('execT records reads syntactically per reached statement (exact for scalar expressions, a superset for sections); '
                  'ASSOCIATE, CALL and live_symbols have no theorem (correspondence + oracle only); WHERE, allocation, memory-query '
                  'intrinsics have no FIR counterpart and are not covered at all.')
    technique = ('Lean 4 theorems about a hand-written model of the transfer functions and an instrumented FIR semantics '
                 '+ node-by-node correspondence with the real attacher + instrumented-execution oracle on the real sets')
    rule = ('fir.gen_program under 6 weight profiles (default, branch/loop heavy, call heavy with and without enrichment, '
            'associate heavy, array/section heavy, small), 3 sampled input sets per program; every executed statement '
            'instance of the main unit is one oracle evaluation; non-trivial = the program has a compound statement; '
            'distinct by request line')
    trusted_base = ['harness/fir.py (generator, printer, exporter, reference interpreter; three-way tested against Lean and gfortran)',
                    'harness/props/c26.py TraceInterp (instrumentation of the reference interpreter) and the alignment of FIR statements with real nodes',
                    'Loki fparser frontend (the real IR the analysis runs on)']
    assumptions = ['variable granularity of the reported sets is the whole variable name; the oracle tracks elements',
                   'WHERE, allocation and memory-query intrinsics have no FIR counterpart and are not covered']
    extra_obligations = ['oracle: instrumented execution vs real attached sets at every executed node',
                         'post: every oracle failure inside the covered class lies in the Lean class KnownDefS / knownUS']

    def classes(self):
        return CLASSES

    def shrink_candidates(self, req):
        return shrink_request(req)

    def tables(self):
        return {'LokiModel/Generated/C26Tables.lean': gen_tables()}

    def gen(self, rng, tier):
        for l in HAND:
            yield Case(loads(l), stream='hand')
        nd = {'quick': 6, 'thorough': 120, 'search': 60}.get(tier, 6)
        for _ in range(nd):
            prog = directed_program(rng)
            rc = rng.randint(1, 10 ** 6) if (rng.random() < 0.6 or 'assoc' in dumps(prog)) else 0
            if not frontend_ok(prog, False, rc):
                continue
            yield Case([A('dfa'), False, prog, directed_inputs(rng, prog), rc], stream='directed')
        n = {'quick': 10, 'thorough': 400, 'search': 100}.get(tier, 10)
        for name, prog in gen_programs(rng, n):
            enrich = rng.random() < 0.6
            rc = rng.randint(1, 10 ** 6) if rng.random() < 0.5 else 0
            if not frontend_ok(prog, enrich, rc):
                continue
            inputs = fir.gen_inputs(rng, prog, 3)
            nontrivial = any(kids_of(s) for s in fir.find_unit(prog, fir.prog_main(prog))[4])
            yield Case([A('dfa'), enrich, prog, inputs, rc], stream=name, nontrivial=nontrivial)

    details = set()

    def post(self, cases, impl_out, model_raw, oracle_fail):
        """theorem domain vs oracle: an oracle failure for `defines` / `uses` at a node inside the class the theorems cover
        (no ASSOCIATE/CALL) must lie in the Lean class `KnownDefS` / `knownUS` - otherwise defines_sound_partial /
        uses_sound_partial and the oracle contradict each other (the trace of the theorems over-approximates the reads the
        oracle sees, so the implication is exact)"""
        from ..core import run_driver
        lines_of = {c.line for c in cases}
        todo = sorted(d for d in self.details if d[0] in lines_of)[:400]
        if not todo:
            return [], {'theorem_vs_oracle_checked': 0}
        reqs = []
        for line, kind, k, x, cls in todo:
            r = loads(line)
            reqs.append(dumps([A('known'), r[1], r[2], k, A(x), A(kind)]))
        outs = run_driver(self, reqs)
        problems, inside = [], 0
        for (line, kind, k, x, cls), o in zip(todo, outs):
            r = loads(o)
            if str(r[0]) != 'ok':
                problems.append(f'known query failed: {o}')
                continue
            covered, known = str(r[1]) == 'true', str(r[2]) == 'true'
            if covered:
                inside += 1
                if not known:
                    problems.append(f'oracle failure ({kind}, {x}, node {k}, class {cls}) lies inside the domain of the '
                                    f'{kind}s_sound_partial theorem: {line[:300]}')
        return problems[:5], {'theorem_vs_oracle_checked': len(todo), 'theorem_vs_oracle_inside_covered_class': inside}

    def impl(self, req):
        enrich, prog, _, rc = decode_req(req, 'dfa')
        b = built(prog, enrich, rc)
        if b.error:
            return [A('error'), A(b.error)]
        body = b.routine.body
        return [A('ok'), enc_set(sym_of(s) for s in body.defines_symbols), enc_set(sym_of(s) for s in body.uses_symbols),
                ann(b, b.tree)]

    def oracle(self, req):
        enrich, prog, inputs, rc = decode_req(req, 'dfa')
        b = built(prog, enrich, rc)
        if b.error:
            cls = 'assoc-expr-selector-crash' if has_assoc_crash(prog) else None
            return [Failure(f'attach_dataflow_analysis raised {b.error} on a valid routine', cls)]
        fails = {}
        u = b.unit
        decls = {str(d[1]): d for d in u[3]}
        index = b.bind(prog)
        number = {id(al): k for k, al in enumerate(b.nodes)}
        line = dumps(req)
        for inp in inputs:
            res, it = run_traced(prog, inp)
            if res[0] != 'ok':
                continue
            given = {str(r[0]) for r in inp if len(r) > 1 and any(str(v) != 'undef' for v in r[1:])}
            given |= {x for x, d in decls.items() if not _is_none(d[5])}
            firstw = {}
            for k, (kind, y, off) in enumerate(it.trace):
                if kind == 'w' and y not in firstw:
                    firstw[y] = k
            for sid, a, e in it.segs:
                al = index.get(sid)
                if al is None:
                    continue
                W, R = seg_sets(it.trace, a, e)
                D = b.names(al.node.defines_symbols, al.env)
                U = b.names(al.node.uses_symbols, al.env)
                Lv = b.names(al.node.live_symbols, al.env)
                for x in sorted(W - D):
                    if x not in decls:
                        continue        # value cell of an ASSOCIATE
                    cls = classify_def(b, al, x)
                    if not al.env:      # inside an ASSOCIATE the oracle speaks about the selector variable, Lean about the associate name
                        self.details.add((line, 'def', number[id(al)], x, cls))
                    fails.setdefault(('def', cls), f'{x} is written while {_h(al.stmt)} `{dumps(al.stmt)[:80]}` executes but is not in defines_symbols')
                for x in sorted(R - U):
                    if x not in decls:
                        continue
                    cls = classify_use(b, al, x)
                    if not al.env:
                        self.details.add((line, 'use', number[id(al)], x, cls))
                    fails.setdefault(('use', cls), f'{x} is read before written while {_h(al.stmt)} `{dumps(al.stmt)[:80]}` executes but is not in uses_symbols')
                H = {y for y, k in firstw.items() if k < a} | given
                for x in sorted(H - Lv):
                    if x not in decls:
                        continue        # value cell of an ASSOCIATE
                    cls = classify_live(b, al, x)
                    fails.setdefault(('live', cls), f'{x} holds an earlier value when {_h(al.stmt)} `{dumps(al.stmt)[:80]}` starts but is not in live_symbols')
        return [Failure(what, cls) for (kind, cls), what in sorted(fails.items(), key=lambda kv: (kv[0][0], str(kv[0][1])))]


PROP = C26()
READY = True
