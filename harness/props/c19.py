"""C19 — fast regex discovery finds what the full parser finds.

Request (one line):

    (file (lines "l1" "l2" ...) (orders ((c c ..) (c ..) ..) ...))

* ``lines``   the physical lines of one free-form Fortran source file (no tabs, no trailing newline in the strings)
* ``orders``  request histories: every history is a list of parser-class subsets; the first subset is the
              ``parser_classes`` of ``Sourcefile.from_source(frontend=REGEX)``, every further one a
              ``make_complete(frontend=REGEX, parser_classes=…)`` call.  Class atoms: pu if im td de ca pr.

Response (real code and Lean model, compared as strings):

    (ok (known cls...) (stmts ("text" l1 l2)...) (fp FACTS) (regex FACTS|skipped) (hist FACTS|skipped ...) (lost B ...))

* ``stmts``  ``FortranReader(src).sanitized_lines`` (text, span) vs the Lean ``Reader`` model
* ``fp``     facts extracted from the real FP frontend vs Lean ``discover`` with all classes
* ``regex``  facts from the real REGEX frontend (all classes) vs the same ``discover``
* ``hist``   for every history the facts visible in the real Sourcefile after the requests vs the Lean
             session model (``start``/``complete``/``view``)
* ``known``  known-finding classes the input falls in (Python classifier vs Lean ``Known…`` predicates); the
             regex-side entries are ``skipped`` on both sides for inputs in a class whose discovery is known to be wrong.

Facts (canonical: lower-case, sorted):
    (unit "a/b" kind "name") (import "path" "mod" only|all|rename ("local" "use"|"-")...)
    (typedef "path" "name" (binds ("n" "target"|"-")...) (generics ("g" "t"...)...))
    (interface "path" "spec"|"-" abstract|plain (procs "n"...) (bodies "n"...))
    (call "path" "target")

oracle: REGEX facts == FP facts on the real objects (all classes), every history ends in the facts of the union of its
requests; failures are classified by the decidable classes below.
"""
import itertools
import logging
import os
import re
from pathlib import Path

from loki import Sourcefile, Module, Subroutine, FindNodes
from loki.ir import nodes as ir
from loki.frontend import REGEX, FP
from loki.frontend.regex import RegexParserClass as RC, PATTERN_REGISTRY
from loki.frontend.source import FortranReader
import loki.logging as llog

from ..core import Prop, Case, Failure, REPO
from ..sexpr import A, dumps

llog.set_log_level(logging.ERROR)
logging.getLogger('fparser').setLevel(logging.CRITICAL)

CLS = [('pu', 'ProgramUnitClass'), ('if', 'InterfaceClass'), ('im', 'ImportClass'), ('td', 'TypeDefClass'),
       ('de', 'DeclarationClass'), ('ca', 'CallClass'), ('pr', 'PragmaClass')]
CLS_OF = {a: getattr(RC, n) for a, n in CLS}


def head(x):
    return str(x[0]) if isinstance(x, list) and x and isinstance(x[0], A) else None


def field(x, name):
    for e in x[1:]:
        if head(e) == name:
            return e
    raise ValueError(f'missing field {name}')


def rc_of(atoms):
    r = RC.EmptyClass
    for a in atoms:
        r |= CLS_OF[str(a)]
    return r


# ------------------------------------------------------------------ facts from real Sourcefile objects

def _low(s):
    return str(s).lower()


def strip_parens(s):
    out, d = [], 0
    for ch in s:
        if ch == '(':
            d += 1
        elif ch == ')':
            d -= 1
        elif d == 0:
            out.append(ch)
    return ''.join(out)


def facts_of(sf):
    out = []

    def unit(u, path):
        kind = type(u).__name__.lower()
        out.append([A('unit'), '/'.join(path), A(kind), _low(u.name)])
        p = path + [_low(u.name)]
        ps = '/'.join(p)
        spec = u.spec
        inner = set()
        ifaces = FindNodes(ir.Interface).visit(spec) if spec is not None else []
        for it in ifaces:
            for n in FindNodes(ir.Import).visit(it.body):
                inner.add(id(n))
        for im in (FindNodes(ir.Import).visit(spec) if spec is not None else []):
            if id(im) in inner or im.c_import or im.f_include:
                continue
            if im.symbols:
                items = sorted([_low(s.name), _low(s.type.use_name) if s.type.use_name else '-'] for s in im.symbols)
                out.append([A('import'), ps, _low(im.module), A('only')] + items)
            elif im.rename_list:
                items = sorted([_low(v.name), _low(k)] for k, v in im.rename_list)
                out.append([A('import'), ps, _low(im.module), A('rename')] + items)
            else:
                out.append([A('import'), ps, _low(im.module), A('all')])
        for td in (FindNodes(ir.TypeDef).visit(spec) if spec is not None else []):
            binds, gens = [], []
            for d in FindNodes(ir.ProcedureDeclaration).visit(td.body):
                for s in d.symbols:
                    bn = s.type.bind_names
                    if d.generic:
                        gens.append([_low(s.name)] + sorted(_low(getattr(b, 'name', b)) for b in (bn or ())))
                    else:
                        binds.append([_low(s.name), _low(getattr(bn[0], 'name', bn[0])) if bn else '-'])
            out.append([A('typedef'), ps, _low(td.name), [A('binds')] + sorted(binds), [A('generics')] + sorted(gens)])
        for it in ifaces:
            procs = sorted(_low(s.name) for d in FindNodes(ir.ProcedureDeclaration).visit(it.body) for s in d.symbols)
            bodies = sorted(_low(r.name) for r in it.body if isinstance(r, Subroutine))
            spec_ = _low(it.spec.name if hasattr(it.spec, 'name') else it.spec) if it.spec else '-'
            out.append([A('interface'), ps, spec_, A('abstract' if it.abstract else 'plain'),
                        [A('procs')] + procs, [A('bodies')] + bodies])
        if isinstance(u, Subroutine):
            for c in FindNodes(ir.CallStatement).visit(u.ir):
                out.append([A('call'), ps, strip_parens(_low(c.name).replace(' ', ''))])
        for c in (u.contains.body if u.contains else []):
            if isinstance(c, (Subroutine, Module)):
                unit(c, p)

    for n in sf.ir.body:
        if isinstance(n, (Module, Subroutine)):
            unit(n, [])
    return sorted(out, key=dumps)


def text_of(req):
    return '\n'.join(str(l) for l in field(req, 'lines')[1:])


def run_fp(text):
    try:
        return facts_of(Sourcefile.from_source(text, frontend=FP))
    except Exception as e:  # noqa
        return [A('error'), type(e).__name__]


def run_regex(text, history):
    """history: list of lists of class atoms"""
    try:
        sf = Sourcefile.from_source(text, frontend=REGEX, parser_classes=rc_of(history[0]))
        for h in history[1:]:
            sf.make_complete(frontend=REGEX, parser_classes=rc_of(h))
        return facts_of(sf)
    except Exception as e:  # noqa
        return [A('error'), type(e).__name__]


def reader_stmts(text):
    r = FortranReader(text)
    return [[l.line, l.span[0], l.span[1]] for l in r.sanitized_lines]


# ------------------------------------------------------------------ python mirror: tokens, unit tree, classifier

_TOK = re.compile(r"'[^']*'|\"[^\"]*\"|\w+|\S")


def toks(s):
    return [('str' if t[0] in '\'"' else t.lower()) for t in _TOK.findall(s)]


END_KW = {'endmodule': 'module', 'endsubroutine': 'subroutine', 'endfunction': 'function', 'endtype': 'type',
          'endinterface': 'interface'}


def classify(t):
    """statement class of a token list (mirror of Lean `classify`): returns (tag, data)"""
    if not t:
        return ('other', None)
    h = t[0]
    if h in END_KW:
        return ('end', END_KW[h])
    if h == 'end':
        if len(t) == 1:
            return ('end', None)
        if t[1] in ('module', 'subroutine', 'function', 'type', 'interface'):
            return ('end', t[1])
        return ('other', None)
    if h == 'contains' and len(t) == 1:
        return ('contains', None)
    if h == 'module' and len(t) == 2 and t[1] != 'procedure':
        return ('module', t[1])
    if h == 'interface' or (h == 'abstract' and len(t) >= 2 and t[1] == 'interface'):
        return ('interface', None)
    if h == 'type' and len(t) >= 2 and t[1] != '(':
        return ('type', None)
    for i, x in enumerate(t):
        if x in ('subroutine', 'function') and i + 1 < len(t) and re.fullmatch(r'\w+', t[i + 1]) \
                and all(re.fullmatch(r'\w+|[()=]', y) for y in t[:i]):
            return (x, t[i + 1])
        if not re.fullmatch(r'\w+|[()=]', x):
            break
    return ('other', None)


def unit_tree(stmt_texts):
    """nesting of program units from statement texts: list of (kind, name, children, interface_bodies)"""
    root = []
    stack = [('file', None, root, [])]
    depth_other = []     # open type/interface blocks
    for s in stmt_texts:
        tag, data = classify(toks(s))
        if depth_other:
            if tag == 'end' and data == depth_other[-1]:
                depth_other.pop()
            elif tag == 'interface' and depth_other[-1] == 'interface':
                depth_other.append('interface')
            elif depth_other[-1] == 'interface' and tag in ('subroutine', 'function'):
                depth_other.append(tag)
                stack[-1][3].append(data)
            elif tag == 'end' and data is None and depth_other[-1] in ('subroutine', 'function'):
                depth_other.pop()
            continue
        if tag in ('module', 'subroutine', 'function'):
            node = (tag, data, [], [])
            stack[-1][2].append(node)
            stack.append(node)
        elif tag in ('type', 'interface'):
            depth_other.append(tag)
        elif tag == 'end' and len(stack) > 1 and (data is None or data == stack[-1][0]):
            stack.pop()
    return root


def known_classes(text, stmts=None):
    """decidable known-finding classes of an input (mirror of the Lean `Known…` predicates on reader statements)"""
    if stmts is None:
        stmts = [s[0] for s in reader_stmts(text)]
    tree = unit_tree(stmts)
    out = []
    # a module procedure holds a nested END SUBROUTINE/FUNCTION (an internal procedure of any kind or an interface
    # body) and another module follows in the file.  Over-approximation of the failing family: which of these files
    # the ModulePattern regex actually derails on depends on its backtracking, which is not modelled.
    for i, top in enumerate(tree):
        if top[0] == 'module' and any(c[2] or c[3] for c in top[2]) and any(t[0] == 'module' for t in tree[i + 1:]):
            out.append('nested-end-then-module')
            break
    return out


def unit_classes(hh):
    """classes the program units were last parsed with after the history (mirror of Lean `runHistory`), None = still raw"""
    u = None
    for s in hh:
        if u is not None:
            u = u | set(s)
        elif 'pu' in s:
            u = set(s)
    return u


def block_class_alone(u):
    return u is not None and bool(u & {'td', 'if'}) and not {'td', 'if', 'im', 'ca'} <= u


OBS = {'pu', 'if', 'im', 'td', 'ca'}


def request_lost(hh):
    """mirror of Lean `KnownRequestLost`: units exist at the end, but an observable class was requested only before the
    first request containing ProgramUnitClass and never again"""
    u = unit_classes(hh)
    return u is not None and (u & OBS) != ({c for s in hh for c in s} & OBS)


FACT_CLASS = {'import': 'im', 'typedef': 'td', 'interface': 'if', 'call': 'ca', 'unit': 'pu'}

SKIP_REGEX = {'nested-end-then-module'}


# ------------------------------------------------------------------ generator: logical programs

NAMES = ['alpha', 'beta', 'gamma', 'delta', 'kern', 'drv', 'util', 'phys', 'dyn', 'rad', 'cld', 'flux', 'geom', 'parm']
KEYWORDS_IN_TEXT = ['end module foo', 'call hidden(x)', 'subroutine ghost', 'use phantom', 'contains', 'end subroutine',
                    'type :: fake', 'interface', 'a ; b', 'x & y', "it's"]


class G:
    """lexeme-level statement builder: a statement is a list of (kind, text), kind in w (word) o (operator) s (string)"""

    def __init__(self, rng):
        self.rng = rng
        self.n = 0

    def fresh(self, base=None):
        self.n += 1
        return f'{base or self.rng.choice(NAMES)}{self.n}'


def W(*ws):
    return [('w', w) for w in ws]


def O(o):
    return [('o', o)]


def S(body, q="'"):
    return [('s', q + body + q)]


def commalist(items):
    out = []
    for i, it in enumerate(items):
        if i:
            out += O(',')
        out += it
    return out


def gen_string(rng):
    body = rng.choice(KEYWORDS_IN_TEXT + ['abc', 'a!b', 'x;y', 'p&q', '( unbalanced', 'end'])
    q = rng.choice(['"', "'"])
    if q in body:
        q = '"' if q == "'" else "'"
    return S(body, q)


def gen_expr(rng, depth=0):
    r = rng.random()
    if r < 0.3 or depth > 1:
        return W(rng.choice(['x', 'y', 'n', 'zz']))
    if r < 0.45:
        return W(str(rng.randint(0, 9)))
    if r < 0.6:
        return W(rng.choice(['arr', 'f'])) + O('(') + gen_expr(rng, depth + 1) + O(')')
    if r < 0.7:
        return gen_string(rng)
    return gen_expr(rng, depth + 1) + O(rng.choice(['+', '*', '-'])) + gen_expr(rng, depth + 1)


def gen_use(g, rng, feats):
    mod = rng.choice(NAMES) + '_mod'
    st = W('use', mod)
    r = rng.random()
    if r < 0.25:
        return st
    items = []
    for _ in range(rng.randint(1, 3)):
        a = g.fresh('sym')
        if rng.random() < 0.3:
            items.append(W(a) + O('=>') + W(g.fresh('orig')))
        else:
            items.append(W(a))
    if r < 0.85:
        return st + O(',') + W('only') + O(':') + commalist(items)
    # rename list without only
    items = [W(g.fresh('loc')) + O('=>') + W(g.fresh('orig')) for _ in range(rng.randint(1, 2))]
    return st + O(',') + commalist(items)


def gen_call(g, rng, callee=None):
    chain = [callee or g.fresh('tgt')]
    if callee is None and rng.random() < 0.25:
        chain = [rng.choice(['obj', 'this'])] + [g.fresh('m') for _ in range(rng.randint(1, 2))]
    st = W('call')
    for i, c in enumerate(chain):
        if i:
            st += O('%')
        st += W(c)
        if i < len(chain) - 1 and rng.random() < 0.2:
            st += O('(') + rng.choice([W('n'), W('n') + O('+') + W('1'), W('f') + O('(') + W('n') + O(')')]) + O(')')
    if rng.random() < 0.85:
        st += O('(') + commalist([gen_expr(rng) for _ in range(rng.randint(0, 3))]) + O(')')
    if rng.random() < 0.25:
        lhs = gen_expr(rng, 1)
        if rng.random() < 0.4:
            # parentheses nested 2-3 deep inside the condition
            lhs = rng.choice([W('arr') + O('(') + W('f') + O('(') + W('n') + O(')') + O(')'),
                              W('f') + O('(') + W('arr') + O('(') + W('f') + O('(') + W('n') + O('+') + W('1') + O(')') + O(')') + O(')'),
                              O('(') + O('(') + W('x') + O('+') + W('arr') + O('(') + W('n') + O(')') + O(')') + O('*') + W('y') + O(')')])
        st = W('if') + O('(') + lhs + O(rng.choice(['>', '==', '<'])) + gen_expr(rng, 1) + O(')') + st
    return st


def gen_inline_if(g, rng):
    """inline IF with a break opportunity ('b' lexeme) between the condition and the action (call or assignment)"""
    cond = gen_expr(rng, 1) + O(rng.choice(['>', '==', '<'])) + gen_expr(rng, 1)
    if rng.random() < 0.4:
        cond += O('.and.') + W('x') + O('>') + W('0')
    if rng.random() < 0.5:
        act = W('call', g.fresh('tgt')) + O('(') + commalist([gen_expr(rng) for _ in range(rng.randint(1, 3))]) + O(')')
    else:
        act = W(rng.choice(['x', 'y', 'zz'])) + O('=') + gen_expr(rng)
    return W('if') + O('(') + cond + O(')') + [('b', '')] + act


def gen_body_stmt(g, rng, feats=None):
    if feats and feats.get('p_inline_if') and rng.random() < feats['p_inline_if']:
        return [gen_inline_if(g, rng)]
    r = rng.random()
    if r < 0.45:
        return [gen_call(g, rng)]
    if r < 0.65:
        return [W(rng.choice(['x', 'y', 'zz'])) + O('=') + gen_expr(rng)]
    if r < 0.75:
        return [W('print') + O('*') + O(',') + gen_string(rng)]
    if r < 0.82:
        return [W(str(rng.choice([10, 20, 300])), 'continue')]
    if r < 0.92:
        return [W('if') + O('(') + W('x') + O('>') + W('0') + O(')') + W('then'), gen_call(g, rng), W('end if')]
    return [W('do', 'n') + O('=') + W('1') + O(',') + W('3'), gen_call(g, rng), W(rng.choice(['end do', 'enddo']))]


def gen_typedef(g, rng, procs):
    name = g.fresh('typ')
    hd = W('type')
    r = rng.random()
    if r < 0.3:
        hd += O('::')
    elif r < 0.5:
        hd += O(',') + W('public') + O('::')
    hd += W(name)
    out = [hd, W('integer') + O('::') + W('comp_a'), W('real') + O('::') + W('comp_b') + O('(') + W('3') + O(')')]
    binds = []
    if rng.random() < 0.7:
        out.append(W('contains'))
        for _ in range(rng.randint(1, 3)):
            b = g.fresh('bnd')
            st = W('procedure')
            if rng.random() < 0.3:
                st += O(',') + W(rng.choice(['pass', 'nopass', 'public']))
            st += O('::') + W(b)
            if rng.random() < 0.6:
                st += O('=>') + W(rng.choice(procs) if procs and rng.random() < 0.7 else g.fresh('impl'))
            binds.append(b)
            out.append(st)
        if binds and rng.random() < 0.5:
            gs = rng.sample(binds, rng.randint(1, min(2, len(binds))))
            out.append(W('generic') + O('::') + W(g.fresh('gen')) + O('=> ') + commalist([W(x) for x in gs]))
    out.append(W('end type' + (' ' + name if rng.random() < 0.6 else '')))
    return out


def gen_interface(g, rng, procs, in_module):
    out = []
    r = rng.random()
    if in_module and procs and r < 0.5:
        name = g.fresh('ifc')
        out.append(W('interface', name))
        ps = rng.sample(procs, rng.randint(1, min(2, len(procs))))
        out.append(W('module', 'procedure') + (O('::') if rng.random() < 0.3 else []) + commalist([W(p) for p in ps]))
        out.append(W('end interface' + (' ' + name if rng.random() < 0.6 else '')))
        return out
    abstract = r > 0.85
    out.append(W('abstract', 'interface') if abstract else W('interface'))
    for _ in range(rng.randint(1, 2)):
        kind = rng.choice(['subroutine', 'function'])
        nm = g.fresh('ext')
        out.append(W(kind, nm) + O('(') + W('q') + O(')'))
        if rng.random() < 0.4:
            out.append(W('use', 'kinds_mod') + O(',') + W('only') + O(':') + W('jprb'))
        out.append(W('real') + O('::') + W('q'))
        if kind == 'function':
            out.append(W('real') + O('::') + W(nm))
        out.append(W('end ' + kind + (' ' + nm if rng.random() < 0.6 else '')))
    out.append(W('end interface'))
    return out


def gen_routine(g, rng, depth, feats, siblings=()):
    kind = rng.choice(['subroutine', 'subroutine', 'function'])
    name = g.fresh(rng.choice(['sub', 'run', 'calc']))
    hd = []
    r = rng.random()
    if r < 0.15:
        hd += W(rng.choice(['pure', 'elemental', 'recursive']))
    if kind == 'function' and rng.random() < 0.4:
        hd += rng.choice([W('real'), W('integer'), W('real') + O('(') + W('kind') + O('=') + W('8') + O(')')])
        typed = True
    else:
        typed = False
    hd += W(kind, name) + O('(') + commalist([W('x')]) + O(')')
    res = None
    if kind == 'function' and not typed and rng.random() < 0.5:
        res = 'res'
        hd += W('result') + O('(') + W(res) + O(')')
    out = [hd]
    for _ in range(rng.randint(0, 2)):
        out.append(gen_use(g, rng, feats))
    out.append(W('implicit', 'none'))
    out.append(W('real') + O('::') + W('x') + O(',') + W('y') + O(',') + W('zz'))
    out.append(W('integer') + O('::') + W('n'))
    if kind == 'function' and not typed:
        out.append(W('real') + O('::') + W(res or name))
    if rng.random() < 0.2:
        out += gen_interface(g, rng, [], False)
    for _ in range(rng.randint(0, 4)):
        out += gen_body_stmt(g, rng, feats)
    if siblings and rng.random() < 0.4:
        out.append(gen_call(g, rng, rng.choice(siblings)))
    if kind == 'function':
        out.append(W(res or name) + O('=') + W('x'))
    inner = []
    if depth < feats['maxdepth'] and rng.random() < feats['p_internal']:
        out.append(W('contains'))
        for _ in range(rng.randint(1, 2)):
            st, nm = gen_routine(g, rng, 99, feats)
            out += st
            inner.append(nm)
    e = rng.random()
    if e < 0.7:
        out.append(W(f'end {kind} {name}'))
    elif e < 0.9:
        out.append(W(f'end {kind}'))
    else:
        out.append(W(f'end{kind} {name}'))
    return out, name


def gen_module(g, rng, feats):
    name = g.fresh('mod')
    out = [W('module', name)]
    for _ in range(rng.randint(0, 2)):
        out.append(gen_use(g, rng, feats))
    out.append(W('implicit', 'none'))
    nproc = rng.randint(0, 3)
    routines, names = [], []
    for _ in range(nproc):
        st, nm = gen_routine(g, rng, 1, feats, siblings=tuple(names))
        routines.append(st)
        names.append(nm)
    for _ in range(rng.randint(0, 2)):
        out += gen_typedef(g, rng, names)
    if rng.random() < 0.4:
        out += gen_interface(g, rng, names, True)
    if rng.random() < 0.5:
        out.append(W('real') + O('::') + W(g.fresh('gvar')))
    if routines:
        out.append(W('contains'))
        for st in routines:
            out += st
    e = rng.random()
    out.append(W(f'end module {name}') if e < 0.7 else W('end module') if e < 0.9 else W(f'endmodule {name}'))
    return out


def gen_prog(rng, feats):
    g = G(rng)
    out = []
    for _ in range(rng.randint(1, feats['maxtop'])):
        if rng.random() < 0.55:
            out.append(gen_module(g, rng, feats))
        else:
            out.append(gen_routine(g, rng, 2, feats)[0])
    return out      # list of top-level items, each a list of statements


# ------------------------------------------------------------------ layout: logical program -> physical lines

def recase(rng, w, mode):
    if mode == 'lower' or w[0].isdigit():
        return w
    if mode == 'upper':
        return w.upper()
    r = rng.random()
    return w.upper() if r < 0.3 else w.capitalize() if r < 0.5 else w


def gen_comment(rng):
    r = rng.random()
    if r < 0.35:
        return ''
    if r < 0.5:
        return '   '
    return ' ' * rng.randint(0, 3) + '!' + rng.choice(['', ' plain', ' ' + rng.choice(KEYWORDS_IN_TEXT), '> doc', '!', ' "q', " 'q"])


def render_stmt(rng, st, lay):
    """physical lines of one statement (first line not indented): continuation breaks only between lexemes; a 'b'
    lexeme is a break opportunity taken with probability lay['p_ifbreak']"""
    out = ['']
    n = len(st)

    def do_break(need):
        sp = rng.randint(0, 2)
        lead = rng.random() < 0.4
        cind = rng.randint(0, 8)
        after = rng.randint(0, 2) if lead else 0
        if need and sp == 0 and (after if lead else cind) == 0:
            sp = 1
        out[-1] += ' ' * sp + '&'
        if rng.random() < lay['p_inline']:
            out[-1] += ' ! ' + rng.choice(['cont', 'call zzz(1)', 'end module', "it's", '&', '"'])
        for _ in range(2):
            if rng.random() < lay['p_comment'] * 0.5:
                out.append(gen_comment(rng))
        out.append(' ' * cind + ('&' + ' ' * after if lead else ''))

    for i, (k, t) in enumerate(st):
        if k == 'b':
            if lay.get('p_ifbreak') and rng.random() < lay['p_ifbreak']:
                do_break(False)
            continue
        if k == 'w':
            t = recase(rng, t, lay['case'])
        out[-1] += t
        if i == n - 1:
            break
        need = k in 'ws' and st[i + 1][0] in 'ws'
        if rng.random() < lay['p_break'] and not (i == 0 and t[0].isdigit()):
            do_break(need)
        else:
            out[-1] += ' ' * (rng.randint(1, 2) if need else rng.choice([0, 0, 1]))
    return out


SIMPLE_HEADS = {'use', 'implicit', 'real', 'integer', 'call', 'if', 'print', 'x', 'y', 'zz', 'do', 'end do', 'enddo', 'end if',
                '10', '20', '300'}
BODY_HEADS = {'call', 'if', 'print', 'x', 'y', 'zz', '10', '20', '300'}


def simple(st):
    words = [x[1] for x in st]
    return words[0] in SIMPLE_HEADS and 'subroutine' not in words and 'function' not in words


def render(rng, prog, lay):
    """lay: dict(case, p_break, p_semi, p_comment, p_inline, indent) -> physical lines"""
    lines = []
    joinable = False     # the last physical line ends with statement text (no comment)
    for item in prog:
        if lines and rng.random() < 0.7:
            lines.append('')
            joinable = False
        depth = 0
        prev_simple = False
        for st in item:
            first = st[0][1]
            words = [x[1] for x in st]
            closes = first.startswith('end') and first not in ('end if', 'end do', 'enddo')
            if closes or first == 'contains':
                depth = max(0, depth - 1)
            ind = ' ' * (lay['indent'] * depth) if lay['indent'] >= 0 else ' ' * rng.randint(0, 6)
            sl = render_stmt(rng, st, lay)
            if joinable and prev_simple and simple(st) and rng.random() < lay['p_semi']:
                lines[-1] = lines[-1] + rng.choice([';', ' ; ', '; ']) + sl[0]
            else:
                lines.append(ind + sl[0])
            lines += sl[1:]
            joinable = True
            if rng.random() < lay['p_inline']:
                lines[-1] += ' ! ' + rng.choice(['c', 'call foo(x)', 'end subroutine', 'use m', '"', "isn't", 'a & b', '&'])
                joinable = False
            opens = (first in ('module', 'contains', 'interface', 'abstract', 'type') and words[:2] != ['module', 'procedure']) \
                or (not closes and ('subroutine' in words or 'function' in words))
            if opens:
                depth += 1
            prev_simple = simple(st)
            if lay.get('p_head') and (first == 'contains' or (opens and first not in ('interface', 'abstract', 'type'))) \
                    and rng.random() < lay['p_head']:
                # comment / blank lines at the head of a nested section (after CONTAINS, after a unit header)
                for j in range(rng.randint(1, 3)):
                    lines.append(rng.choice(['', ind + f'! head note {len(lines)}', f'!> head doc {len(lines)}', '  ! ' + '-' * 10 + str(len(lines))]))
                joinable = False
            if rng.random() < lay['p_comment']:
                lines.append(gen_comment(rng) if rng.random() < 0.8 or first not in BODY_HEADS else ind + '!$loki note')
                joinable = False
    return lines


LAYOUTS = {
    'plain': dict(case='lower', p_break=0.0, p_semi=0.0, p_comment=0.0, p_inline=0.0, indent=2),
    'comments': dict(case='lower', p_break=0.0, p_semi=0.0, p_comment=0.3, p_inline=0.2, indent=2),
    'case': dict(case='mixed', p_break=0.0, p_semi=0.0, p_comment=0.0, p_inline=0.0, indent=-1),
    'cont': dict(case='lower', p_break=0.15, p_semi=0.0, p_comment=0.2, p_inline=0.1, indent=2),
    'semi': dict(case='lower', p_break=0.0, p_semi=0.25, p_comment=0.0, p_inline=0.0, indent=2),
    'wild': dict(case='mixed', p_break=0.12, p_semi=0.15, p_comment=0.25, p_inline=0.15, indent=-1),
}

FEATS = dict(maxtop=3, maxdepth=2, p_internal=0.3)


def all_histories(rng, n):
    """request histories of length <= 3 over interesting class subsets"""
    subsets = [['pu'], ['im'], ['ca'], ['td'], ['if'], ['pu', 'im'], ['pu', 'ca'], ['pu', 'td', 'if'], ['im', 'ca'],
               ['pu', 'if', 'im', 'td', 'de', 'ca', 'pr'], ['de'], ['pr', 'ca']]
    out = []
    for _ in range(n):
        k = rng.randint(1, 3)
        out.append([rng.choice(subsets) for _ in range(k)])
    # family "early request, program units, early classes requested again" (must equal the union request)
    early = rng.choice([['im'], ['td', 'im'], ['ca'], ['if', 'im', 'td', 'ca'], ['im', 'ca'], ['td', 'if', 'im', 'ca']])
    again = [c for c in early if rng.random() < 0.8] or early
    if 'td' in again or 'if' in again:
        again = sorted(set(again) | {'td', 'if', 'im', 'ca'})     # stay outside unrequested-classes-before-block
    out[rng.randrange(len(out))] = [early, rng.choice([['pu'], ['pu', 'de']]), again + (['pu'] if rng.random() < 0.3 else [])]
    return out


def mk_req(lines, hists):
    return [A('file'), [A('lines')] + list(lines), [A('orders')] + [[[A(c) for c in s] for s in h] for h in hists]]


class C19(Prop):
    id = 'C19'
    title = 'Fast regex discovery finds what the full parser finds'
    model_modules = ['LokiModel.C19.Reader', 'LokiModel.C19.Discover']
    props_module = 'LokiModel.Props.C19'
    findings_module = 'LokiModel.Findings.C19'
    driver = 'Drivers/C19.lean'
    theorems = ['C19_classes_pinned', 'C19_patterns_pinned', 'C19_incremental_commutes_partial', 'C19_incremental_commutes_narrow', 'C19_incremental_order_irrelevant',
                'C19_incremental_two', 'C19_incremental_general', 'C19_layout_invariant_tokens', 'C19_toks_leading_blank',
                'C19_reader_spans_ok', 'C19_reader_items_ok']
    design_ref = 'DESIGN.md 4.C C19'
    level = 'proof'
    level_text = ('Theorems (Lean kernel): C19_incremental_commutes_partial / _order_irrelevant / _two — for every history whose first '
                  'request contains ProgramUnitClass the visible discovery is that of the union of all requested classes, in any '
                  'order and grouping; C19_incremental_general — what the code does for every history (requests before the first '
                  'one with ProgramUnitClass are forgotten); C19_layout_invariant_tokens — discover depends on the statement lines '
                  'only through their token lists, so every re-layout preserving the reader token lists preserves the discovery for '
                  'every class set; C19_reader_spans_ok / _items_ok — every span the reader model emits is well formed; '
                  'C19_classes_pinned / C19_patterns_pinned — regenerated RegexParserClass / Pattern.parser_class tables. '
                  'NOT proved (correspondence only): that the concrete layout edits (& splits, ; joins, comments, indentation, '
                  're-casing) preserve the token lists of the Reader model, and reader_sound in the form text = join of the span lines. '
                  'The regular expressions are not modelled: REGEX = discover = FP is checked three-way on generated files.')
    level_note = ('discover is a specification, not a model of the regexes; the Reader models fparser\'s free-form reader as used by '
                  'FortranReader (hand-written, validated by correspondence on statement text and span). Inputs in class '
                  'nested-end-then-module are excluded from the REGEX side of the correspondence (the class over-approximates the failing family).')
    technique = 'Lean 4 theorems about a hand-written reader model and a specification-level discovery + three-way correspondence'
    rule = ('generated multi-unit files (modules with uses/typedefs with bindings and generics/interfaces/module procedures with '
            'internal procedures, free routines; bodies with calls incl. inline IF and % chains, labels, strings and comments '
            'containing keywords) rendered in 6 layouts (plain, comments, case, continuation, semicolon, wild) x 3 random request '
            'histories of <= 3 class subsets; distinct by request line')
    trusted_base = ['harness/props/c19.py facts_of (extraction of facts from real Sourcefile objects) and generator/renderer',
                    'Lean driver evaluation of Reader/Discover']
    assumptions = ['free-form sources without tab characters, INCLUDE lines, construct names on ;-joined pieces beyond what fparser extracts, '
                   'or backslash-continued cpp directives',
                   'generator main stream avoids REGEX fragilities observed but not classified: >1 blank before the name in END of an '
                   'internal procedure, ; across block boundaries (REGEX AssertionError), !$ pragma lines between module procedures, '
                   'generic bindings without a blank after => (fparser yields a truncated name)',
                   'repository Fortran sources are not part of the generated inputs']
    extra_obligations = ['reader: FortranReader.sanitized_lines == Lean stmts', 'fp: FP facts == discover all',
                         'regex: REGEX facts == discover all', 'hist: REGEX facts after every history == Session view']

    def tables(self):
        members = [(m.name, m.value) for m in RC if m.name not in ('EmptyClass', 'AllClasses')]
        pats = sorted((n, p.parser_class.name) for n, p in PATTERN_REGISTRY.items())
        s = ['/-! generated from loki/frontend/regex.py — do not edit -/', 'namespace LokiModel.Generated.C19', '',
             'def parserClasses : List (String × Nat) := [' + ', '.join(f'("{n}", {v})' for n, v in members) + ']',
             'def allClassesValue : Nat := ' + str(RC.AllClasses.value),
             'def patternClass : List (String × String) := [' + ', '.join(f'("{n}", "{c}")' for n, c in pats) + ']',
             '', 'end LokiModel.Generated.C19', '']
        return {'LokiModel/Generated/C19Tables.lean': '\n'.join(s)}

    def gen(self, rng, tier):
        n = {'quick': 40, 'thorough': 350, 'search': 120}.get(tier, 40)
        for i in range(n):
            prog = gen_prog(rng, FEATS)
            lname = list(LAYOUTS)[i % len(LAYOUTS)]
            lines = render(rng, prog, LAYOUTS[lname])
            yield Case(mk_req(lines, all_histories(rng, 3)), stream='gen-' + lname)

    def impl(self, req):
        text = text_of(req)
        stmts = reader_stmts(text)
        known = known_classes(text, [s[0] for s in stmts])
        skip = bool(set(known) & SKIP_REGEX)
        out = [A('ok'), [A('known')] + [A(k) for k in known], [A('stmts')] + stmts, [A('fp')] + run_fp(text)]
        allc = [a for a, _ in CLS]
        out.append([A('regex')] + ([A('skipped')] if skip else run_regex(text, [allc])))
        hs = [A('hist')]
        for h in field(req, 'orders')[1:]:
            hh = [[str(c) for c in s] for s in h]
            hs.append(A('skipped') if skip or block_class_alone(unit_classes(hh)) else run_regex(text, hh))
        out.append(hs)
        out.append([A('lost')] + [A('true' if request_lost([[str(c) for c in s] for s in h]) else 'false')
                                  for h in field(req, 'orders')[1:]])
        return out

    def oracle(self, req):
        text = text_of(req)
        fails = []
        known = known_classes(text)
        cls = known[0] if known else None
        fp = run_fp(text)
        allc = [a for a, _ in CLS]
        rx = run_regex(text, [allc])
        if fp and head(fp) == 'error' if fp and isinstance(fp[0], A) else False:
            return [Failure(f'FP frontend rejects the generated file: {fp}', error=True)]
        if dumps(fp) != dumps(rx):
            only_fp = [dumps(f) for f in fp if f not in rx]
            only_rx = [dumps(f) for f in rx if f not in fp]
            fails.append(Failure(f'REGEX != FP: only FP {only_fp[:4]} only REGEX {only_rx[:4]}', cls))
        for h in field(req, 'orders')[1:]:
            hh = [[str(c) for c in s] for s in h]
            union = sorted({c for s in hh for c in s})
            a = run_regex(text, hh)
            b = run_regex(text, [union])
            if dumps(a) != dumps(b):
                # only histories that really lose a class (requested before the units existed, never again) are the
                # known finding; a history that re-requests the early classes must agree with the union request
                c2 = 'request-before-program-units' if request_lost(hh) else cls
                fails.append(Failure(f'history {hh} != single request {union}: {dumps(a)[:200]} vs {dumps(b)[:200]}', c2))
            extra = [f for f in a if isinstance(f, list) and FACT_CLASS.get(head(f)) not in union]
            if extra:
                c3 = 'unrequested-classes-before-block' if block_class_alone(unit_classes(hh)) else cls
                fails.append(Failure(f'history {hh} reports facts of classes never requested: {dumps(extra[0])}', c3))
        return fails

    def shrink_candidates(self, req):
        """structure-preserving smaller requests: one history only, then removal of line chunks (coarse to fine)"""
        lines = field(req, 'lines')[1:]
        hists = field(req, 'orders')[1:]
        if len(hists) > 1:
            for h in hists:
                yield [A('file'), [A('lines')] + lines, [A('orders'), h]]
        for h in hists:
            if len(h) > 1:
                for i in range(len(h)):
                    yield [A('file'), [A('lines')] + lines, [A('orders'), h[:i] + h[i + 1:]] + [x for x in hists if x is not h]]
        n = len(lines)
        size = max(1, n // 2)
        while size >= 1:
            for start in range(0, n, size):
                yield [A('file'), [A('lines')] + lines[:start] + lines[start + size:], [A('orders')] + hists]
            if size == 1:
                break
            size //= 2

    def classes(self):
        return ['nested-end-then-module', 'request-before-program-units', 'unrequested-classes-before-block']


PROP = C19()
READY = True
