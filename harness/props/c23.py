"""C23 — batch processing does not depend on the letter case of names.

Requests (one line each):

    (twin (proj P) (pi N) (config C) (seeds ..) (fullparse B) (config2 C2) (seeds2 ..) (abs A) (abs2 A2))
        the project P (C21 generator format) and its case-permuted twin (every name occurrence of the sources re-cased
        by random.Random(N); config keys/lists and seeds re-cased: C2, seeds2; file names unchanged)
    (dup (proj P) (seeds ..) (kernel "k") (suffix "s") (msuffix "m") (abs A))
        Scheduler.process(DuplicateKernel([k], s, m or None), PLAN): the item names it adds to the cache
    (fargs (strict B) (fullparse B) (seeds ..) (routines (r "name" "File.F90" (c "callee") (d "DEF" "callee") (n "DEF" "callee")..)..)
           (keys (k dir|DIR|rel "rest" "DEF"..)..))
        free routines, one per file, with calls inside #ifdef (d) / #ifndef (n); SchedulerConfig.frontend_args entries
        {key: {preprocess: True, defines: [...]}} whose keys are the project directory as spelled (dir) or upper-cased
        (DIR) + "/" + rest, or relative (rel): file names, sub-paths, suffixes, patterns, in assorted letter case
    (item "a" "b")
        two real ProcedureItem objects: ==, hash equality, len({a, b}), a in {b}, a in [b]

impl   : the real code on the original AND on the twin (graph in graph order with kinds, processing order of a probe
         transformation); the Lean driver answers from the abstractions exported from the real item factory.
oracle : the twin comparison itself (normalised graph and order of run 2 = run 1), DuplicateKernel with the
         lower-cased suffixes gives the same names, == implies equal hash / set and dict identity.
"""
import copy
import json
import os
import random
import subprocess
import sys
from pathlib import Path

from loki.batch import Scheduler, Transformation, ProcessingStrategy
from loki.batch.item import ProcedureItem, FileItem
from loki.frontend import FP
from loki.transformations.dependency import DuplicateKernel

from ..core import Prop, Case, Failure
from ..sexpr import A, dumps
from . import c21
from .c21 import head, field, a2b, b2a, project_dir, export_abs, decode_config, kind_of, truth

MODELLED_ERRORS = ('runtimeerror', 'unboundlocalerror', 'networkxunfeasible', 'transformationerror')


# ------------------------------------------------------------------ re-casing

def recase_str(rng, s):
    if not s:
        return s
    r = rng.random()
    if r < 0.25:
        return s.upper()
    if r < 0.45:
        return s.lower()
    if r < 0.6:
        return s.capitalize()
    if r < 0.75:
        return s.swapcase()
    return ''.join(c.upper() if rng.random() < 0.5 else c.lower() for c in s)


def recase_tree(rng, x, keep_file_names=True):
    """re-case every string of an s-expression (atoms untouched); the name of a (file "name" …) node is kept"""
    if isinstance(x, A):
        return x
    if isinstance(x, str):
        return recase_str(rng, x)
    if isinstance(x, list):
        if keep_file_names and head(x) == 'file':
            return [x[0], x[1]] + [recase_tree(rng, e) for e in x[2:]]
        return [recase_tree(rng, e) for e in x]
    return x


def lower_tree(x):
    if isinstance(x, A):
        return x
    if isinstance(x, str):
        return x.lower()
    if isinstance(x, list):
        if head(x) == 'file':
            return [x[0], x[1]] + [lower_tree(e) for e in x[2:]]
        return [lower_tree(e) for e in x]
    return x


def twin_project(proj, pi):
    return recase_tree(random.Random(int(pi)), proj)


def strip_ignore(cfg):
    """`ignore` lists set `is_ignored` flags (order dependent, not modelled) and exclude items from processing: not used here"""
    out = []
    for e in cfg:
        if isinstance(e, list) and head(e) == 'ignore':
            out.append([A('ignore')])
        elif isinstance(e, list):
            out.append(strip_ignore(e))
        else:
            out.append(e)
    return out


# ------------------------------------------------------------------ real code

class Probe(Transformation):
    """records the items it is applied to, in order"""

    def __init__(self):
        self.seen = []

    def transform_subroutine(self, routine, **kwargs):
        self.seen.append(kwargs['item'].name)

    def plan_subroutine(self, routine, **kwargs):
        self.seen.append(kwargs['item'].name)


def errkind(e):
    return 'runtimeerror' if type(e) is RuntimeError else type(e).__name__.lower()


def real_run(dirpath, cfg, seeds, fullparse):
    """(graph result, processing order | None)"""
    try:
        sch = Scheduler(paths=[dirpath], config=copy.deepcopy(cfg), seed_routines=list(seeds), full_parse=fullparse, frontend=FP)
    except Exception as e:  # pylint: disable=broad-except
        return ['error', errkind(e)], None
    nodes = [[i.name, kind_of(i)] for i in sch.items]
    edges = [[a.name, b.name] for a, b in sch.dependencies]
    probe = Probe()
    try:
        sch.process(probe, proc_strategy=ProcessingStrategy.PLAN)
        order = list(probe.seen)
    except Exception:  # pylint: disable=broad-except
        order = None
    return ['ok', nodes, edges], order


def real_dup(dirpath, seeds, kernel, suffix, msuffix):
    cfg = {'default': {'role': 'kernel', 'expand': True, 'strict': False}, 'routines': {}}
    try:
        sch = Scheduler(paths=[dirpath], config=cfg, seed_routines=list(seeds), full_parse=False, frontend=FP)
    except Exception as e:  # pylint: disable=broad-except
        return ['error', errkind(e)]
    try:
        sch.process(DuplicateKernel(duplicate_kernels=[kernel], duplicate_suffix=suffix,
                                    duplicate_module_suffix=msuffix or None), proc_strategy=ProcessingStrategy.PLAN)
    except Exception as e:  # pylint: disable=broad-except
        return ['error', errkind(e)]
    # the items DuplicateKernel created: what it recorded as additional dependencies of the callers (process() re-runs
    # the discovery afterwards, which adds the dependency closure of the duplicates to the cache: not looked at)
    new = sorted({d.name for it in sch.item_factory.item_cache.values()
                  for d in (it.plan_data.get('additional_dependencies') or ())})
    return ['ok', new]


def real_twin(req):
    proj = field(req, 'proj')
    proj2 = twin_project(proj, str(field(req, 'pi')[1]))
    fp = a2b(field(req, 'fullparse')[1])
    cfg = decode_config(field(req, 'config'))
    cfg2 = decode_config([A('config')] + field(req, 'config2')[1:])
    seeds = [str(s) for s in field(req, 'seeds')[1:]]
    seeds2 = [str(s) for s in field(req, 'seeds2')[1:]]
    if [s.lower() for s in seeds] != [s.lower() for s in seeds2] or \
            dumps(lower_tree(field(req, 'config')[1:])) != dumps(lower_tree(field(req, 'config2')[1:])):
        raise ValueError('config2/seeds2 are not a re-casing of config/seeds')
    r1, o1 = real_run(project_dir(proj), cfg, seeds, fp)
    r2, o2 = real_run(project_dir(proj2), cfg2, seeds2, fp)
    return [r1, o1, r2, o2]


def isolated(kind, req):
    """re-run a case in a fresh interpreter (Loki keeps interpreter-global state; see notes/C21.md)"""
    code = ('import sys,json\nfrom harness.props import c23\nfrom harness.sexpr import loads\n'
            'd=json.loads(sys.stdin.read())\nr=c23.REAL[d["kind"]](loads(d["req"]))\nprint("C23RESULT"+json.dumps(r))')
    p = subprocess.run([sys.executable, '-W', 'ignore', '-c', code], input=json.dumps(dict(kind=kind, req=dumps(req))),
                       text=True, capture_output=True, cwd=str(Path(__file__).resolve().parent.parent.parent),
                       timeout=900, env=dict(os.environ))
    for line in p.stdout.splitlines():
        if line.startswith('C23RESULT'):
            return json.loads(line[len('C23RESULT'):])
    return None


def unmodelled(res):
    return isinstance(res, list) and res and res[0] == 'error' and res[1] not in MODELLED_ERRORS


def twin_result(req):
    r = real_twin(req)
    # an error the model does not know, or runs that differ: look again in a fresh interpreter (Loki keeps
    # interpreter-global state; a genuine difference persists there)
    if unmodelled(r[0]) or unmodelled(r[2]) or norm_graph(r[0]) != norm_graph(r[2]):
        r = isolated('twin', req) or r
    return r


def dup_result(req):
    r = real_dup_req(req)
    if unmodelled(r):
        r = isolated('dup', req) or r
    return r


def real_dup_req(req):
    proj = field(req, 'proj')
    return real_dup(project_dir(proj), [str(s) for s in field(req, 'seeds')[1:]], str(field(req, 'kernel')[1]),
                    str(field(req, 'suffix')[1]), str(field(req, 'msuffix')[1]))


# ------------------------------------------------------------------ frontend_args (per-file options keyed by path patterns)

_FA_DIRS = {}


def fa_project_dir(routines):
    """<mkdtemp>/Proj_X with one free routine per file; guarded calls inside #ifdef / #ifndef"""
    import atexit
    import shutil
    import tempfile
    key = dumps(routines)
    if key not in _FA_DIRS:
        root = Path(tempfile.mkdtemp(prefix='c21_fa_'))
        atexit.register(shutil.rmtree, root, ignore_errors=True)
        d = root / 'Proj_X'
        d.mkdir()
        for r in routines[1:]:
            name, fname = str(r[1]), str(r[2])
            lines = [f'subroutine {name}(x)', '  implicit none', '  real :: x']
            for c in r[3:]:
                k = head(c)
                if k == 'c':
                    lines.append(f'  call {c[1]}(x)')
                else:
                    lines += [f'#{"ifdef" if k == "d" else "ifndef"} {c[1]}', f'  call {c[2]}(x)', '#endif']
            lines.append(f'end subroutine {name}')
            (d / fname).write_text('\n'.join(lines) + '\n')
        _FA_DIRS[key] = d
    return _FA_DIRS[key]


def fa_keys(req, d, lowered=False):
    """[(key string, defines)] for the real directory ``d``"""
    out = []
    for k in field(req, 'keys')[1:]:
        kind, rest, defs = str(k[1]), str(k[2]), [str(x) for x in k[3:]]
        pre = str(d) + '/' if kind == 'dir' else str(d).upper() + '/' if kind == 'DIR' else ''
        key = pre + rest
        out.append((key.lower() if lowered else key, defs))
    return out


def real_fargs(req, lowered=False):
    routines = field(req, 'routines')
    d = fa_project_dir(routines)
    cfg = {'default': {'role': 'kernel', 'expand': True, 'strict': a2b(field(req, 'strict')[1])}, 'routines': {},
           'frontend_args': {k: {'preprocess': True, 'defines': list(ds)} for k, ds in fa_keys(req, d, lowered)}}
    try:
        sch = Scheduler(paths=[d], config=cfg, seed_routines=[str(s) for s in field(req, 'seeds')[1:]],
                        full_parse=a2b(field(req, 'fullparse')[1]), frontend=FP)
    except Exception as e:  # pylint: disable=broad-except
        return ['error', errkind(e)]
    return ['ok', [[i.name, kind_of(i)] for i in sch.items], [[a.name, b.name] for a, b in sch.dependencies]]


def fa_reference(req):
    """expected graph by the documented rule: the first entry whose key (absolute path, or a pattern matched against the
    end of the path) matches the file case-insensitively supplies preprocess/defines"""
    import fnmatch
    fake = '/t/Proj_X'
    routines = {str(r[1]).lower(): r for r in field(req, 'routines')[1:]}
    keys = fa_keys(req, fake)
    deps = {}
    for n, r in routines.items():
        path = f'{fake}/{r[2]}'.lower()
        opts = None
        for k, ds in keys:
            pat = (k if k.startswith('/') else '*' + k).lower()
            if fnmatch.fnmatchcase(path, pat):
                opts = ds
                break
        act = []
        for c in r[3:]:
            k = head(c)
            if k == 'c' or opts is None or (k == 'd' and str(c[1]) in opts) or (k == 'n' and str(c[1]) not in opts):
                act.append(str(c[-1]).lower())
        deps[n] = list(dict.fromkeys(act))
    nodes, edges, todo = [], [], []
    for s in field(req, 'seeds')[1:]:
        s = str(s).lower()
        if s in routines and s not in nodes:
            nodes.append(s)
            todo.append(s)
    while todo:
        a = todo.pop(0)
        for b in deps[a]:
            if b != a:
                edges.append((a, b))
            if b not in nodes:
                nodes.append(b)
                todo.append(b)
    return {'#' + n for n in nodes}, {('#' + a, '#' + b) for a, b in edges}


def gen_fargs(rng):
    n = rng.randint(3, 6)
    stems = []
    while len(stems) < n:
        s = rng.choice(c21._SYL) + rng.choice(c21._SYL) + rng.choice(['', '1', '_k'])
        if s not in stems:
            stems.append(s)
    files = [recase_str(rng, s) + rng.choice(['.F90', '.F90', '.f90', '.F']) for s in stems]
    defs = ['DEF_A', 'DEF_B']
    routines = [A('routines')]
    for i, s in enumerate(stems):
        calls = []
        for t in rng.sample(stems[i + 1:], min(len(stems) - i - 1, rng.choice([1, 1, 2, 3]))):
            r = rng.random()
            tn = recase_str(rng, t)
            calls.append([A('c'), tn] if r < 0.4 else [A('d' if r < 0.7 else 'n'), rng.choice(defs), tn])
        routines.append([A('r'), recase_str(rng, s), files[i]] + calls)
    keys = [A('keys')]
    for _ in range(rng.choice([1, 1, 2, 3])):
        i = rng.randrange(n)
        f = files[i]
        q = rng.random()
        if q < 0.45:
            k = [A(rng.choice(['dir', 'dir', 'DIR'])), rng.choice([f, f, recase_str(rng, f), f.lower(), f.upper()])]
        elif q < 0.7:
            k = [A('rel'), rng.choice([f, recase_str(rng, f), 'Proj_X/' + f, 'PROJ_x/' + recase_str(rng, f)])]
        elif q < 0.8:
            k = [A('rel'), rng.choice(['.F90', '.f90', '.F'])]
        elif q < 0.9:
            k = [A(rng.choice(['dir', 'rel'])), recase_str(rng, stems[i][:3]) + '*']
        else:
            k = [A('dir'), 'no_such_file.F90']
        # no two keys equal up to case: they would be one dict key in the lower-cased comparison config
        low = ('' if str(k[0]) == 'rel' else '<dir>/') + k[1].lower()
        if any(low == ('' if str(e[1]) == 'rel' else '<dir>/') + e[2].lower() for e in keys[1:]):
            continue
        keys.append([A('k')] + k + rng.sample(defs, rng.choice([0, 1, 1, 2])))
    return [A('fargs'), [A('strict'), b2a(rng.random() < 0.5)], [A('fullparse'), b2a(rng.random() < 0.25)],
            [A('seeds'), recase_str(rng, stems[0])], routines, keys]


REAL = {'twin': real_twin, 'dup': real_dup_req, 'fargs': real_fargs}


def graph_sexp(r):
    if r[0] == 'error':
        return [A('error'), A(r[1])]
    return [A('ok'), [A('nodes')] + [[n, A(k)] for n, k in r[1]], [A('edges')] + [[a, b] for a, b in r[2]]]


def order_sexp(o):
    return [A('none')] if o is None else [A('order')] + list(o)


def norm_graph(r):
    if r[0] == 'error':
        return ('error', r[1])
    return ('ok', [(n.lower(), k) for n, k in r[1]], [(a.lower(), b.lower()) for a, b in r[2]])


# ------------------------------------------------------------------ the property

class C23(Prop):
    id = 'C23'
    title = 'Batch processing does not depend on the letter case of names'
    model_modules = ['LokiModel.C23.Model', 'LokiModel.Generated.C23Tables']
    props_module = 'LokiModel.Props.C23'
    findings_module = 'LokiModel.Findings.C23'
    driver = 'Drivers/C23.lean'
    theorems = ['C23_config_recase_invariant', 'C23_recase_invariant', 'C23_populate_recase_invariant',
                'C23_recase_invariant_norm', 'C23_order_recase_invariant', 'C23_folding_needed',
                'C23_eq_hash_partial', 'C23_eq_hash_fixed', 'C23_set_mem_partial', 'C23_set_no_case_duplicates',
                'C23_dup_keys', 'C23_dup_never_fails', 'C23_eq_hash_current', 'C23_tables',
                'C23_frontend_args_pattern', 'C23_frontend_args_recase']
    design_ref = 'DESIGN.md 4.D C23'
    level = 'proof'
    level_text = ('Theorems (Lean kernel; every project abstraction, configuration, seed list and every re-casing pi, i.e. any name map '
                  'that preserves the lower-cased name): C23_config_recase_invariant — re-casing config keys, disable/block/ignore '
                  'lists, per-routine overrides and seeds leaves the result of the modelled Scheduler construction (graph or '
                  'exception, full_parse on or off) EQUAL, for every abstraction; C23_recase_invariant / _populate_ / _norm — the '
                  'same with the sources re-cased too, under the explicit premise that stored item names passed the factory\'s '
                  'lower-casing points (foldAbs); C23_folding_needed — a witness that without that premise the graph changes even '
                  'up to case; C23_order_recase_invariant — processing order (nx.topological_sort restricted to procedure items). '
                  'Item identity: C23_eq_hash_partial / C23_set_mem_partial / C23_set_no_case_duplicates — == implies equal hash, '
                  'set lookup agrees with ==, no case-duplicates in a set, when stored names are lower-case (for an arbitrary hash '
                  'function); C23_eq_hash_fixed — hashing the lower-cased name is consistent unconditionally (fix candidate); the '
                  'failing witnesses (C23_eq_hash_full_false, C23_set_holds_both) are in the non-gating Findings module. '
                  'DuplicateKernel: C23_dup_keys (full since the fix: commit) — the cache keys produced through '
                  'get_or_create_item_from_item depend on the suffix options only through their lower-cased form, and '
                  'C23_dup_never_fails — cloning never ends in "Failed to clone item"; the old behaviour is kept as C23_old_dup_witness '
                  '(Findings) is the witness. Tie to the code: metamorphic correspondence — the real Scheduler on generated projects '
                  'and on their case-permuted twins (graph in graph order with kinds, processing order of a probe transformation, '
                  'full_parse on/off), DuplicateKernel in PLAN mode with mixed-case suffix options, and real ProcedureItem objects '
                  'under ==/hash/set/list, each compared with the Lean driver; the direct oracle is the twin comparison itself. '
                  'frontend_args: C23_frontend_args_pattern / C23_frontend_args_recase — which per-file frontend_args entry applies '
                  '(absolute-path and relative/pattern keys) depends on keys and path only through their lower-cased forms; tied to the '
                  'code by generated projects with #ifdef/#ifndef-guarded calls and keys in assorted case (real graph vs the model '
                  'built from create_frontend_args + preprocessing semantics; oracle: keys lower-cased give the same graph, and a '
                  'reference closure).')
    level_note = ('Model = the C21 scheduler model (hand-written, see notes/C21.md for what it omits) plus topological order, item '
                  'identity over an arbitrary hash, and DuplicateKernel naming/cloning on an abstract cache. Source-level re-casing '
                  'is represented on the abstraction (recaseAbs); that the real factory folds every stored name (foldAbs) is checked '
                  'by correspondence (the abstraction exported from the twin must make the model reproduce the twin\'s graph), not '
                  'proved. Generated code text, SeparateModesKernel, RemoveKernel and rekey_item_cache are not modelled; ignore lists '
                  'are not generated (is_ignored flags are order dependent); Python str hashes are modelled as collision free.')
    technique = 'Lean 4 theorems about a hand-written model + metamorphic correspondence with the real Scheduler on case-permuted twins'
    rule = ('C21 project generator (3-12 routines, modules, type-bound calls, interfaces, imports, mixed-case spellings, no file-name '
            'collisions) x configs without ignore lists x seeds x full_parse on/off, each paired with a twin whose every name occurrence, '
            'config string and seed is independently re-cased (upper, lower, capitalised, swapped, per-character random); '
            'DuplicateKernel cases: one kernel name (random case), suffix and module suffix from mixed-case pools; item cases: '
            'name pairs equal, equal up to case, or different; non-trivial = graph with more than one item / duplicate created / '
            'names equal up to case; distinct by request line; frontend_args cases: 3-6 free routines in files with mixed-case names '
            'and suffixes, guarded calls, 1-3 entries with absolute (directory as spelled or upper-cased), relative, sub-path, suffix and '
            'pattern keys in assorted case')
    trusted_base = ['harness/props/c21.py export_abs (abstraction function over the real ItemFactory)',
                    'harness/props/c23.py recase_tree (twin construction)', 'Lean driver evaluation of model definitions']
    assumptions = ['ASCII names', 'assumptions of C21 (see notes/C21.md)', 'Python str hash has no collisions on the generated names',
                   'duplicate names do not clash with existing items']
    extra_obligations = ['oracle: twin run equals original run up to case (graph, kinds, processing order)',
                         'oracle: DuplicateKernel with lower-cased suffix options yields the same item names',
                         'oracle: == of items implies equal hash and single set/dict entry',
                         'oracle: frontend_args keys in any letter case give the graph of the lower-cased keys and of the reference']

    def tables(self):
        """lower-casing points read from the sources with ast: every `item_name = …` of item_factory.py (is the value
        `.lower()`-ed?), the two names built in FileItem.create_definition_items, and whether Item.__hash__ folds"""
        import ast
        from ..core import REPO
        rows = []
        tree = ast.parse((REPO / 'loki/batch/item_factory.py').read_text())
        for fn in ast.walk(tree):
            if isinstance(fn, ast.FunctionDef):
                for st in ast.walk(fn):
                    if isinstance(st, ast.Assign) and len(st.targets) == 1 and getattr(st.targets[0], 'id', None) == 'item_name':
                        v = st.value
                        rows.append((fn.name, isinstance(v, ast.Call) and getattr(v.func, 'attr', None) == 'lower'))
        itree = ast.parse((REPO / 'loki/batch/item.py').read_text())
        hash_folds = False
        for cls in ast.walk(itree):
            if isinstance(cls, ast.ClassDef) and cls.name == 'FileItem':
                for fn in cls.body:
                    if isinstance(fn, ast.FunctionDef) and fn.name == 'create_definition_items':
                        for c in ast.walk(fn):
                            if isinstance(c, ast.Call) and getattr(c.func, 'attr', None) == 'get_or_create_item':
                                rows.append(('FileItem.create_definition_items', '.lower()' in ast.unparse(c.args[1])))
            if isinstance(cls, ast.ClassDef) and cls.name == 'Item':
                for fn in cls.body:
                    if isinstance(fn, ast.FunctionDef) and fn.name == '__hash__':
                        hash_folds = '.lower()' in ast.unparse(fn)
        rows.sort()

        def lb(b):
            return 'true' if b else 'false'
        body = ',\n  '.join(f'("{a}", {lb(b)})' for a, b in rows)
        text = ('/-! generated from /repo by harness/props/c23.py (tables) — do not edit -/\n'
                'namespace LokiModel.C23.Generated\n\n'
                '/-- (function, is the constructed item name lower-cased?) for every place the item factory builds an item name -/\n'
                f'def itemNameFolded : List (String × Bool) := [\n  {body}]\n\n'
                '/-- does `Item.__hash__` hash the lower-cased name? -/\n'
                f'def hashFoldsName : Bool := {lb(hash_folds)}\n\n'
                'end LokiModel.C23.Generated\n')
        return {'LokiModel/Generated/C23Tables.lean': text}

    # ---- generation
    def gen(self, rng, tier):
        nproj = {'quick': 14, 'thorough': 150, 'search': 50}.get(tier, 14)
        for p in range(nproj):
            proj, names, place, modnames = c21.gen_project(rng, rng.randint(3, 12), collide=False)
            absx = export_abs(project_dir(proj))
            ref_items, _, _ = truth(proj)
            for c in range(3 if tier == 'quick' else 4):
                pi = rng.randrange(1 << 30)
                proj2 = twin_project(proj, pi)
                abs2 = export_abs(project_dir(proj2))
                cfg = strip_ignore(c21.gen_config(rng, names, place, modnames, proj))
                seeds = c21.gen_seeds(rng, names, place)
                crng = random.Random(pi + 1)
                cfg2 = recase_tree(crng, cfg)
                seeds2 = [recase_str(crng, s) for s in seeds]
                fp = (c % 2 == 1)
                req = [A('twin'), [A('proj')] + proj[1:], [A('pi'), pi], cfg, [A('seeds')] + seeds, [A('fullparse'), b2a(fp)],
                       [A('config2')] + cfg2[1:], [A('seeds2')] + seeds2, absx, [A('abs2')] + abs2[1:]]
                yield Case(req, stream='twin-' + ('fullparse' if fp else 'regex'), nontrivial=len(ref_items) > 1)
            for _ in range(2):
                k = rng.choice(names)
                suffix = rng.choice(['_dup', '_Dup', '_DUP', 'x', '_Loki', '_c23'])
                msuffix = rng.choice(['', '', '_m', '_M', '_Mod'])
                seeds = [names[0]] + ([rng.choice(names)] if rng.random() < 0.5 else [])
                req = [A('dup'), [A('proj')] + proj[1:], [A('seeds')] + seeds, [A('kernel'), c21.spell(rng, k)],
                       [A('suffix'), suffix], [A('msuffix'), msuffix], absx]
                yield Case(req, stream='dup')
        nfa = {'quick': 24, 'thorough': 400, 'search': 120}.get(tier, 24)
        for _ in range(nfa):
            yield Case(gen_fargs(rng), stream='fargs')
        nitem = {'quick': 300, 'thorough': 3000, 'search': 1000}.get(tier, 300)
        for _ in range(nitem):
            a = c21.gen_match(rng)[1]
            r = rng.random()
            b = a if r < 0.2 else recase_str(rng, a) if r < 0.7 else c21.gen_match(rng)[1]
            yield Case([A('item'), a, b], stream='item', nontrivial=a.lower() == b.lower())

    def shrink_candidates(self, req):
        return iter(())     # a twin request is only meaningful as a whole

    # ---- real code
    def impl(self, req):
        op = head(req)
        if op == 'item':
            a, b = ProcedureItem(str(req[1]), source=None), ProcedureItem(str(req[2]), source=None)
            return [A('ok'), a == b, hash(a) == hash(b), len({a, b}), a in {b}, a in [b]]
        if op == 'fargs':
            r = real_fargs(req)
            if unmodelled(r):
                r = isolated('fargs', req) or r
            return graph_sexp(r)
        if op == 'dup':
            proj = field(req, 'proj')
            if dumps(export_abs(project_dir(proj))) != dumps(field(req, 'abs')):
                return [A('error'), A('stale-abstraction')]
            r = dup_result(req)
            if r[0] == 'error':
                return [A('error'), A(r[1])]
            return [A('ok')] + sorted(r[1])
        if op == 'twin':
            proj = field(req, 'proj')
            proj2 = twin_project(proj, str(field(req, 'pi')[1]))
            if dumps(export_abs(project_dir(proj))) != dumps(field(req, 'abs')) or \
                    dumps(export_abs(project_dir(proj2))[1:]) != dumps(field(req, 'abs2')[1:]):
                return [A('error'), A('stale-abstraction')]
            r1, o1, r2, o2 = twin_result(req)
            return [A('ok'), graph_sexp(r1), order_sexp(o1), graph_sexp(r2), order_sexp(o2)]
        raise ValueError(op)

    def canon_model(self, resp):
        # the order in which DuplicateKernel's new items are reported is not part of the property
        if isinstance(resp, list) and len(resp) > 1 and str(resp[0]) == 'ok' and all(isinstance(x, str) and not isinstance(x, A)
                                                                                      for x in resp[1:]):
            return [resp[0]] + sorted(resp[1:])
        return resp

    # ---- direct oracle
    def oracle(self, req):
        op = head(req)
        if op == 'item':
            a, b = ProcedureItem(str(req[1]), source=None), ProcedureItem(str(req[2]), source=None)
            cls = 'item-hash-case' if str(req[1]).lower() == str(req[2]).lower() and str(req[1]) != str(req[2]) else None
            out = []
            if a == b and hash(a) != hash(b):
                out.append(Failure(f'{a!r} == {b!r} but their hashes differ; len({{a, b}}) = {len({a, b})}, '
                                   f'a in {{b}} = {a in {b}}, {{a: 1}}.get(b) = { {a: 1}.get(b)}', cls))
            elif (a == b) != (a in {b}) or (a == b) != (len({a, b}) == 1):
                out.append(Failure(f'set/dict identity of {a!r} and {b!r} disagrees with ==', cls))
            if (a == b) != (str(req[1]).lower() == str(req[2]).lower()):
                out.append(Failure(f'{a!r} == {b!r} is {a == b}'))
            return out
        if op == 'fargs':
            r = real_fargs(req)
            rl = real_fargs(req, lowered=True)
            if unmodelled(r) or unmodelled(rl) or norm_graph(r) != norm_graph(rl):
                r = isolated('fargs', req) or r
                rl = real_fargs(req, lowered=True)
            keys = [k for k, _ in fa_keys(req, '<dir>')]
            if norm_graph(r) != norm_graph(rl):
                return [Failure(f'frontend_args keys {keys}: the graph differs from the one with the keys lower-cased: '
                                f'{str(norm_graph(r))[:300]} vs {str(norm_graph(rl))[:300]}')]
            nodes, edges = fa_reference(req)
            if r[0] != 'ok':
                return [Failure(f'frontend_args keys {keys}: scheduler raised {r[1]}')]
            got_n, got_e = {n.lower() for n, _ in r[1]}, {(a.lower(), b.lower()) for a, b in r[2]}
            if got_n != nodes or got_e != edges:
                return [Failure(f'frontend_args keys {keys}: items/dependencies differ from the reference: missing '
                                f'{sorted(nodes - got_n)} {sorted(edges - got_e)} extra {sorted(got_n - nodes)} {sorted(got_e - edges)}')]
            return []
        if op == 'dup':
            r = dup_result(req)
            low = [A('dup')] + [([e[0], str(e[1]).lower()] if head(e) in ('suffix', 'msuffix', 'kernel') else e) for e in req[1:]]
            rl = dup_result(low)
            n1 = ('error', r[1]) if r[0] == 'error' else ('ok', sorted(x.lower() for x in r[1]))
            n2 = ('error', rl[1]) if rl[0] == 'error' else ('ok', sorted(x.lower() for x in rl[1]))
            if n1 != n2:
                return [Failure(f'DuplicateKernel({field(req, "kernel")[1]!r}, suffix={field(req, "suffix")[1]!r}, '
                                f'module_suffix={field(req, "msuffix")[1]!r}) gives {n1}; with lower-cased kernel name and suffixes {n2}',
                                self.dup_class(req))]
            return []
        if op == 'twin':
            r1, o1, r2, o2 = twin_result(req)
            if norm_graph(r1) != norm_graph(r2):
                return [Failure(f'graph of the case-permuted twin differs: {str(norm_graph(r1))[:300]} vs {str(norm_graph(r2))[:300]}')]
            if (None if o1 is None else [x.lower() for x in o1]) != (None if o2 is None else [x.lower() for x in o2]):
                return [Failure(f'processing order of the case-permuted twin differs: {o1} vs {o2}')]
            if r1[0] == 'ok':
                bad = [n for n, _ in r1[1] + r2[1] if n != n.lower()]
                if bad:
                    return [Failure(f'item names that are not lower-case in the graph: {bad}')]
            return []
        raise ValueError(op)

    def dup_class(self, req):
        """no known class left: duplicate-suffix-case was repaired (definition_items is a CaseInsensitiveDict)"""
        return None

    def classes(self):
        return ['item-hash-case']


PROP = C23()
READY = True
