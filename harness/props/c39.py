"""C39 — ParametriseTransformation: dummy arguments replaced by fixed constants across a call tree; behaviour is preserved
for matching inputs and the entry-point guard fires for every other input."""
import shutil
import tempfile
from pathlib import Path

from ..core import Prop, Case, Failure, REPO, WORK
from ..sexpr import A, dumps, loads
from .. import fir

PFX = 'parametrised_'

K_CASE = 'param-key-case'
K_INTENT = 'param-no-intent'
K_EMPTY = 'param-all-decls-removed'
K_CALLS = 'param-inconsistent-calls'
K_PRINT = 'param-rbv-print'
K_NONLIT = 'param-rbv-nonliteral-parameter'
CLASS_ORDER = [K_CASE, K_INTENT, K_EMPTY, K_CALLS, K_NONLIT, K_PRINT]


def h(x):
    return str(x[0]) if isinstance(x, list) and x and not isinstance(x[0], list) else None


def units(prog):
    return prog[2:]


def unit_of(prog, name):
    for u in units(prog):
        if str(u[1]) == name:
            return u
    return None


def is_comment(s):
    return h(s) == 'nop' and str(s[1]) == 'comment'


def _norm_m1(e):
    """documented normalisation of the correspondence (expressions, both sides; same as C31): the exporter reads a product whose
    first factor is the literal -1 as a negation (Loki's `Product((-1, x))` convention) and such a product as a non-first term of
    a sum as a subtraction; substituting the value -1 for a variable (replace_by_value) produces exactly these shapes.
    R1 (-1)*x -> -x, R2 (-x)*y -> -(x*y), R3 a + (-x) -> a - x (exact identities of the FIR value semantics)."""
    if h(e) == 'bin' and str(e[1]) == 'mul' and h(e[2]) == 'neg':
        if dumps(e[2][1]) == '(i 1)':
            return [A('neg'), e[3]]
        return [A('neg'), [A('bin'), A('mul'), e[2][1], e[3]]]
    if h(e) == 'bin' and str(e[1]) == 'add' and h(e[3]) == 'neg':
        return [A('bin'), A('sub'), e[2], e[3][1]]
    return e


def norm_prog(prog):
    """normalisation of the correspondence: comment nops dropped (the transformation inserts marker comments; Loki turns
    blank lines into comments); products with the literal -1 as in `_norm_m1`"""
    return fir.canon(fir.map_program(fir.canon(prog), fe=_norm_m1, fs=lambda ss: [s for s in ss if not is_comment(s)]))


def sub_lists(s):
    k = h(s)
    if k == 'do':
        return [s[5]]
    if k == 'while':
        return [s[2]]
    if k == 'if':
        return [s[2], s[3]]
    if k == 'select':
        return [c[1] for c in s[2]] + [s[3]]
    if k == 'assoc':
        return [s[2]]
    return []


def calls_of(stmts):
    """call statements in FindNodes order (pre-order, depth first)"""
    for s in stmts:
        if h(s) == 'callsub':
            yield s
        for l in sub_lists(s):
            yield from calls_of(l)


def ex_mentions(e, x):
    if not isinstance(e, list):
        return False
    if h(e) == 'v':
        return str(e[1]) == x
    if h(e) in ('idx', 'sec'):
        return str(e[1]) == x or any(ex_mentions(c, x) for c in e[2:])
    return any(ex_mentions(c, x) for c in e[1:])


def print_mentions(stmts, names):
    for s in stmts:
        if h(s) == 'print' and any(ex_mentions(a, x) for a in s[1:] for x in names):
            return True
        if any(print_mentions(l, names) for l in sub_lists(s)):
            return True
    return False


def is_var(e, x):
    return h(e) == 'v' and str(e[1]) == x


# ---------------------------------------------------------------- configuration

class Cfg:
    def __init__(self, dic, rbv, entry, abort, order, roots=None):
        self.roots = roots      # None (= the main unit) or [names of the units with role 'driver' = seed routines of the Scheduler]
        self.dic = dic          # [(key string, int)] in insertion order (keys unique)
        self.rbv = rbv
        self.entry = entry      # None or [unit names]
        self.abort = abort      # 'default' | 'errorstop'
        self.order = order      # processing order of the units (checked against the real Scheduler)

    def wire(self):
        return [[A('dic')] + [[k, v] for k, v in self.dic], [A('rbv'), A('true' if self.rbv else 'false')],
                [A('entry')] + ([A('none')] if self.entry is None else [A('some')] + [A(e) for e in self.entry]),
                [A('abort'), A(self.abort)], [A('order')] + [A(o) for o in self.order]] + \
            ([] if self.roots is None else [[A('roots')] + [A(r) for r in self.roots]])


def decode_cfg(c):
    if not isinstance(c, list) or len(c) not in (5, 6) or [h(x) for x in c] != ['dic', 'rbv', 'entry', 'abort', 'order', 'roots'][:len(c)]:
        raise ValueError('malformed cfg')
    roots = None
    if len(c) == 6:
        roots = [str(x) for x in c[5][1:]]
        if not roots or any(isinstance(x, list) for x in c[5][1:]) or len(set(roots)) != len(roots):
            raise ValueError('malformed roots')
    dic = []
    for kv in c[0][1:]:
        if not isinstance(kv, list) or len(kv) != 2 or isinstance(kv[0], list):
            raise ValueError('malformed dic entry')
        dic.append((str(kv[0]), int(str(kv[1]))))
    if len({k for k, _ in dic}) != len(dic) or not dic:
        raise ValueError('dic keys must be unique and the dictionary non-empty')
    if len(c[1]) != 2 or str(c[1][1]) not in ('true', 'false'):
        raise ValueError('malformed rbv')
    if len(c[2]) < 2 or str(c[2][1]) not in ('none', 'some'):
        raise ValueError('malformed entry')
    entry = None if str(c[2][1]) == 'none' else [str(x) for x in c[2][2:]]
    if entry is not None and not entry:
        raise ValueError('empty entry list')
    if len(c[3]) != 2 or str(c[3][1]) not in ('default', 'errorstop'):
        raise ValueError('malformed abort')
    return Cfg(dic, str(c[1][1]) == 'true', entry, str(c[3][1]), [str(x) for x in c[4][1:]], roots)


def decode(req):
    if not isinstance(req, list) or len(req) != 5 or str(req[0]) != 'param':
        raise ValueError('malformed request')
    prog, cfg, inputs, flag = req[1], decode_cfg(req[2]), req[3], str(req[4])
    if h(prog) != 'program' or len(prog) < 3 or flag not in ('gf', 'nogf') or not isinstance(inputs, list):
        raise ValueError('malformed request')
    for u in units(prog):
        if h(u) != 'unit' or len(u) != 5 or not all(isinstance(x, list) for x in u[2:]):
            raise ValueError('malformed unit')
        for d in u[3]:
            if h(d) != 'decl' or len(d) != 6:
                raise ValueError('malformed decl')
        if not {str(a) for a in u[2]} <= {str(d[1]) for d in u[3]}:
            raise ValueError('undeclared dummy')
    names = [str(u[1]) for u in units(prog)]
    if str(prog[1]) not in names or not set(cfg.order) <= set(names) or len(set(cfg.order)) != len(cfg.order):
        raise ValueError('main unit / order do not fit the units')
    for inp in inputs:
        if not isinstance(inp, list) or not all(isinstance(r, list) and r for r in inp):
            raise ValueError('malformed inputs')
    return prog, cfg, inputs, flag


# ---------------------------------------------------------------- mirror of the Lean propagation (LokiModel/C39/Model.lean)

def roots_of(cfg, prog):
    return [str(prog[1])] if cfg.roots is None else list(cfg.roots)


def is_entry(cfg, prog, name):
    return name in roots_of(cfg, prog) if cfg.entry is None else name in cfg.entry


def lookup_ci(dic, name):
    """first dic entry whose key equals `name` up to letter case (Lean: lookupCI)"""
    for k, v in dic:
        if k.lower() == name:
            return k, v
    return None


def propagate(cfg, prog):
    """[(unit name, entry?, dic)] in processing order: the dictionary each unit is processed with (Lean: propagate).
    Stops at the first unit whose processing raises (the last element then has dic None and the error kind in place of entry)."""
    trafo = {}
    out = []
    for name in cfg.order:
        u = unit_of(prog, name)
        entry = is_entry(cfg, prog, name)
        dic = list(cfg.dic) if entry else list(trafo.get(name, []))
        err = unit_error(cfg, prog, u, entry, dic)
        if err:
            out.append((name, err, None))
            return out
        out.append((name, entry, dic))
        if not dic:
            continue
        for c in calls_of(u[4]):
            g = unit_of(prog, str(c[1]))
            if g is None:
                continue
            args = c[2:]
            new = []
            gargs = [str(a) for a in g[2]]
            for k, v in dic:
                idx = [j for j, a in enumerate(args) if is_var(a, k.lower())]
                if not idx:
                    continue
                js = [j for j in idx if j < len(gargs)]
                if not js:
                    continue            # (the real code would raise KeyError; not reachable when call and callee fit)
                dummy = gargs[js[-1]]
                new = [(d, v if d == dummy else w) for d, w in new] if any(d == dummy for d, _ in new) else new + [(dummy, v)]
            trafo[str(c[1])] = new
    return out


def unit_error(cfg, prog, u, entry, dic):
    """the exception kind processing unit u with dictionary dic raises, or None (Lean: unitError)"""
    if not dic:
        return None
    declared = [str(d[1]) for d in u[3]]
    if entry:
        for a in u[2]:
            a = str(a)
            if any(k == a for k, _ in dic):
                d = [x for x in u[3] if str(x[1]) == a]
                if d and str(d[0][3]) == 'none':
                    return 'assertion'
    # a key that matches a name of the unit only up to case: dic2p[<name>] raises KeyError (call arguments, then declarations)
    for k, _ in dic:
        if k != k.lower() and not any(k2 == k.lower() for k2, _ in dic):
            if k.lower() in declared:
                return 'keyerror'
    keys = {k.lower() for k, _ in dic}
    rest = [x for x in declared if x not in keys]
    if not entry and any(x in keys for x in declared) and not rest:
        return 'indexerror'
    if entry and any(x in keys for x in declared) and not rest and not any(str(a) in [k for k, _ in dic] for a in u[2]):
        return 'indexerror'
    return None


def ideal_map(dic, g, args):
    out = []
    for d, a in zip([str(x) for x in g[2]], args):
        if h(a) == 'v':
            kv = lookup_ci(dic, str(a[1]))
            if kv is not None:
                out.append((d, kv[1]))
    return out


def classes_of(cfg, prog):
    """known-finding classes of a request, in CLASS_ORDER (Lean: classesOf)"""
    out = set()
    pr = propagate(cfg, prog)
    final = {}
    for name, entry, dic in pr:
        if dic is None:
            out.add({'keyerror': K_CASE, 'assertion': K_INTENT, 'indexerror': K_EMPTY}[entry])
        else:
            final[name] = (entry, dic)
    # coherence of the call sites: every call statement of a processed unit induces the dictionary its callee was processed with
    for name, (entry, dic) in final.items():
        u = unit_of(prog, name)
        for c in calls_of(u[4]):
            g = unit_of(prog, str(c[1]))
            if g is None:
                continue
            gname = str(c[1])
            if gname not in final:
                continue
            gentry, gdic = final[gname]
            ideal = ideal_map(dic, g, c[2:])
            if gentry:
                if ideal:
                    out.add(K_CALLS)        # an entry point keeps its dummies, the call loses the actual
                continue
            if set(ideal) != set(gdic):
                out.add(K_CALLS)
    if cfg.rbv:
        for name, (entry, dic) in final.items():
            if not dic:
                continue
            u = unit_of(prog, name)
            keys = {k.lower() for k, _ in dic}
            params = [str(d[1]) for d in u[3] if str(d[5]) != 'none' or str(d[1]) in keys]
            if any(str(d[5]) != 'none' and h(d[5]) not in ('i', 'r', 'b') for d in u[3]):
                out.add(K_NONLIT)
            if print_mentions(u[4], params):
                out.add(K_PRINT)
    return [c for c in CLASS_ORDER if c in out]


def writes_param(cfg, prog):
    """precondition of the transformation (not a finding): a parametrised variable is written somewhere — assignment target, DO
    variable, ASSOCIATE name or selector, or actual argument of a dummy that is not intent(in)"""
    def writes(stmts, x):
        for s in stmts:
            k = h(s)
            if k == 'assign' and h(s[1]) in ('v', 'idx', 'sec') and str(s[1][1]) == x:
                return True
            if k == 'do' and str(s[1]) == x:
                return True
            if k == 'assoc' and any(str(b[0]) == x or ex_mentions(b[1], x) for b in s[1]):
                return True
            if k == 'callsub':
                g = unit_of(prog, str(s[1]))
                if g is not None:
                    for d, a in zip([str(y) for y in g[2]], s[2:]):
                        dd = [z for z in g[3] if str(z[1]) == d]
                        if h(a) in ('v', 'idx', 'sec') and str(a[1]) == x and dd and str(dd[0][3]) != 'in':
                            return True
            if any(writes(l, x) for l in sub_lists(s)):
                return True
        return False
    for name, entry, dic in propagate(cfg, prog):
        if dic:
            u = unit_of(prog, name)
            if any(writes(u[4], k.lower()) for k, _ in dic):
                return True
    return False


def unprocessed_caller(cfg, prog):
    """documented precondition ("all parts of the code calling subroutines that are transformed ... must be included"): a unit
    that the Scheduler does not process (not reachable from the driver) calls a unit of the processed tree"""
    done = set(cfg.order)
    for u in units(prog):
        if str(u[1]) not in done and any(str(c[1]) in done for c in calls_of(u[4])):
            return True
    return False


# ---------------------------------------------------------------- the real transformation

class TransformError(Exception):
    def __init__(self, kind, msg=''):
        super().__init__(f'{kind}: {msg}')
        self.kind = kind


def _scheduler(prog, d, roots=None):
    from loki import Scheduler, SchedulerConfig
    from loki.frontend import FP
    roots = list(roots or [str(prog[1])])
    src = fir.emit_fortran(prog, wrap_program=False)
    (d / 'prog.F90').write_text(src)
    config = SchedulerConfig.from_dict({
        'default': {'mode': 'idem', 'role': 'kernel', 'expand': True, 'strict': True},
        'routines': {r: {'role': 'driver', 'expand': True} for r in roots}})
    return Scheduler(paths=[d], config=config, seed_routines=roots, frontend=FP)


def scheduler_order(prog, roots=None):
    """processing order of the units of `prog` under the real Scheduler (used by the generator; checked again by impl)"""
    from loki.batch import SFilter
    WORK.mkdir(exist_ok=True)
    d = Path(tempfile.mkdtemp(prefix='c39_', dir=WORK))
    try:
        sch = _scheduler(prog, d, roots)
        order = [it.local_name.lower() for it in SFilter(sch.sgraph)]
    finally:
        shutil.rmtree(d, ignore_errors=True)
    return order       # units the driver never reaches are not items of the Scheduler: they are not processed


def _error_stop(**kwargs):
    from loki.ir import nodes as ir
    msg = kwargs.get('msg')
    return (ir.GenericStmt(text=f'error stop "{msg}"'),)


def _encode_guards(routine):
    """FIR has neither character data nor STOP.  Representation (documented in notes/C39.md): the default abort
    `PRINT *, "<msg>: ", v ; STOP 1` becomes `print v ; exit` and the docstring's callback `error stop "<msg>"` becomes `exit`:
    at the top level of the main unit `exit` ends the run with signal `exit` and the state reached (Sem.lean: execStmts returns
    the first non-normal result), inside a called unit it is the error "exit/cycle outside loop" — both mean: aborted."""
    from loki.ir import nodes as ir, FindNodes, Transformer
    from loki.expression import symbols as sym
    mapper = {}
    for n in FindNodes(ir.GenericStmt).visit(routine.body):
        if type(n) is not ir.GenericStmt:
            continue
        t = str(n.text)
        if t.startswith('PRINT *, "Variable ') and t.rsplit(',', 1)[-1].strip().startswith(PFX):
            v = routine.variable_map[t.rsplit(',', 1)[-1].strip()]
            mapper[n] = ir.PrintStmt(values=('*', v))
        elif t == 'STOP 1' or t.startswith('error stop "Variable '):
            mapper[n] = ir.ExitStmt(None)
    if mapper:
        routine.body = Transformer(mapper).visit(routine.body)


def _export(sf, main):
    return fir.export_unit(sf, main=main)


_cache = {}
_reuse = {}     # request key -> None (not tried) / True / False: second use of the transformation object gave the same program


def real_apply(prog, cfg):
    key = (dumps(prog), dumps(cfg.wire()))
    if key not in _cache:
        if len(_cache) > 400:
            _cache.clear()
            _reuse.clear()
        try:
            _cache[key] = ('ok', _real_apply(prog, cfg))
        except (TransformError, fir.Unsupported) as e:
            _cache[key] = ('exc', e)
    tag, val = _cache[key]
    if tag == 'exc':
        raise val
    return val


def _real_apply(prog, cfg):
    """returns (transformed program in wire form with encoded guards, (fgen text of the units before, after), real processing order)"""
    from loki import fgen
    from loki.batch import SFilter
    from loki.transformations.parametrise import ParametriseTransformation
    WORK.mkdir(exist_ok=True)
    d = Path(tempfile.mkdtemp(prefix='c39_', dir=WORK))
    try:
        sch = _scheduler(prog, d, cfg.roots)
        items = list(SFilter(sch.sgraph))
        order = [it.local_name.lower() for it in items]
        sf = items[0].source
        main = str(prog[1])
        try:
            back = _export(sf, main)
        except fir.Unsupported as e:
            raise ValueError(f'request program is outside FIR after parsing: {e.kind}') from e
        if dumps(back) != dumps(fir.normalize(prog)):
            raise ValueError('request program does not round-trip through the printer and the frontend')
        text0 = '\n'.join(fgen(r) for r in sf.all_subroutines)
        t = ParametriseTransformation(dic2p=dict(cfg.dic), replace_by_value=cfg.rbv,
                                      entry_points=None if cfg.entry is None else tuple(cfg.entry),
                                      abort_callback=None if cfg.abort == 'default' else _error_stop)
        try:
            sch.process(transformation=t)
        except Exception as e:     # pylint: disable=broad-except
            c = e.__cause__ if e.__cause__ is not None else e
            kind = {'KeyError': 'keyerror', 'AssertionError': 'assertion', 'IndexError': 'indexerror'}.get(type(c).__name__)
            raise TransformError(kind or type(c).__name__, str(c)[:120]) from e
        try:
            text = '\n'.join(fgen(r) for r in sf.all_subroutines)
            for r in sf.all_subroutines:
                _encode_guards(r)
            tp = _export(sf, main)
        except fir.Unsupported:
            raise
        except AttributeError as e:
            raise TransformError('corrupt-declaration', str(e)[:120]) from e
        except Exception as e:      # pylint: disable=broad-except
            raise TransformError(type(e).__name__, str(e)[:120]) from e
        reuse = None
        if len(dumps(prog)) % 3 == 0:
            # the SAME transformation object applied to a fresh Scheduler over the same sources must give the same result
            # (a transformation object is routinely reused for several call trees)
            d2 = Path(tempfile.mkdtemp(prefix='c39_', dir=WORK))
            try:
                sch2 = _scheduler(prog, d2, cfg.roots)
                sf2 = list(SFilter(sch2.sgraph))[0].source
                sch2.process(transformation=t)
                for r in sf2.all_subroutines:
                    _encode_guards(r)
                reuse = dumps(_export(sf2, main)) == dumps(tp)
            except Exception:      # pylint: disable=broad-except
                reuse = False
            finally:
                shutil.rmtree(d2, ignore_errors=True)
        _reuse[(dumps(prog), dumps(cfg.wire()))] = reuse
        return tp, (text0, text), order
    finally:
        shutil.rmtree(d, ignore_errors=True)


# ---------------------------------------------------------------- oracle helpers (independent of the Lean model)

def V(x):
    return [A('v'), A(x)]


def guard_stmts(x, value, do_print):
    body = ([[A('print'), V(x)]] if do_print else []) + [[A('exit')]]
    return [[A('if'), [A('bin'), A('ne'), V(x), fir.ilit(value)], body, []]]


def guarded(prog, cfg):
    """the ORIGINAL program with the documented sanity check written in front of every entry point: the reference behaviour
    (`x /= value` -> report and stop; otherwise the original)"""
    us = []
    for u in units(prog):
        name = str(u[1])
        body = list(u[4])
        if is_entry(cfg, prog, name):
            pre = []
            for k, v in cfg.dic:
                if k in [str(a) for a in u[2]]:
                    pre += guard_stmts(k, v, cfg.abort == 'default')
            body = pre + body
        us.append([u[0], u[1], u[2], u[3], body])
    return fir.canon([prog[0], prog[1]] + us)


def subst_ex(e, env):
    if h(e) == 'v' and str(e[1]) in env:
        return env[str(e[1])]
    return e


def inline_params_in_dummy_dims(prog):
    """work-around for a limitation of the shared FIR semantics (Sem.lean `callSub`/`runMain`, mirrored by fir.interp): array
    dummies are allocated BEFORE the unit's PARAMETERs get their cells, so `integer, parameter :: n = 3` used in the bounds of
    a dummy array is an error there although it is valid Fortran.  For execution only, PARAMETERs with literal values are
    written into the bounds of dummy arrays (meaning preserving)."""
    us = []
    for u in units(prog):
        args = {str(a) for a in u[2]}
        env = {}
        decls = []
        for d in u[3]:
            if str(d[5]) != 'none' and h(d[5]) in ('i', 'neg') and not d[4]:
                env[str(d[1])] = d[5]
        for d in u[3]:
            if str(d[1]) in args and d[4]:
                dims = [[fir._map_ex(lambda e: subst_ex(e, env), b[0]), fir._map_ex(lambda e: subst_ex(e, env), b[1])] for b in d[4]]
                decls.append([d[0], d[1], d[2], d[3], dims, d[5]])
            else:
                decls.append(d)
        us.append([u[0], u[1], u[2], decls, u[4]])
    return fir.canon([prog[0], prog[1]] + us)


def structured_stops(prog):
    """for gfortran (the harness printer has no STOP): a guard `if (c) then …; exit; end if; rest` at the top level of the main
    unit is written `if (c) then … else rest end if` (same behaviour: the driver then reports the dummies as they are)"""
    def st(stmts):
        for j, s in enumerate(stmts):
            if h(s) == 'if' and s[2] and h(s[2][-1]) == 'exit' and not s[3]:
                return stmts[:j] + [[s[0], s[1], s[2][:-1], st(stmts[j + 1:])]]
        return stmts
    us = []
    for u in units(prog):
        us.append([u[0], u[1], u[2], u[3], st(list(u[4])) if str(u[1]) == str(prog[1]) else u[4]])
    return fir.canon([prog[0], prog[1]] + us)


def has_exit_outside_loop(prog, only_callees=False):
    def chk(stmts):
        for s in stmts:
            if h(s) in ('exit', 'cycle'):
                return True
            if h(s) in ('if', 'select', 'assoc') and any(chk(l) for l in sub_lists(s)):
                return True
        return False
    return any(chk(u[4]) for u in units(prog) if not (only_callees and str(u[1]) == str(prog[1])))


def expect_abort(prog, cfg, inp):
    """the main unit is an entry point and the input differs from the dictionary in one of its dummies"""
    main = str(prog[1])
    if not is_entry(cfg, prog, main):
        return False
    given = {str(r[0]): r[1:] for r in inp}
    for k, v in cfg.dic:
        if k in [str(a) for a in unit_of(prog, main)[2]] and k in given and len(given[k]) == 1 and h(given[k][0]) == 'i':
            if int(str(given[k][0][1])) != v:
                return True
    return False


def with_main(prog, name):
    return [prog[0], A(name)] + list(prog[2:])


def same_signature(prog, a, b):
    ua, ub = unit_of(prog, a), unit_of(prog, b)
    if ua is None or ub is None or dumps(ua[2]) != dumps(ub[2]):
        return False
    da = {str(d[1]): dumps(d) for d in ua[3]}
    db = {str(d[1]): dumps(d) for d in ub[3]}
    return all(da.get(str(x)) == db.get(str(x)) for x in ua[2])


def rename_inputs(inp, tp, prog):
    """inputs of the transformed main unit: the dummy `x` of the original is `parametrised_x` now"""
    targs = [str(a) for a in unit_of(tp, str(tp[1]))[2]]
    out = []
    for row in inp:
        x = str(row[0])
        out.append([A(PFX + x)] + list(row[1:]) if x not in targs and PFX + x in targs else row)
    return out


def rename_result(res):
    if res[0] != 'ok':
        return res
    return ('ok', {(k[len(PFX):] if k.startswith(PFX) else k): v for k, v in res[1].items()}, res[2])


# ---------------------------------------------------------------- generator of call trees

SIZE_POOL = ('n', 'nn', 'ns')
SIZE2_POOL = ('m', 'mm')
FLAG_POOL = ('k1', 'kf', 'kg')


class Spec:
    pass


def _lit(n):
    return fir.ilit(n)


def _bin(op, a, b):
    return [A('bin'), A(op), a, b]


def _call(f, *a):
    return [A('call'), A(f)] + list(a)


def _mod(e, k):
    return _call('mod', e, _lit(k))


def _decl(name, ty='int', intent='none', dims=(), param=None):
    return [A('decl'), A(name), A(ty), A(intent), [list(b) for b in dims], fir.NONE if param is None else param]


def gen_spec(rng, name, is_main, force_flag=None):
    s = Spec()
    s.name = name
    if is_main:
        s.sizes = ['n'] + (['m'] if rng.random() < 0.6 else [])
        s.flags = ['k1'] + (['k2'] if rng.random() < 0.5 else [])
    else:
        s.sizes = [rng.choice(SIZE_POOL)] + ([rng.choice(SIZE2_POOL)] if rng.random() < 0.5 else [])
        s.flags = rng.sample(FLAG_POOL, rng.choice((0, 1, 1, 2)))
        if force_flag is not None and force_flag not in s.flags:
            s.flags = [force_flag] + s.flags[:1]
    s.has_a2 = rng.random() < 0.4
    s.has_t1 = rng.random() < 0.4
    s.has_c1 = rng.random() < 0.3
    s.c1 = rng.randint(2, 5)
    scal = s.sizes + s.flags
    order = scal + ['a1'] + (['a2'] if s.has_a2 else []) + ['r1']
    if rng.random() < 0.5:
        rng.shuffle(order)
    s.args = order
    return s


def spec_decls(rng, s, weird_intent):
    n0 = s.sizes[0]
    ds = []
    for a in s.args:
        if a in s.sizes or a in s.flags:
            ds.append(_decl(a, intent='none' if (weird_intent and rng.random() < 0.5) else 'in'))
        elif a == 'a1':
            ds.append(_decl('a1', intent='inout', dims=[(_lit(1), V(n0))]))
        elif a == 'a2':
            ds.append(_decl('a2', intent='inout', dims=[(_lit(0), _bin('sub', V(n0), _lit(1)))]))
        elif a == 'r1':
            ds.append(_decl('r1', intent='inout'))
    if s.has_c1:
        ds.append(_decl('c1', param=_lit(s.c1)))
    ds.append(_decl('i1'))
    if s.has_t1:
        ds.append(_decl('t1', dims=[(_lit(1), V(n0))]))
    return ds


def gen_expr(rng, s, depth, loopvar=None):
    leaves = [V(x) for x in s.sizes + s.flags] + [V('r1')] + ([V('c1')] if s.has_c1 else []) + ([V(loopvar)] if loopvar else [])
    if depth == 0 or rng.random() < 0.4:
        return rng.choice(leaves) if rng.random() < 0.75 else _lit(rng.randint(0, 5))
    return _bin(rng.choice(('add', 'sub', 'mul', 'add')), gen_expr(rng, s, depth - 1, loopvar), gen_expr(rng, s, depth - 1, loopvar))


def gen_cond(rng, s):
    x = rng.choice(s.flags + s.sizes)
    c = _bin(rng.choice(('eq', 'ne', 'gt', 'le')), V(x), _lit(rng.randint(0, 3)))
    if rng.random() < 0.25:
        y = rng.choice(s.sizes + s.flags)
        c = _bin(rng.choice(('and', 'or')), c, _bin('ge', V(y), V(rng.choice(s.sizes))))
    return c


def gen_simple(rng, s, loopvar=None):
    r = rng.random()
    n0 = s.sizes[0]
    if r < 0.35:
        return [A('assign'), V('r1'), _mod(_bin('add', _bin('mul', V('r1'), _lit(3)), gen_expr(rng, s, 2, loopvar)), 101)]
    if r < 0.6:
        sub = V(loopvar) if loopvar else _call('min', _call('max', gen_expr(rng, s, 1), _lit(1)), V(n0))
        return [A('assign'), [A('idx'), A('a1'), sub], _mod(_bin('add', [A('idx'), A('a1'), sub], gen_expr(rng, s, 2, loopvar)), 97)]
    if r < 0.7 and s.has_a2:
        sub = _bin('sub', V(loopvar), _lit(1)) if loopvar else _lit(0)
        return [A('assign'), [A('idx'), A('a2'), sub], _mod(gen_expr(rng, s, 2, loopvar), 97)]
    if r < 0.8 and s.has_t1 and loopvar:
        return [A('assign'), [A('idx'), A('t1'), V(loopvar)], _mod(_bin('add', [A('idx'), A('t1'), V(loopvar)], gen_expr(rng, s, 1, loopvar)), 97)]
    if rng.random() < 0.65:
        return [A('print'), V('r1')] + ([[A('idx'), A('a1'), _lit(1)]] if rng.random() < 0.5 else [])
    return [A('print')] + [rng.choice([V(x) for x in s.sizes + s.flags] + [gen_expr(rng, s, 1, loopvar)]) for _ in range(rng.randint(1, 3))]


def gen_call(rng, s, g, memo, reuse_p=0.75):
    """a call to unit g from unit s"""
    if g.name in memo and rng.random() < reuse_p:
        return memo[g.name]
    n0 = s.sizes[0]
    act = {}
    act[g.sizes[0]] = V(n0)
    if len(g.sizes) > 1:
        act[g.sizes[1]] = rng.choice([V(x) for x in s.sizes] + [V(n0)] * (1 if rng.random() < 0.15 else 0) +
                                     [_lit(rng.randint(1, 4)), _bin('add', V(rng.choice(s.sizes)), _lit(1))])
    for f in g.flags:
        act[f] = rng.choice([V(x) for x in s.flags] * 3 + [V(rng.choice(s.sizes)), _lit(rng.randint(0, 3)),
                                                          _bin('add', V(rng.choice(s.flags + s.sizes)), _lit(1))])
    act['a1'] = V('t1') if (s.has_t1 and rng.random() < 0.3) else V('a1')
    if g.has_a2:
        act['a2'] = V('a2') if s.has_a2 else (V('a1') if str(act['a1'][1]) != 'a1' else (V('t1') if s.has_t1 else None))
    act['r1'] = V('r1')
    if any(v is None for v in act.values()):
        return None
    c = [A('callsub'), A(g.name)] + [act[a] for a in g.args]
    memo[g.name] = c
    return c


def gen_body(rng, s, later, nst, memo=None, reuse_p=0.75):
    n0 = s.sizes[0]
    body = []
    if s.has_t1:
        body.append([A('assign'), V('t1'), _lit(rng.randint(0, 4))])
    memo = {} if memo is None else memo
    for _ in range(nst):
        r = rng.random()
        if r < 0.25:
            lo, hi, st = rng.choice(((_lit(1), V(n0), fir.NONE), (V(n0), _lit(1), _lit(-1)), (_lit(1), V(n0), _lit(2)),
                                     (_lit(1), V(n0), fir.NONE)))
            body.append([A('do'), A('i1'), lo, hi, st, [gen_simple(rng, s, 'i1') for _ in range(rng.randint(1, 2))]])
        elif r < 0.4:
            body.append([A('if'), gen_cond(rng, s), [gen_simple(rng, s) for _ in range(rng.randint(1, 2))],
                         [gen_simple(rng, s)] if rng.random() < 0.5 else []])
        elif r < 0.48 and s.flags:
            body.append([A('select'), V(rng.choice(s.flags)), [[[0], [gen_simple(rng, s)]], [[1, 2], [gen_simple(rng, s)]]],
                         [gen_simple(rng, s)] if rng.random() < 0.6 else []])
        elif r < 0.75 and later:
            c = gen_call(rng, s, rng.choice(later), memo, reuse_p)
            if c is not None:
                if rng.random() < 0.2:
                    body.append([A('if'), gen_cond(rng, s), [c], []])
                else:
                    body.append(c)
        else:
            body.append(gen_simple(rng, s))
    return body


def gen_tree(rng, weird_intent=False, tiny=False, two_roots=False, multientry=False):
    ncal = rng.choice((0, 1, 1, 2, 2, 3)) if not tiny else rng.choice((1, 2))
    if two_roots or multientry:
        ncal = max(1, ncal)
    specs = [gen_spec(rng, 'kernel', True)] + \
        [gen_spec(rng, f'sub{j + 1}', False, force_flag='k1' if (multientry and j == 0) else None) for j in range(ncal)]
    nroots = 1
    if two_roots:
        # a second driver with the signature of the first one (the input sets of a request fit both); it shares call statements
        # with the first, so that the call sites of a callee agree
        import copy
        k2 = copy.copy(specs[0])
        k2.name = 'kernel2'
        specs.insert(1, k2)
        nroots = 2
    shared_memo = {}
    if tiny and rng.random() < 0.5:
        g = specs[-1]
        g.sizes, g.flags, g.has_a2, g.has_t1, g.has_c1 = [], [rng.choice(FLAG_POOL)], False, False, False
        g.args = list(g.flags)
    us = []
    for j, s in enumerate(specs):
        later = [g for g in specs[max(j + 1, nroots):] if g.sizes]
        if not s.sizes:
            # a unit whose only declared variable is one integer dummy
            us.append([A('unit'), A(s.name), [A(s.flags[0])], [_decl(s.flags[0], intent='in')], [[A('print'), V(s.flags[0])]]])
            continue
        if two_roots and j < nroots:
            body = gen_body(rng, s, later, rng.randint(3, 5), memo=shared_memo, reuse_p=1.0)
        else:
            body = gen_body(rng, s, later, rng.randint(2, 4) if j else rng.randint(3, 6))
        tinies = [g for g in specs[max(j + 1, nroots):] if not g.sizes]
        for g in tinies:
            if rng.random() < 0.7:
                body.append([A('callsub'), A(g.name), V(rng.choice(s.flags + s.sizes))])
        us.append([A('unit'), A(s.name), [A(a) for a in s.args], spec_decls(rng, s, weird_intent and j == 0), body])
    return fir.canon([A('program'), A('kernel')] + us), specs


def gen_tree_inputs(rng, prog, dic, n_match, n_other):
    """input sets for the main unit: `n_match` sets in which every dic key that is a dummy has its fixed value, `n_other` sets in
    which one of them differs"""
    u = unit_of(prog, str(prog[1]))
    scal = [str(d[1]) for d in u[3] if str(d[1]) in [str(a) for a in u[2]] and not d[4]]
    keys = {k.lower(): v for k, v in dic}
    hit = [x for x in scal if x in keys]
    out = []
    for j in range(n_match + n_other):
        env = {}
        for x in scal:
            if x in ('n', 'm'):
                env[x] = rng.randint(1, 5)
            elif x == 'r1':
                env[x] = rng.randint(0, 100)
            else:
                env[x] = rng.randint(-1, 3)
        for x in hit:
            env[x] = keys[x]
        if j >= n_match and hit:
            x = rng.choice(hit)
            env[x] = keys[x] + rng.choice((1, 2, -1)) if x not in ('n', 'm') else max(1, (keys[x] % 5) + 1)
            if env[x] == keys[x]:
                env[x] += 1
        rows = []
        for a in u[2]:
            a = str(a)
            if a in env:
                rows.append([A(a), fir.I(env[a])])
            else:
                ext = max(0, env.get('n', 1))
                rows.append([A(a)] + [fir.I(rng.randint(0, 96)) for _ in range(ext)])
        out.append(rows)
    return out


def gen_cfg(rng, prog, order, mode):
    u = unit_of(prog, 'kernel')
    cand = [str(d[1]) for d in u[3] if str(d[1]) in [str(a) for a in u[2]] and not d[4] and str(d[2]) == 'int' and str(d[1]) != 'r1']
    entry = None
    if mode == 'subentry':
        subs = [str(x[1]) for x in units(prog)[1:] if len(x[2]) > 1]
        if subs:
            g = rng.choice(subs)
            entry = [g]
            gu = unit_of(prog, g)
            cand = [str(d[1]) for d in gu[3] if str(d[1]) in [str(a) for a in gu[2]] and not d[4] and str(d[1]) != 'r1']
    elif mode == 'tworoots':
        entry = ['kernel', 'kernel2'] if rng.random() < 0.25 else None
    elif mode == 'multientry':
        entry = ['kernel', 'sub1']
        cand = [x for x in cand if x in ('k1', 'k2')]
    elif rng.random() < 0.12:
        entry = ['kernel']
    keys = rng.sample(cand, rng.randint(1, min(3, len(cand))))
    if mode == 'multientry' and 'k1' not in keys:
        keys = ['k1'] + keys[:1]
    dic = []
    for k in keys:
        for _ in range(4):       # distinct values where possible: a value handed to the wrong dummy must show
            v = rng.randint(1, 5) if k in ('n', 'm', 'nn', 'ns', 'mm') else rng.choice((0, 1, 1, 2, 3, -1))
            if all(v != w for _, w in dic):
                break
        dic.append((k, v))
    if mode == 'case' and dic:
        j = rng.randrange(len(dic))
        dic[j] = (dic[j][0].upper(), dic[j][1])
    if rng.random() < 0.1:
        dic.insert(rng.randint(0, len(dic)), ('zz', 7))
    return Cfg(dic, rng.random() < 0.5, entry, 'errorstop' if rng.random() < 0.2 else 'default', order,
               roots=['kernel', 'kernel2'] if mode == 'tworoots' else None)


def literalise_calls(rng, prog, callee, dic):
    """calls to an entry point that is itself called from the tree must not pass bare key variables (the transformation removes
    those actuals, an entry point keeps its dummies: class param-inconsistent-calls); they pass literals instead — the key's value
    (matching) or another one (the check in front of the called entry point has to fire)"""
    keys = {k.lower(): v for k, v in dic}
    off = rng.choice((0, 1, 1, 2))

    def fs(stmts):
        out = []
        for s in stmts:
            if h(s) == 'callsub' and str(s[1]) == callee:
                s = s[:2] + [fir.ilit(keys[str(a[1])] + off) if h(a) == 'v' and str(a[1]) in keys else a for a in s[2:]]
            out.append(s)
        return out
    g = unit_of(prog, callee)
    # the dummy that shares its name with a key gets a literal in any case
    pos = [j for j, a in enumerate(g[2]) if str(a) in keys]

    def fs2(stmts):
        out = []
        for s in fs(stmts):
            if h(s) == 'callsub' and str(s[1]) == callee:
                s = list(s)
                for j in pos:
                    if j + 2 < len(s) and h(s[j + 2]) not in ('i', 'neg'):
                        s[j + 2] = fir.ilit(keys[str(g[2][j])] + off)
            out.append(s)
        return out
    return fir.canon(fir.map_program(prog, fs=fs2))


SHARED_CFG = dict(max_stmts=12, max_depth=2, n_callees=(1, 2), symbolic_prob=0.9, callee_stmts=6,
                  weights={'call': 30, 'print': 8, 'assoc': 1, 'while': 1, 'pragma': 0, 'comment': 1, 'exit': 1, 'cycle': 1})


class C39(Prop):
    id = 'C39'
    title = 'Parametrisation preserves behaviour for matching inputs'
    model_modules = ['LokiModel.C39.Model', 'LokiModel.C39.Enc', 'LokiModel.C39.Entry']
    props_module = 'LokiModel.Props.C39'
    findings_module = 'LokiModel.Findings.C39'
    driver = 'Drivers/C39.lean'
    theorems = ['param_sound_partial', 'param_invariant', 'inlineParams_single', 'guard_fires', 'guard_passes', 'entry_points_guarded']
    design_ref = 'DESIGN.md 4.F C39'
    level = 'proof'
    level_text = ('entry_points_guarded: in the model every entry point of the processing order (several drivers / entry_points) carries a '
                  'guard for every parametrised dummy it declares (PARAMETER mode).  '
                  'Proved at full strength (all programs, states, fuel): guard_fires / guard_passes (the entry-point guard aborts first with '
                  'only its own report for a non-matching value, is transparent for the matching one); param_invariant (statements that '
                  'do not write the parametrised variable keep it at its value).  param_sound_partial: in a state where the variable '
                  'holds the fixed value, the replace_by_value body rewrite (substitution of the literal) leaves the execution of a '
                  'statement list unchanged — hypotheses: the variable is never written, no ASSOCIATE, no section target, no actual '
                  'argument mentioning it.  NOT proved (correspondence + oracle only): removal of the dummy from callee signature and '
                  'call sites across the tree (needs a frame/renaming lemma for the FIR store), several variables at once, '
                  'replace_by_value=False across calls.')
    level_note = ('T_model (Model.lean) follows transform_subroutine step by step incl. its exceptions; the abort is represented as '
                  '`print v; exit` (FIR has neither strings nor STOP); the Scheduler\'s processing order is an input of the model and is '
                  'checked against the real Scheduler on every case; execution of transformed programs writes literal PARAMETER values into '
                  'dummy-array bounds first (Sem.lean allocates dummy arrays before PARAMETER cells).')
    technique = 'Lean 4 theorems about a hand-written model of the transformation on FIR programs + correspondence with the real code'
    rule = ('call trees of 1-4 units with integer size and flag dummies passed down under other names (own generator) plus programs of '
            'the shared FIR generator; dictionaries over 1-3 dummies (all positions), replace_by_value on/off, default abort / error-stop '
            'callback, entry point = driver / named routine / TWO drivers with one signature / driver + a called entry point sharing a key '
            'name, key case variation; every entry point is run on matching and non-matching inputs; every third case the same '
            'transformation object is applied to a second Scheduler (must give the same program); 2 matching + 1-2 non-matching input sets each; a case '
            'is non-trivial when the tree has at least one callee')
    trusted_base = ['harness/fir.py (printer, exporter from Loki IR, reference interpreter)', 'gfortran 12.2 (thorough tier)']
    assumptions = ['the parametrised variables are never written in the tree (precondition; cases violating it are skipped by the oracle)',
                   'no routine outside the processed call tree calls a routine of the tree (documented warning of the transformation; such cases are skipped)',
                   'FIR semantics (Sem.lean) = Fortran semantics of the covered subset (tied to gfortran by the FIR self-test and the thorough tier)']
    extra_obligations = ['oracle: original with the documented guard vs really transformed program on matching and non-matching inputs']

    def classes(self):
        return list(CLASS_ORDER)

    # ---- generation
    def gen(self, rng, tier):
        n_tree = {'quick': 30, 'thorough': 260, 'search': 100}.get(tier, 36)
        for j in range(n_tree):
            mode = ('plain', 'tworoots', 'plain', 'multientry', 'subentry', 'case', 'intent', 'tiny', 'plain', 'plain')[j % 10]
            for _ in range(6):
                prog, _ = gen_tree(rng, weird_intent=(mode == 'intent'), tiny=(mode == 'tiny'), two_roots=(mode == 'tworoots'),
                                   multientry=(mode == 'multientry'))
                order = scheduler_order(prog, ['kernel', 'kernel2'] if mode == 'tworoots' else None)
                if not unprocessed_caller(Cfg([], False, None, 'default', order), prog):
                    break
            cfg = gen_cfg(rng, prog, order, mode)
            if mode == 'multientry':
                prog = literalise_calls(rng, prog, 'sub1', cfg.dic)
            if mode in ('multientry', 'tworoots') and cfg.rbv and K_PRINT in classes_of(cfg, prog):
                cfg.rbv = False         # keep these cases outside the PRINT class, which would hide what they are for
            inputs = gen_tree_inputs(rng, prog, cfg.dic if cfg.entry is None or 'kernel' in cfg.entry else [], 2, 1 if tier == 'quick' else 2)
            gf = tier == 'thorough' and j % 3 == 0
            yield Case([A('param'), prog, cfg.wire(), inputs, A('gf' if gf else 'nogf')], stream='tree-' + mode,
                       nontrivial=len(units(prog)) > 1)
        n_sh = {'quick': 4, 'thorough': 40, 'search': 16}.get(tier, 6)
        for j in range(n_sh):
            prog = fir.gen_program(rng, SHARED_CFG)
            u = unit_of(prog, str(prog[1]))
            cand = [str(d[1]) for d in u[3] if str(d[1]) in [str(a) for a in u[2]] and not d[4] and str(d[2]) == 'int'
                    and str(d[3]) == 'in']
            if not cand:
                continue
            inputs = fir.gen_inputs(rng, prog, 2 if tier == 'quick' else 3)
            keys = rng.sample(cand, rng.randint(1, min(2, len(cand))))
            first = {str(r[0]): r[1:] for r in inputs[0]}
            dic = [(k, int(str(first[k][0][1]))) for k in keys if k in first and h(first[k][0]) == 'i']
            if not dic:
                continue
            # all but the last input set match the dictionary
            for inp in inputs[:-1]:
                for r in inp:
                    for k, v in dic:
                        if str(r[0]) == k:
                            r[1] = fir.I(v)
            cfg = Cfg(dic, rng.random() < 0.5, None, 'default', scheduler_order(prog))
            gf = tier == 'thorough' and j % 3 == 0
            yield Case([A('param'), prog, cfg.wire(), inputs, A('gf' if gf else 'nogf')], stream='shared-generator')

    # ---- real code
    def impl(self, req):
        prog, cfg, inputs, flag = decode(req)
        cs = [A(c) for c in classes_of(cfg, prog)]
        try:
            tp, _, order = real_apply(prog, cfg)
        except TransformError as e:
            return [A('result'), cs, [A('error'), A(e.kind)]]
        except fir.Unsupported as e:
            return [A('unsupported'), str(e.kind)]
        if order != cfg.order:
            return [A('order-mismatch')] + [A(o) for o in order]
        return [A('result'), cs, norm_prog(tp)]

    def canon_model(self, resp):
        if h(resp) == 'result' and h(resp[2]) == 'program':
            return [resp[0], resp[1], norm_prog(resp[2])]
        return resp

    # ---- direct oracle
    def oracle(self, req):
        prog, cfg, inputs, flag = decode(req)
        if writes_param(cfg, prog) or unprocessed_caller(cfg, prog):
            return []        # outside the preconditions: a parametrised variable is written / a caller outside the tree
        cs = classes_of(cfg, prog)
        cls = cs[0] if cs else None
        try:
            tp, text, order = real_apply(prog, cfg)
        except TransformError as e:
            return [Failure(f'the transformation (or printing / exporting its result) raised {e}', cls)]
        except fir.Unsupported as e:
            return [Failure(f'the transformed IR is outside FIR: {e.kind}', cls)]
        if _reuse.get((dumps(prog), dumps(cfg.wire()))) is False:
            return [Failure('the same ParametriseTransformation object applied to a second Scheduler over the same sources gives a '
                            'different program (state kept in the transformation object)', cls)]
        gp = guarded(prog, cfg)
        tpx = inline_params_in_dummy_dims(tp)
        runs = []
        main = str(prog[1])
        for root in [main] + [r for r in roots_of(cfg, prog) if r != main]:
            if root != main and not same_signature(prog, main, root):
                continue        # the input sets of the request fit the main unit only
            prog_r, gp_r, tp_r, tpx_r = (with_main(x, root) for x in (prog, gp, tp, tpx))
            for inp in inputs:
                a = fir.interp(gp_r, inp)
                tin = rename_inputs(inp, tp_r, prog_r)
                if a[0] != 'ok':
                    # the check in front of an entry point that is a CALLED unit fires (`exit` in a called unit is the error
                    # "exit/cycle outside loop"): the transformed program has to abort as well
                    if a[0] == 'error' and 'exit/cycle outside loop' in str(a[1]) and fir.interp(prog_r, inp)[0] == 'ok':
                        b = fir.interp(tpx_r, tin)
                        if b[0] == 'ok':
                            return [Failure(f'non-matching value reaches an entry point below {root}: the documented check aborts, '
                                            f'the transformed program runs on (output {b[2]})', cls)]
                    continue
                b = rename_result(fir.interp(tpx_r, tin))
                if expect_abort(prog_r, cfg, inp):
                    # the guard of this entry point fires: its report is the whole output (final values are not observable)
                    if b[0] != 'ok' or a[2] != b[2]:
                        return [Failure(f'non-matching input: the guard of entry point {root} does not fire first: output '
                                        f'{b[2] if b[0] == "ok" else b} instead of {a[2]}', cls)]
                    continue
                d = fir.compare_results(a, b, undef_wild=False)
                if d:
                    return [Failure(f'transformed program (entry point {root}) behaves differently from the guarded original '
                                    f'(interpreter): {d}', cls)]
                if root == main:
                    runs.append((inp, tin))
        if flag == 'gf':
            text0, text1 = text
            # printing problems of the untransformed program are C01/C06 matters: only text that was fine before counts
            if fir.gfortran_syntax_check(text0) is None:
                err = fir.gfortran_syntax_check(text1)
                if err:
                    return [Failure(f'gfortran rejects the transformed units printed by fgen: {err[:160]}', cls)]
            if not has_exit_outside_loop(gp, only_callees=True) and not has_exit_outside_loop(tpx, only_callees=True):
                items = []
                gps, tps = structured_stops(gp), structured_stops(tpx)
                for inp, tin in runs:
                    st = {}
                    fir.interp(gp, inp, stats=st)
                    if fir.exact_in_hardware(st):
                        items += [(gps, inp), (tps, tin)]
                res = fir.run_gfortran(items) if items else []
                for k in range(0, len(res), 2):
                    if res[k][0] != 'ok':
                        continue
                    d = fir.compare_results(res[k], rename_result(res[k + 1]))
                    if d:
                        return [Failure(f'transformed program behaves differently from the guarded original (gfortran): {d}', cls)]
        return []


PROP = C39()
READY = True
