"""C12 — symbol tables behave as scoped, case-insensitive mappings.

Request forms (one whole history per request line)

    (symtab op …)   ops on a pool of SymbolTable / Scope objects and SymbolAttributes handles
    (cid op …)      ops on one CaseInsensitiveDict
    (cidd op …)     ops on one CaseInsensitiveDefaultDict(int)

The response lists the output of every op followed by a dump of the final state.
"""
import ast
import inspect

from loki import Scope, SymbolAttributes, BasicType, SymbolTable
from loki.tools.util import CaseInsensitiveDict, CaseInsensitiveDefaultDict

from ..core import Prop, Case, Failure
from ..sexpr import A, dumps

# the six classes of the snapshot (symtab-del-pop-spelling, symtab-setdefault-returns-none, symtab-clone-drops-empty-parent,
# scope-reset-parent-none-stale, cidict-del-pop-spelling, cidefaultdict-raw-key) are repaired by `fix:` commits in /repo
# (known_findings.json, status fixed): the classifier no longer knows any class, every deviation is a violation.

UNIT, NONE, KEYERR, VALERR, REC, BAD = A('unit'), A('none'), A('keyerror'), A('valueerror'), A('recursion'), A('bad')


def val(c):
    return [A('val'), c]


def opt(x):
    """none | index"""
    return None if str(x) == 'none' else int(str(x))


def boolean(x):
    return x if isinstance(x, bool) else str(x) == 'true'


def cf(name):
    """the property's key: the case-folded name without dimension suffix"""
    return name.lower().split('(')[0]


# ---------------------------------------------------------------------------------------------
# reference mapping written from the property statement: scope -> folded name -> value,
# innermost-declaration look-up, dict-like return values.  Independent of Loki and of the Lean model.
# ---------------------------------------------------------------------------------------------

class Ref:
    def __init__(self):
        self.maps, self.parent, self.scoped, self.hs = [], [], [], []

    def chain(self, i):
        seen = []
        while i is not None and i not in seen:
            seen.append(i)
            i = self.parent[i]
        return seen, i is not None

    def find(self, i, k, rec=True):
        ch, cyclic = self.chain(i) if rec else ([i], False)
        for j in ch:
            if cf(k) in self.maps[j]:
                return j
        return REC if cyclic else None

    def give(self, c):
        self.hs.append(c)
        return val(c)

    def add(self, m, p, scoped):
        self.maps.append(m)
        self.parent.append(p)
        self.scoped.append(scoped)
        return UNIT

    def step(self, op):
        o, a = str(op[0]), op[1:]
        T = len(self.maps)
        okp = lambda p: p is None or p < T
        oksp = lambda p: p is None or (p < T and self.scoped[p])
        if o == 'new':
            self.hs.append(int(a[0]))
            return UNIT
        if o == 'mutate':
            h, c = int(a[0]), int(a[1])
            if h >= len(self.hs):
                return BAD
            self.hs[h] = c
            return UNIT
        if o == 'newtab':
            return self.add({}, opt(a[0]), False) if okp(opt(a[0])) else BAD
        if o == 'newscope':
            return self.add({}, opt(a[0]), True) if oksp(opt(a[0])) else BAD
        i = int(a[0])
        if i >= T:
            return BAD
        m = self.maps[i]
        if o == 'update':
            kvs = [(k, int(h)) for k, h in a[2:]]
            if any(h >= len(self.hs) for _, h in kvs):
                return BAD
            for k, h in kvs:
                m[cf(k)] = self.hs[h]
            return UNIT
        if o == 'clone':
            pk = str(a[1])
            p = self.parent[i] if pk == 'inherit' else opt(a[1])
            return self.add(dict(m), p, False) if okp(p) else BAD
        if o == 'setparent':
            if self.scoped[i] or not okp(opt(a[1])):
                return BAD
            self.parent[i] = opt(a[1])
            return UNIT
        if o == 'reparent':
            if not self.scoped[i] or not oksp(opt(a[1])):
                return BAD
            self.parent[i] = opt(a[1])
            return UNIT
        k = a[1]
        if o in ('declare', 'supdate', 'gettype', 'symscope') and not self.scoped[i]:
            return BAD
        if o == 'set':
            if int(a[2]) >= len(self.hs):
                return BAD
            m[cf(k)] = self.hs[int(a[2])]
            return UNIT
        if o == 'setdefault':
            h = opt(a[2])
            if h is not None and h >= len(self.hs):
                return BAD
            return val(m.setdefault(cf(k), 0 if h is None else self.hs[h]))   # dict.setdefault returns the value
        if o == 'get':
            return self.give(m[cf(k)]) if cf(k) in m else NONE
        if o == 'getitem':
            return self.give(m[cf(k)]) if cf(k) in m else KEYERR
        if o == 'getd':       # the explicit default only when the name is not declared
            return self.give(m[cf(k)]) if cf(k) in m else [A('dflt'), int(a[2])]
        if o == 'popdv':
            return self.give(m.pop(cf(k))) if cf(k) in m else [A('dflt'), int(a[2])]
        if o in ('lookup', 'gettype'):
            j = self.find(i, k, boolean(a[2]))
            if j is None:
                return KEYERR if o == 'gettype' and boolean(a[3]) else NONE
            return j if j is REC else self.give(self.maps[j][cf(k)])
        if o == 'contains':
            return cf(k) in m
        if o == 'del':
            if cf(k) not in m:
                return KEYERR
            del m[cf(k)]
            return UNIT
        if o in ('pop', 'popd'):
            if cf(k) not in m:
                return KEYERR if o == 'pop' else NONE
            return self.give(m.pop(cf(k)))
        if o == 'declare':
            if boolean(a[3]) and cf(k) in m:
                return VALERR
            m[cf(k)] = int(a[2])
            return UNIT
        if o == 'supdate':
            if boolean(a[3]) and cf(k) not in m:
                return VALERR
            m[cf(k)] = int(a[2])
            return UNIT
        if o == 'symscope':
            j = self.find(i, k)
            return NONE if j is None else j if j is REC else [A('scope'), j]
        raise ValueError(o)

    def state(self):
        return ([dict(m) for m in self.maps], list(self.parent), list(self.scoped), list(self.hs))


class RefDict:
    """a mapping keyed by the lower-cased key (kind 'cidd': missing keys read as int() and are inserted)"""

    def __init__(self, kind):
        self.kind, self.m = kind, {}

    def step(self, op):
        o, a = str(op[0]), op[1:]
        if o == 'update':
            for k, v in a[1:]:
                self.m[k.lower()] = int(v)
            return UNIT
        k = a[0].lower()
        if o == 'set':
            self.m[k] = int(a[1])
            return UNIT
        if o == 'get':
            return val(self.m[k]) if k in self.m else NONE
        if o == 'getd':
            return val(self.m[k]) if k in self.m else val(int(a[1]))
        if o == 'popdv':
            return val(self.m.pop(k)) if k in self.m else val(int(a[1]))
        if o == 'getitem':
            if k not in self.m and self.kind == 'cidd':
                self.m[k] = 0
            return val(self.m[k]) if k in self.m else KEYERR
        if o == 'contains':
            return k in self.m
        if o == 'del':
            if k not in self.m:
                return KEYERR
            del self.m[k]
            return UNIT
        if o in ('pop', 'popd'):
            if k not in self.m:
                return KEYERR if o == 'pop' else NONE
            return val(self.m.pop(k))
        if o == 'setdefault':
            return val(self.m.setdefault(k, int(a[1])))
        raise ValueError(o)


# ---------------------------------------------------------------------------------------------
# the real objects
# ---------------------------------------------------------------------------------------------

def content(v):
    return v.tag or 0


class Sentinel:
    """an explicit default object passed to ``get`` / ``pop`` (neither None nor a SymbolAttributes)"""

    def __init__(self, n):
        self.n = n


# dictionary payloads: the naturals 0..3 stand for the falsy values 0, '', (), False; n >= 4 is the int n
FALSY = [0, '', (), False]


def enc(n):
    n = int(n)
    return FALSY[n] if n < len(FALSY) else n


def dec(x):
    if x is False:
        return 3
    if isinstance(x, tuple) and x == ():
        return 2
    if isinstance(x, str) and x == '':
        return 1
    if isinstance(x, int) and not isinstance(x, bool) and (x == 0 or x >= len(FALSY)):
        return x
    return [A('payload'), repr(x)]      # something the model cannot produce


class Real:
    def __init__(self):
        self.tabs, self.scopes, self.hs = [], [], []
        self.alias = None       # first aliasing observation, if any

    def idx(self, t):
        for j, x in enumerate(self.tabs):
            if x is t:
                return j
        return None if t is None else -1

    def sidx(self, sc):
        for j, x in enumerate(self.scopes):
            if x is not None and x is sc:
                return j
        return None if sc is None else -1

    def give(self, v, keep=True):
        """a SymbolAttributes object handed to the caller: must be a fresh object; it becomes a handle unless ``keep`` is
        false (the value returned by ``setdefault`` is reported but not tracked, as in the specification)"""
        if not isinstance(v, SymbolAttributes):      # the table handed out something that is not an attributes object
            return NONE if v is None else [A('foreign'), type(v).__name__]
        shared = any(v is h for h in self.hs) or any(v is x for t in self.tabs for x in dict.values(t))
        if keep:
            self.hs.append(v)
        if shared:
            self.alias = self.alias or f'returned object {v} is shared with a table entry or an earlier handle'
            return [A('val'), content(v), A('aliased')]
        return val(content(v))

    def check_alias(self):
        seen = {}
        for j, t in enumerate(self.tabs):
            for k, x in dict.items(t):
                if id(x) in seen:
                    self.alias = self.alias or f'entry {k} of table {j} shares its object with {seen[id(x)]}'
                seen[id(x)] = f'entry {k} of table {j}'
        for j, h in enumerate(self.hs):
            if id(h) in seen:
                self.alias = self.alias or f'handle {j} is the stored object of {seen[id(h)]}'

    def step(self, op):
        o, a = str(op[0]), op[1:]
        T = len(self.tabs)
        okp = lambda p: p is None or p < T
        oksp = lambda p: p is None or (p < T and self.scopes[p] is not None)
        if o == 'new':
            self.hs.append(SymbolAttributes('integer', tag=int(a[0])))
            return UNIT
        if o == 'mutate':
            if int(a[0]) >= len(self.hs):
                return BAD
            self.hs[int(a[0])].tag = int(a[1])
            return UNIT
        if o == 'newtab':
            p = opt(a[0])
            if not okp(p):
                return BAD
            self.tabs.append(SymbolTable(parent=None if p is None else self.tabs[p]))
            self.scopes.append(None)
            return UNIT
        if o == 'newscope':
            p = opt(a[0])
            if not oksp(p):
                return BAD
            sc = Scope(parent=None if p is None else self.scopes[p])
            self.tabs.append(sc.symbol_attrs)
            self.scopes.append(sc)
            return UNIT
        i = int(a[0])
        if i >= T:
            return BAD
        t, sc = self.tabs[i], self.scopes[i]
        try:
            if o == 'update':
                kvs = [(k, int(h)) for k, h in a[2:]]
                if any(h >= len(self.hs) for _, h in kvs):
                    return BAD
                items = [(k, self.hs[h]) for k, h in kvs]
                t.update(dict(items) if str(a[1]) == 'dict' else items)
                return UNIT
            if o == 'clone':
                pk = str(a[1])
                if pk == 'inherit':
                    c = t.clone()
                elif not okp(opt(a[1])):
                    return BAD
                else:
                    c = t.clone(parent=None if opt(a[1]) is None else self.tabs[opt(a[1])])
                self.tabs.append(c)
                self.scopes.append(None)
                return UNIT
            if o == 'setparent':
                p = opt(a[1])
                if sc is not None or not okp(p):
                    return BAD
                t.parent = None if p is None else self.tabs[p]
                return UNIT
            if o == 'reparent':
                p = opt(a[1])
                if sc is None or not oksp(p):
                    return BAD
                sc._reset_parent(None if p is None else self.scopes[p])
                return UNIT
            k = a[1]
            if o in ('declare', 'supdate', 'gettype', 'symscope') and sc is None:
                return BAD
            if o == 'set':
                if int(a[2]) >= len(self.hs):
                    return BAD
                t[k] = self.hs[int(a[2])]
                return UNIT
            if o == 'setdefault':
                h = opt(a[2])
                if h is not None and h >= len(self.hs):
                    return BAD
                r = t.setdefault(k) if h is None else t.setdefault(k, self.hs[h])
                return NONE if r is None else self.give(r, keep=False)
            if o == 'get':
                r = t.get(k)
                return NONE if r is None else self.give(r)
            if o == 'getitem':
                return self.give(t[k])
            if o in ('getd', 'popdv'):
                dflt = Sentinel(int(a[2]))
                r = t.get(k, dflt) if o == 'getd' else t.pop(k, dflt)
                if isinstance(r, Sentinel):
                    return [A('dflt'), r.n] if r is dflt else [A('dflt'), r.n, A('foreign')]
                return NONE if r is None else self.give(r)
            if o == 'lookup':
                r = t.lookup(k, recursive=boolean(a[2]))
                return NONE if r is None else self.give(r)
            if o == 'contains':
                return k in t
            if o == 'del':
                del t[k]
                return UNIT
            if o == 'pop':
                return self.give(t.pop(k))
            if o == 'popd':
                r = t.pop(k, None)
                return NONE if r is None else self.give(r)
            if o == 'declare':
                sc.declare(k, 'integer', fail=boolean(a[3]), tag=int(a[2]))
                return UNIT
            if o == 'supdate':
                sc.update(k, fail=boolean(a[3]), dtype='integer', tag=int(a[2]))
                return UNIT
            if o == 'gettype':
                r = sc.get_type(k, recursive=boolean(a[2]), fail=boolean(a[3]))
                return NONE if r is None else self.give(r)
            if o == 'symscope':
                x, n = sc, 0          # get_symbol_scope loops forever on a cyclic scope chain: refuse those
                while x is not None and n <= T:
                    x, n = x.parent, n + 1
                if x is not None:
                    return REC
                r = sc.get_symbol_scope(k)
                return NONE if r is None else [A('scope'), self.sidx(r)]
        except KeyError:
            return KEYERR
        except ValueError:
            return VALERR
        except RecursionError:
            return REC
        raise ValueError(o)

    def state(self):
        maps = [{k: content(v) for k, v in dict.items(t)} for t in self.tabs]
        parent = [self.idx(t.parent) for t in self.tabs]
        return (maps, parent, [s is not None for s in self.scopes], [content(h) for h in self.hs])

    def dump(self):
        out = []
        for t, sc in zip(self.tabs, self.scopes):
            ents = [[k, content(v)] for k, v in dict.items(t)]
            out.append([A('tab'), ents, self.idx(t.parent), sc is not None,
                        None if sc is None else self.sidx(sc.parent)])
        return [[A('tabs')] + out, [A('hs')] + [content(h) for h in self.hs]]


class RealDict:
    def __init__(self, kind):
        self.kind = kind
        self.d = CaseInsensitiveDict() if kind == 'cid' else CaseInsensitiveDefaultDict(int)

    @staticmethod
    def out(r):
        """value handed out by the dictionary -> (val n); None -> none"""
        if r is None:
            return NONE
        n = dec(r)
        return val(n) if isinstance(n, int) else n

    def step(self, op):
        o, a, d = str(op[0]), op[1:], self.d
        try:
            if o == 'update':
                items = [(k, enc(v)) for k, v in a[1:]]
                d.update(dict(items) if str(a[0]) == 'dict' else items)
                return UNIT
            k = a[0]
            if o == 'set':
                d[k] = enc(a[1])
                return UNIT
            if o == 'get':
                return self.out(d.get(k))
            if o == 'getd':
                return self.out(d.get(k, enc(a[1])))
            if o == 'getitem':
                return self.out(d[k])
            if o == 'contains':
                return k in d
            if o == 'del':
                del d[k]
                return UNIT
            if o == 'pop':
                return self.out(d.pop(k))
            if o == 'popd':
                return self.out(d.pop(k, None))
            if o == 'popdv':
                return self.out(d.pop(k, enc(a[1])))
            if o == 'setdefault':
                return self.out(d.setdefault(k, enc(a[1])))
        except KeyError:
            return KEYERR
        raise ValueError(o)

    def state(self):
        return {k: dec(v) for k, v in self.d.items()}

    def items(self):
        return [[k, dec(v)] for k, v in self.d.items()]


# ---------------------------------------------------------------------------------------------
# generation
# ---------------------------------------------------------------------------------------------

BASES = ['abc', 'x', 'n1', 'tmp_v']


def spellings(base):
    return [base, base.upper(), base.capitalize(), base[:1] + base[1:].upper(), base + '(1)',
            base.upper() + '(i,J)', base.capitalize() + '(:)']


def gen_symtab(rng, nops, clean):
    """one random history; ``clean`` histories delete by stored key and avoid `clone()` under an empty parent and
    `_reset_parent(None)` (the classes that were defective before the fix: commits), the others use every spelling
    everywhere and exercise exactly those paths"""
    ref = Ref()
    ops = []

    def emit(op):
        ops.append(op)
        ref.step(op)

    bases = rng.sample(BASES, rng.randint(1, 3))
    name = lambda: rng.choice(spellings(rng.choice(bases)))
    # a chain of scopes of depth <= 4 plus the odd bare table
    depth = rng.randint(1, 4)
    for d in range(depth):
        emit([A('newscope'), A('none') if d == 0 else (d - 1 if rng.random() < 0.85 else rng.randrange(d))])
    for _ in range(rng.randint(0, 2)):
        emit([A('newtab'), rng.choice([A('none')] + list(range(len(ref.maps))))])
    for _ in range(rng.randint(1, 3)):
        emit([A('new'), rng.choice([0, rng.randint(1, 99)])])
    while len(ops) < nops:
        T, H = len(ref.maps), len(ref.hs)
        i = rng.randrange(T)
        scoped = [j for j in range(T) if ref.scoped[j]]
        r = rng.random()
        k = name()
        present = [kk for kk in ref.maps[i]]
        if r < 0.10:
            emit([A('set'), i, k, rng.randrange(H)])
        elif r < 0.16:
            emit([A('setdefault'), i, k, rng.choice([A('none'), rng.randrange(H)])])
        elif r < 0.22:
            kvs = [[name(), rng.randrange(H)] for _ in range(rng.randint(0, 3))]
            form = 'dict' if len({kk for kk, _ in kvs}) == len(kvs) and rng.random() < 0.6 else 'list'
            emit([A('update'), i, A(form)] + kvs)
        elif r < 0.28:
            emit([A('get'), i, k] if rng.random() < 0.5 else [A('getd'), i, k, rng.randint(0, 9)])
        elif r < 0.33:
            emit([A('getitem'), i, k])
        elif r < 0.43:
            emit([A('lookup'), i, k, rng.random() < 0.8])
        elif r < 0.48:
            emit([A('contains'), i, k])
        elif r < 0.60:
            o = rng.choice(['del', 'pop', 'popd', 'popdv'])
            if clean:
                k = cf(k) if rng.random() < 0.3 or not present else rng.choice(present)
            elif present and rng.random() < 0.5:
                k = rng.choice(spellings(rng.choice(present)))
            emit([A(o), i, k] + ([rng.randint(0, 9)] if o == 'popdv' else []))
        elif r < 0.65:
            pk = rng.choice([A('inherit'), A('inherit'), A('none'), rng.randrange(T)])
            if clean and str(pk) == 'inherit' and ref.parent[i] is not None and not ref.maps[ref.parent[i]]:
                pk = ref.parent[i]
            emit([A('clone'), i, pk])
        elif r < 0.68:
            bare = [j for j in range(T) if not ref.scoped[j]]
            if bare:
                j = rng.choice(bare)
                p = rng.choice([A('none')] + list(range(T)))
                # no cycles in clean histories (a cyclic chain makes the real look-up recurse until RecursionError)
                if str(p) != 'none' and (clean or rng.random() < 0.8) and j in ref.chain(p)[0]:
                    p = A('none')
                emit([A('setparent'), j, p])
        elif r < 0.72:
            emit([A('new'), rng.choice([0, rng.randint(1, 99)])])
        elif r < 0.78:
            emit([A('mutate'), rng.randrange(H), rng.randint(100, 199)])
        elif scoped:
            i = rng.choice(scoped)
            if r < 0.84:
                emit([A('declare'), i, k, rng.randint(200, 299), rng.random() < 0.6])
            elif r < 0.88:
                emit([A('supdate'), i, k, rng.randint(300, 399), rng.random() < 0.6])
            elif r < 0.93:
                emit([A('gettype'), i, k, rng.random() < 0.8, rng.random() < 0.5])
            elif r < 0.97:
                emit([A('symscope'), i, k])
            else:
                p = rng.choice([A('none')] + scoped)
                if str(p) != 'none' and i in ref.chain(p)[0]:
                    p = A('none')     # never a cyclic scope chain: get_symbol_scope would not terminate
                if clean and str(p) == 'none' and ref.parent[i] is not None:
                    continue
                emit([A('reparent'), i, p])
            if len(scoped) < 5 and rng.random() < 0.05:
                emit([A('newscope'), rng.choice(scoped)])
    return [A('symtab')] + ops


def gen_dict(rng, kind, nops, clean):
    ref = RefDict(kind)
    ops = []
    bases = rng.sample(['key', 'mode', 'Routine_A', 'x'], rng.randint(1, 3))
    sp = lambda b: [b, b.lower(), b.upper(), b.capitalize(), b.swapcase()]
    name = lambda: rng.choice(sp(rng.choice(bases)))
    # values: 0..3 are the falsy payloads 0, '', (), False (see enc/dec); explicit defaults are drawn from the same domain
    value = lambda: rng.randrange(len(FALSY)) if rng.random() < 0.4 else rng.randint(len(FALSY), 99)
    while len(ops) < nops:
        r = rng.random()
        k = name()
        present = list(ref.m)
        raw_ok = not (clean and kind == 'cidd')      # clean cidd histories write lower-case keys only
        if r < 0.2:
            op = [A('set'), k, value()]
        elif r < 0.3:
            op = [A('get'), k] if rng.random() < 0.4 else [A('getd'), k, value()]
        elif r < 0.4:
            op = [A('getitem'), k]
        elif r < 0.5:
            op = [A('contains'), k]
        elif r < 0.7:
            o = rng.choice(['del', 'pop', 'popd', 'popdv'])
            if clean:
                k = k.lower() if rng.random() < 0.3 or not present else rng.choice(present)
            op = [A(o), k] + ([value()] if o == 'popdv' else [])
        elif r < 0.85:
            op = [A('setdefault'), k if raw_ok else k.lower(), value()]
        else:
            kvs = [[name() if raw_ok else name().lower(), value()] for _ in range(rng.randint(0, 3))]
            form = 'dict' if len({kk for kk, _ in kvs}) == len(kvs) and rng.random() < 0.6 else 'list'
            op = [A('update'), A(form)] + kvs
        ops.append(op)
        ref.step(op)
    return [A(kind)] + ops


def lean_table():
    """ASCII lower-casing table of Python's str.lower and the partition character of format_lookup_name"""
    pairs = [(c, chr(c).lower()) for c in range(128) if chr(c).lower() != chr(c)]
    src = inspect.getsource(SymbolTable._not_case_sensitive_format_lookup_name)
    tree = ast.parse('class _X:\n' + src if src.startswith('    ') else src)
    cuts = [n.args[0].value for n in ast.walk(tree)
            if isinstance(n, ast.Call) and isinstance(n.func, ast.Attribute) and n.func.attr == 'partition'
            and n.args and isinstance(n.args[0], ast.Constant)]
    cut = cuts[0] if cuts else '\0'
    body = ', '.join(f'(Char.ofNat {c}, Char.ofNat {ord(l)})' for c, l in pairs)
    return ('/-! Generated from /repo by harness/props/c12.py (`str.lower` on ASCII; the `partition` argument of\n'
            '`SymbolTable._not_case_sensitive_format_lookup_name`).  Do not edit. -/\n'
            'namespace LokiModel.C12\n'
            f'def lowerTable : List (Char × Char) := [{body}]\n'
            f'def cutChar : Char := Char.ofNat {ord(cut[0]) if cut else 0}\n'
            'end LokiModel.C12\n')


class C12(Prop):
    id = 'C12'
    title = 'Symbol tables behave as scoped, case-insensitive mappings'
    model_modules = ['LokiModel.C12.Model']
    props_module = 'LokiModel.Props.C12'
    driver = 'Drivers/C12.lean'
    theorems = ['C12_inv_init', 'C12_step', 'C12_run_refines', 'C12_full_holds', 'C12_del_agrees_with_contains',
                'C12_spelling_irrelevant', 'C12_default_only_when_absent', 'C12_dict_default_only_when_absent',
                'C12_mutate_independent', 'C12_fold_idem',
                'C12_no_sharing', 'C12_copies_independent', 'C12_set_stores_copy',
                'C12_dict_step', 'C12_dict_run', 'C12_dict_full_holds']
    findings_module = 'LokiModel.Findings.C12'
    design_ref = 'DESIGN.md 4.B C12'
    level = 'proof'
    level_text = (
        'Lean theorems, all unbounded and at FULL strength since the six fix: commits (no Known hypothesis left): C12_step — for every '
        'state satisfying the invariant and every one of the 23 operations of the model of SymbolTable/Scope (set, setdefault, update, '
        'get, get(k,default), [], lookup recursive/non-recursive, in, del, pop, pop(k,None), pop(k,default), clone, parent setter, Scope(), declare, Scope.update, '
        'get_type, get_symbol_scope, _reset_parent, creating/mutating SymbolAttributes handles) the abstraction to "scope -> folded '
        'name -> value" commutes with the step, the output is the output of that mapping (innermost-declaration look-up) and the '
        'invariant (stored keys folded and unique; scope parent = table parent; scope parents are scopes) is kept; C12_run_refines / '
        'C12_full_holds lift this to ALL histories from the empty state by induction, every output included; '
        'C12_del_agrees_with_contains and C12_spelling_irrelevant state that membership, look-up, deletion agree for any spelling.  '
        'Dictionaries: C12_dict_step / C12_dict_run / C12_dict_full_holds — CaseInsensitiveDict and CaseInsensitiveDefaultDict refine '
        'a mapping keyed by the lower-cased key for all histories, no hypothesis.  "Returned attributes are independent copies": the '
        'state machine holds values by value (C12_mutate_independent is by construction); object identity is proved on a second, '
        'smaller model (one table, heap of objects, where set/setdefault/lookup clone and pop hands out the stored object): '
        'C12_no_sharing — after ANY history no object is shared between two entries or between table and caller; '
        'C12_copies_independent — mutating any object the caller holds never changes the table; C12_set_stores_copy.  That second '
        'model is tied to the code by reading where clone() is called plus the identity checks of the correspondence run (after every '
        'op every stored and returned object is compared by `is` against all table entries and handles; handles are mutated between '
        'ops), not by a separate driver.  The behaviour before the fixes is kept as regression statements in LokiModel/Findings/C12.lean.')
    level_note = ('Model hand-written from symbol_table.py / scope.py / util.py (state after the fix: commits); tied to the code by running '
                  'every generated history on the real objects and on the Lean driver and diffing every output and the final dump (keys '
                  'in insertion order, values, table parent, scope parent, handle values).  str.lower is the generated ASCII table; the '
                  'partition character is read from the source with ast.  Parents are weak references in the code: the harness keeps '
                  'every object alive; garbage collection of parents is not modelled.  case_sensitive=True tables, pickling, '
                  'Scope.clone (TypeError on a plain Scope: symbol_attrs is init=False), non-string keys are out of the model.')
    technique = 'Lean 4 refinement theorems (model state machine -> abstract mapping spec) + correspondence with the real objects'
    rule = ('random histories of 8-40 ops over a chain of 1-4 nested Scope objects plus bare/cloned SymbolTables, names drawn from 4 base '
            'names x 7 spellings (lower, UPPER, Capitalised, mIXED, with (1) / (i,J) / (:) suffixes); 2/3 of the histories delete by '
            'stored key, 1/3 use any spelling anywhere (the former known classes); dictionaries: histories of 4-40 ops over 5 spellings '
            'of 1-3 keys, values and explicit get/pop defaults include the falsy payloads 0, \'\', (), False; symbol tables: get/pop '
            'also with explicit sentinel defaults, tag 0 handles; distinct by request line')
    trusted_base = ['harness/props/c12.py Real/RealDict (drives the real objects, canonicalises outputs)',
                    'harness/props/c12.py Ref/RefDict reference mappings (direct oracle)', 'Lean driver evaluation of model definitions']
    assumptions = ['ASCII names (str.lower modelled on ASCII)', 'all tables/scopes stay alive (weak parent references never die)',
                   'parent chains of scopes are acyclic (get_symbol_scope does not terminate otherwise; table-parent cycles are '
                   'modelled as RecursionError)', 'SymbolAttributes values observed through dtype/tag only',
                   'case-insensitive tables only (case_sensitive=False)']
    extra_obligations = ['oracle: real SymbolTable/Scope objects vs the reference scoped mapping, op by op, state compared after every op',
                         'oracle: real CaseInsensitiveDict/DefaultDict vs a mapping keyed by the lower-cased key',
                         'identity: returned and stored SymbolAttributes are pairwise distinct objects after every op']

    def tables(self):
        return {'LokiModel/Generated/C12Tables.lean': lean_table()}

    def gen(self, rng, tier):
        n = {'quick': 400, 'thorough': 15000, 'search': 3000}.get(tier, 400)
        for j in range(n):
            clean = j % 2 == 0
            req = gen_symtab(rng, rng.randint(8, 40), clean)
            yield Case(req, stream='symtab-clean' if clean else 'symtab-any')
        for kind in ('cid', 'cidd'):
            for j in range(n // 3):
                clean = j % 2 == 0
                yield Case(gen_dict(rng, kind, rng.randint(4, 40), clean), stream=kind + ('-clean' if clean else '-any'))

    # ---- real code
    def impl(self, req):
        fam = str(req[0])
        if fam == 'symtab':
            real = Real()
            outs = [real.step(op) for op in req[1:]]
            return [A('ok'), outs] + real.dump()
        real = RealDict(fam)
        outs = [real.step(op) for op in req[1:]]
        return [A('ok'), outs, [A('items')] + real.items()]

    # ---- direct oracle: the real objects against the reference mapping, op by op
    def oracle(self, req):
        fam = str(req[0])
        return self.oracle_symtab(req[1:]) if fam == 'symtab' else self.oracle_dict(fam, req[1:])

    def oracle_symtab(self, ops):
        real, ref = Real(), Ref()
        for n, op in enumerate(ops):
            exp = ref.step(op)
            got = real.step(op)
            real.check_alias()
            if real.alias:
                return [Failure(f'op {n} {dumps(op)}: {real.alias} (returned/stored attributes must be independent copies)')]
            if got != exp:
                return [Failure(f'op {n} {dumps(op)}: real gives {dumps(got)}, a scoped case-insensitive mapping gives {dumps(exp)}')]
            if real.state() != ref.state():
                return [Failure(f'op {n} {dumps(op)}: state after the op differs from the reference mapping: real '
                                f'{real.state()[:2]} reference {ref.state()[:2]}')]
            if [None if sc is None else real.sidx(sc.parent) for sc in real.scopes] != \
                    [p if s else None for p, s in zip(ref.parent, ref.scoped)]:
                return [Failure(f'op {n} {dumps(op)}: scope parents {[None if sc is None else real.sidx(sc.parent) for sc in real.scopes]} '
                                f'differ from the table parents {ref.parent} of the scopes')]
        return []

    def oracle_dict(self, kind, ops):
        real, ref = RealDict(kind), RefDict(kind)
        for n, op in enumerate(ops):
            exp = ref.step(op)
            got = real.step(op)
            now = real.state()
            if got != exp or now != ref.m:
                return [Failure(f'{kind} op {n} {dumps(op)}: real gives {dumps(got)} / {now}, a mapping keyed by the '
                                f'lower-cased key gives {dumps(exp)} / {ref.m}')]
        return []

    def classes(self):
        return []


PROP = C12()
READY = True
