"""C04 — generated Fortran respects free-form line limits without altering tokens.

Real code under test: ``loki.tools.strings.JoinableStringList`` (``__init__``, ``_add_item_to_line``, ``_to_str``,
``__add__``, ``__radd__``, ``__str__``) and ``loki.backend.pprint.Stringifier.format_line / join_items``; the captured
stream additionally runs the Loki frontend and ``fgen`` on generated routines and records every list the backend
builds (by wrapping ``JoinableStringList.__str__`` and ``Stringifier.format_line`` from the harness side).
"""
import ast
import re

from loki import Subroutine, Frontend, fgen              # noqa: F401  (import loki first: loki.tools alone is circular)
from loki.tools.strings import JoinableStringList
from loki.backend.pprint import Stringifier
from loki.backend import style as loki_style
from loki.backend.fgen import FortranCodegen

from ..core import Prop, Case, Failure, REPO
from ..sexpr import A, dumps, loads

WIDE = 10 ** 6
QUOTES = '\'"'


# ----------------------------------------------------------------------------- trees

def build(t, W, cont):
    """request tree -> real object (str or JoinableStringList)"""
    op = str(t[0])
    _wf(t)
    if op == 's':
        return str(t[1])
    if op == 'j':
        return JoinableStringList([build(x, W, cont) for x in t[3:]], sep=str(t[1]), width=W, cont=cont,
                                  separable=(str(t[2]) == 'true'))
    if op == 'add':
        return build(t[1], W, cont) + str(t[2])
    if op == 'radd':
        return str(t[1]) + build(t[2], W, cont)
    if op == 'cat':
        return build(t[1], W, cont) + build(t[2], W, cont)
    raise ValueError(op)


def _isstr(x):
    return isinstance(x, str) and not isinstance(x, A)


def _wf(t):
    """well-formedness of one tree node (the shrinker proposes arbitrary sub-lists)"""
    op = str(t[0]) if isinstance(t, list) and t and isinstance(t[0], A) else None
    ok = ((op == 's' and len(t) == 2 and _isstr(t[1]))
          or (op == 'j' and len(t) >= 3 and _isstr(t[1]) and str(t[2]) in ('true', 'false') and all(isinstance(x, list) for x in t[3:]))
          or (op == 'add' and len(t) == 3 and isinstance(t[1], list) and _isstr(t[2]))
          or (op == 'radd' and len(t) == 3 and _isstr(t[1]) and isinstance(t[2], list))
          or (op == 'cat' and len(t) == 3 and all(isinstance(x, list) and str(x[0]) != 's' for x in t[1:])))
    if not ok:
        raise ValueError('malformed tree ' + dumps(t)[:60])


def tree_of(obj, top=None):
    """real object -> request tree; raises ValueError for trees whose lists do not share width/cont"""
    if isinstance(obj, JoinableStringList):
        top = top or obj
        if obj.width != top.width or list(obj.cont) != list(top.cont):
            raise ValueError('nonuniform')
        return [A('j'), obj.sep, bool(obj.separable)] + [tree_of(i, top) for i in obj.items]
    if isinstance(obj, str):
        return [A('s'), obj]
    raise ValueError('foreign item ' + type(obj).__name__)


def wide(o):
    """the same object with an unreachable width (never wraps)"""
    if isinstance(o, JoinableStringList):
        return JoinableStringList([wide(i) for i in o.items], o.sep, WIDE, list(o.cont), o.separable)
    return o


def atoms(o):
    """leaf strings and separators in printing order (their concatenation is the unwrapped text)"""
    if not isinstance(o, JoinableStringList):
        return [o]
    res = []
    for idx, i in enumerate(o.items):
        if str(wide(i)) == '':
            continue
        res += atoms(i)
        if idx + 1 < len(o.items):
            res.append(o.sep)
    return res


# ----------------------------------------------------------------------------- a small free-form Fortran lexer

_TOK = re.compile(r"""
    (?P<ws>[ \t]+)
  | (?P<name>[A-Za-z_][A-Za-z0-9_]*)
  | (?P<num>(?:\d+\.?\d*|\.\d+)(?:[eEdD][+-]?\d+)?(?:_[A-Za-z0-9_]+)?)
  | (?P<dotop>\.[A-Za-z]+\.)
  | (?P<op>\*\*|//|==|/=|<=|>=|=>|::|\(/|/\))
""", re.X)


def logical_line(text):
    """Join the physical lines of free-form text into one logical line following F2018 6.3.2.4: '&' as last
    non-blank character continues the line, an optional leading '&' on the next line marks where it resumes;
    inside a character literal the '&' pair splices the literal.  Returns (chars, problems)."""
    out = []
    problems = []
    quote = None            # open character literal
    pending = False         # previous line ended with a continuation
    for raw in text.split('\n'):
        line = raw
        if pending:
            stripped = line.lstrip(' \t')
            if stripped.startswith('&'):
                line = stripped[1:]
            elif quote:
                problems.append('character context continued without leading &')
        # scan the line for literal state and a trailing '&'
        i = 0
        q = quote
        last_amp = None
        while i < len(line):
            c = line[i]
            if q:
                if c == q:
                    q = None
            elif c in QUOTES:
                q = c
            i += 1
        body = line.rstrip(' \t')
        if body.endswith('&'):
            # state just before the '&'
            q2 = quote
            for c in body[:-1]:
                if q2:
                    if c == q2:
                        q2 = None
                elif c in QUOTES:
                    q2 = c
            out.append(body[:-1])
            quote = q2
            pending = True
        else:
            out.append(line)
            quote = q
            pending = False
            if quote:
                problems.append('unterminated character literal at end of line')
                quote = None
            out.append('\n')
    return ''.join(out), problems


def ftokens(text):
    """token sequence of free-form Fortran text (continuations resolved)"""
    s, problems = logical_line(text)
    toks = []
    i = 0
    n = len(s)
    while i < n:
        c = s[i]
        if c == '\n':
            i += 1
            if toks and toks[-1] != '<EOL>':
                toks.append('<EOL>')
            continue
        if c in QUOTES:
            j = i + 1
            while j < n:
                if s[j] == c:
                    if j + 1 < n and s[j + 1] == c:
                        j += 2
                        continue
                    break
                if s[j] == '\n':
                    break
                j += 1
            toks.append(s[i:j + 1])
            i = j + 1
            continue
        m = _TOK.match(s, i)
        if m:
            if m.lastgroup != 'ws':
                toks.append(m.group(0).lower() if m.lastgroup in ('name', 'dotop') else m.group(0))
            i = m.end()
            continue
        toks.append(c)
        i += 1
    while toks and toks[-1] == '<EOL>':
        toks.pop()
    return toks + ['<PROBLEM ' + p + '>' for p in problems]


def breakable_inside(body):
    """could the wrapper have broken `body` (the text of one over-long line without its continuation markers)?
    A break opportunity is a blank, a ')' not followed by '%', or the start/end of a character literal, outside
    character literals (Fortran doubled-quote literals are one token), strictly inside the text."""
    n = len(body)
    opp = set()
    i = 0
    while i < n:
        c = body[i]
        if c in QUOTES:
            j = i + 1
            closed = False
            while j < n:
                if body[j] == c:
                    if j + 1 < n and body[j + 1] == c:
                        j += 2
                        continue
                    closed = True
                    break
                j += 1
            if closed:
                opp.add(i)
                opp.add(j + 1)
                i = j + 1
                continue
            i += 1
            continue
        if c in ' \t' or (c == ')' and body[i + 1:i + 2] != '%'):
            opp.add(i)
            opp.add(i + 1)
        i += 1
    return any(0 < p < n for p in opp)


def width_failures(out, W, c0, c1, exempt_last=False):
    """direct statement of the width property on one wrapped text"""
    if not c0.endswith('\n') or '\n' in c1 or '\n' in c0[:-1]:
        return []
    head = c0[:-1]
    fails = []
    lines = out.split('\n')
    for k, l in enumerate(lines):
        if len(l) <= W or (exempt_last and k == len(lines) - 1):
            continue
        body = l
        if k > 0 and body.startswith(c1):
            body = body[len(c1):]
        if k < len(lines) - 1 and body.endswith(head):
            body = body[:len(body) - len(head)]
        if breakable_inside(body.strip(' ')):
            fails.append(f'line {k + 1} has {len(l)} > {W} characters although it can be broken: {l[:60]!r}…')
    return fails


def fortran_cont(c0, c1):
    return c0.strip(' ') == '&\n' and c1.strip(' ') in ('&', '')


# ----------------------------------------------------------------------------- capture from fgen

class Capture:
    """records every top-level ``str(JoinableStringList)`` and every ``format_line`` call while active"""

    def __init__(self):
        self.strs = []
        self.fmts = []
        self.skipped = 0
        self.depth = 0

    def __enter__(self):
        cap = self
        self._str = JoinableStringList.__str__
        self._fmt = Stringifier.format_line
        orig_str, orig_fmt = self._str, self._fmt

        def __str__(obj):
            if cap.depth == 0:
                try:
                    cap.strs.append((obj.width, ''.join(obj.cont), tree_of(obj)))
                except ValueError:
                    cap.skipped += 1
            cap.depth += 1
            try:
                return orig_str(obj)
            finally:
                cap.depth -= 1

        def format_line(st, *items, comment=None, no_wrap=False, no_indent=False, trim_spaces=True):
            try:
                lc = getattr(st.line_cont, '__self__', None)
                if isinstance(lc, str) and st.indent == ' ' * len(st.indent):
                    cont = st.line_cont(st.indent)
                    trees = []
                    for i in items:
                        if isinstance(i, JoinableStringList):
                            if i.width != st.style.linewidth or ''.join(i.cont) != ''.join(
                                    JoinableStringList([], '', i.width, cont).cont):
                                raise ValueError('nonuniform')
                            trees.append(tree_of(i))
                        else:
                            trees.append([A('s'), str(i)])
                    cap.fmts.append([A('fmt'), st.style.linewidth, lc, len(st.indent), trees,
                                     A('none') if comment is None else str(comment),
                                     bool(no_wrap), bool(no_indent), bool(trim_spaces)])
            except (ValueError, AssertionError):
                cap.skipped += 1
            return orig_fmt(st, *items, comment=comment, no_wrap=no_wrap, no_indent=no_indent, trim_spaces=trim_spaces)

        JoinableStringList.__str__ = __str__
        Stringifier.format_line = format_line
        return self

    def __exit__(self, *exc):
        JoinableStringList.__str__ = self._str
        Stringifier.format_line = self._fmt
        return False


# ----------------------------------------------------------------------------- generators

NAMES = ['a', 'b', 'x1', 'zvar', 'klon', 'jl', 'jk', 'ibl', 'pt', 'zqsat', 'tendency_loc', 'ydmodel', 'yrml_phy_g',
         'ntiles', 'zalpha_long_variable_name', 'ydcst', 'rg', 'paph', 'kidia', 'kfdia', 'ztp1']
WORDS = ['it', 's', 'value', 'of', 'x', 'is', 'a', 'long', 'message', 'don', 't', 'stop', '100%', 'a(1)', 'b )', '&', '!',
         'end', 'x=1,', '::']


def rand_literal(rng, maxw=12):
    q = rng.choice(QUOTES)
    other = '"' if q == "'" else "'"
    n = rng.randint(0, maxw)
    parts = []
    for _ in range(n):
        w = rng.choice(WORDS)
        r = rng.random()
        if r < 0.25:
            w = w + q + q + rng.choice(['s', 't', '', 'x'])      # doubled quote
        elif r < 0.35:
            w = w + other + rng.choice(['s', ''])                  # the other quote kind inside
        parts.append(w)
    return q + rng.choice([' ', '  ', ' ', '']).join(parts) + q


def rand_ref(rng):
    r = rng.random()
    v = rng.choice(NAMES)
    if r < 0.3:
        return v
    if r < 0.55:
        return f"{v}({rng.choice(['jl', 'jl, jk', 'jl,jk,ibl', '1:klon', ':', 'i+1, j-1'])})"
    if r < 0.8:
        return f"{v}%{rng.choice(NAMES)}%{rng.choice(NAMES)}"
    return f"{v}({rng.choice(['ibl', 'jl'])})%{rng.choice(NAMES)}({rng.choice(['jl,jk', 'jl, jk', ':'])})"


def rand_expr(rng, depth=2):
    if depth <= 0 or rng.random() < 0.3:
        r = rng.random()
        if r < 0.6:
            return rand_ref(rng)
        if r < 0.8:
            return rng.choice(['1', '42', '3.14_jprb', '1.0e-3', '0.5d0', '.true.', '2'])
        return rand_literal(rng, 4)
    op = rng.choice([' + ', ' - ', '*', ' / ', '**', ' .and. ', ' == ', ' // ', '+', ' > '])
    a, b = rand_expr(rng, depth - 1), rand_expr(rng, depth - 1)
    if rng.random() < 0.3:
        return f'({a}{op}{b})'
    if rng.random() < 0.15:
        return f"{rng.choice(['max', 'min', 'sqrt', 'merge'])}({a}, {b})"
    return f'{a}{op}{b}'


CONTS = [' &\n & ', ' &\n   & ', ' &\n& ', ' &\n      & ', '\n', '\n      ', ' &\n!$omp & ', ' &\n&', ' &\n  & ']
SEPS = [', ', ' ', '', ' + ', ',', ' // ', ' :: ']


def rand_item(rng, kind):
    r = rng.random()
    if kind == 'lit':
        return rand_literal(rng, rng.choice([3, 8, 20, 40]))
    if kind == 'expr':
        return rand_expr(rng, rng.choice([0, 1, 2, 3, 4]))
    if kind == 'kw':
        return f'{rng.choice(NAMES)}={rand_expr(rng, 1)}'
    if kind == 'blank':
        return rng.choice(['', ' ', '  ', ''])
    if kind == 'long':
        return ''.join(rng.choice(NAMES) for _ in range(rng.randint(3, 14)))
    if r < 0.5:
        return rand_expr(rng, 2)
    return rand_literal(rng)


def rand_flat(rng, n=None, kinds=None):
    n = rng.randint(0, 9) if n is None else n
    kinds = kinds or ['expr', 'expr', 'expr', 'lit', 'kw', 'blank', 'long']
    return [[A('s'), rand_item(rng, rng.choice(kinds))] for _ in range(n)]


def rand_tree(rng, depth, top=True):
    """(j sep separable …) with nested lists / add / radd / cat"""
    n = rng.randint(0 if not top else 1, 6)
    kids = []
    for _ in range(n):
        r = rng.random()
        if depth > 0 and r < 0.35:
            kids.append(rand_tree(rng, depth - 1, top=False))
        elif depth > 0 and r < 0.42:
            kids.append([A('add'), rand_tree(rng, depth - 1, top=False), rng.choice([')', ' ', ', ', 'x'])])
        elif depth > 0 and r < 0.49:
            kids.append([A('radd'), rng.choice(['(', 'f(', ' ']), rand_tree(rng, depth - 1, top=False)])
        elif depth > 0 and r < 0.53:
            kids.append([A('cat'), rand_tree(rng, depth - 1, top=False), rand_tree(rng, depth - 1, top=False)])
        else:
            kinds = ['expr', 'expr', 'lit', 'kw', 'long'] + (['blank'] if rng.random() < 0.15 else [])
            kids.append([A('s'), rand_item(rng, rng.choice(kinds))])
    return [A('j'), rng.choice(SEPS), rng.random() < 0.6] + kids


def fortran_routine(rng, idx):
    """source of a routine with very long declarations / expressions / argument lists / literals / pragmas"""
    nv = rng.randint(6, 30)
    vs = [f'{rng.choice(NAMES)}_{k}' for k in range(nv)]
    arrs = [f'arr_{k}_{rng.choice(NAMES)}' for k in range(rng.randint(3, 12))]
    dims = rng.choice(['(n)', '(n, m)', '(n, m, 3)'])
    lines = [f'subroutine long_{idx}(n, m, ' + ', '.join(vs) + ', ' + ', '.join(arrs) + ')',
             '  implicit none', '  integer, intent(in) :: n, m',
             '  real(kind=8), intent(inout) :: ' + ', '.join(vs),
             '  real(kind=8), intent(inout) :: ' + ', '.join(a + dims for a in arrs),
             '  character(len=400) :: msg', '  integer :: i, j']

    def ex(d):
        if d <= 0 or rng.random() < 0.25:
            r = rng.random()
            if r < 0.5:
                return rng.choice(vs)
            if r < 0.8:
                return rng.choice(arrs) + {'(n)': '(i)', '(n, m)': '(i, j)', '(n, m, 3)': '(i, j, 1)'}[dims]
            return rng.choice(['1.0d0', '2.5d0', '3', '0.5d0'])
        op = rng.choice([' + ', ' - ', '*', ' / ', '**2 + '])
        a, b = ex(d - 1), ex(d - 1)
        return f'({a}{op}{b})' if rng.random() < 0.4 else (f'max({a}, {b})' if rng.random() < 0.2 else f'{a}{op}{b}')

    def lit():
        q = rng.choice(QUOTES)
        ws = []
        for _ in range(rng.randint(3, 40)):
            w = rng.choice(['it', 'value', 'of', 'x', 'is', 'long', 'message', 'stop', 'a(1)', 'end'])
            if rng.random() < 0.3:
                w += q + q + 's'
            ws.append(w)
        return q + ' '.join(ws) + q

    ind = '  '
    lines.append(ind + 'do i = 1, n')
    lines.append(ind * 2 + 'do j = 1, m')
    for _ in range(rng.randint(2, 5)):
        lines.append(ind * 3 + f'{rng.choice(vs)} = ' + ex(rng.randint(3, 6))
                     + (rng.choice(['', '', '  ! an inline comment that is fairly long ' + 'x' * rng.randint(0, 90)])))
    lines.append(ind * 3 + 'if (' + ' .and. '.join(f'{ex(1)} > {ex(1)}' for _ in range(rng.randint(2, 8))) + ') then')
    lines.append(ind * 4 + f'call sub_{idx}(' + ', '.join(
        rng.choice([ex(1), f'{rng.choice(NAMES)}={ex(1)}', lit()]) for _ in range(rng.randint(5, 25))) + ')')
    lines.append(ind * 3 + 'end if')
    lines.append(ind * 2 + 'end do')
    lines.append(ind + 'end do')
    lines.append(ind + 'msg = ' + lit())
    lines.append(ind + 'msg = ' + ' // '.join(lit() for _ in range(rng.randint(2, 5))))
    lines.append(ind + 'print *, ' + ', '.join(rng.choice([lit(), ex(1)]) for _ in range(rng.randint(2, 9))))
    lines.append(ind + '!$acc parallel loop gang vector private(' + ', '.join(vs) + ') present(' + ', '.join(arrs) + ')')
    lines.append(ind + 'do i = 1, n')
    lines.append(ind * 2 + f'{rng.choice(vs)} = ' + ex(4))
    lines.append(ind + 'end do')
    lines.append(f'end subroutine long_{idx}')
    return '\n'.join(lines) + '\n'


def capture_fgen(rng, nroutines):
    """requests captured while running fgen on generated routines: (requests, skipped, problems)"""
    reqs, skipped = [], 0
    styles = [loki_style.FortranStyle, loki_style.IFSFortranStyle]
    for idx in range(nroutines):
        src = fortran_routine(rng, idx)
        try:
            routine = Subroutine.from_source(src, frontend=Frontend.FP)
        except Exception:                       # generator produced something the frontend rejects
            skipped += 1
            continue
        st = rng.choice(styles)()
        st.linewidth = rng.choice([132, 132, 100, 80, 60])
        with Capture() as cap:
            try:
                fgen(routine, style=st)
            except Exception:
                pass
        skipped += cap.skipped
        for W, cont, tree in cap.strs:
            reqs.append([A('str'), W, cont, tree])
        reqs.extend(cap.fmts)
    return reqs, skipped


# ----------------------------------------------------------------------------- the property

class C04(Prop):
    id = 'C04'
    title = 'Generated Fortran respects free-form line limits without altering tokens'
    model_modules = ['LokiModel.C04.Model']
    props_module = 'LokiModel.Props.C04'
    findings_module = 'LokiModel.Findings.C04'
    driver = 'Drivers/C04.lean'
    theorems = ['C04_patterns_pinned', 'C04_style_widths', 'C04_chunks_lossless', 'C04_width', 'C04_width_ok',
                'C04_str_item', 'C04_str_item_terminates', 'C04_chunk_bounds_outside_literals', 'C04_tokens',
                'C04_unwrap_id_partial', 'C04_former_crash_witness']
    design_ref = 'DESIGN.md 4.A C04'
    level_text = (
        'Lean theorems about a hand-written model that mirrors JoinableStringList (__init__, _add_item_to_line, _to_str, _flat, '
        '__add__/__radd__, the chunker regexes as character scanners) and Stringifier.format_line, after the three fix: commits. '
        'Full strength, for all item trees of any nesting depth, separators, separable flags, widths, continuation strings and '
        'every fuel with which the model terminates: C04_width (every physical line of str(list) is shorter than the width, or '
        'it is cont[1] + one single chunk of the chunker + the head of cont[0], i.e. only an unbreakable over-long chunk exceeds) '
        'and its positive form C04_width_ok. For all strings: C04_chunks_lossless (the chunker drops no character); for all '
        'well-quoted one-line strings: C04_tokens (every chunk boundary is outside the character literals and none separates the '
        'two quotes of a doubled quote: a literal is one chunk) — full strength since the quoted-string pattern was repaired '
        '(formerly C04_tokens_full_false / _partial). C04_str_item (+ _terminates) characterises what happens to a string item. '
        'C04_unwrap_id_partial: for every list of strings (no nesting) str(list) is exactly the joined text cut into pieces '
        'that are joined by cont[0]+cont[1], no character added or dropped; PARTIAL because nested lists are not covered by the '
        'proof. Not proved in Lean: the Fortran lexing step (a blank, parenthesis or quote next to a chunk boundary is a token '
        'boundary), break positions and unwrap identity of nested lists, format_line. These are checked on every generated '
        'input by the correspondence (model output = real str()/format_line output) and by the direct oracle (exact '
        'de-continuation identity against the real code at unbounded width, width statement, and equality of the token sequences '
        'computed by a free-form Fortran lexer with & continuation handling). No open finding: the four classes found by the '
        'build round (doubled-quote-split, split-none-crash, nested-empty-item, nested-rewrap) were repaired.')
    level_note = (
        'Trusted: the hand-written model (tied by correspondence on synthetic lists/trees, format_line calls and every list '
        'captured while fgen prints generated routines), the Python lexer and width oracle, Lean kernel. Modelled, not verified: '
        'all lists of one tree share width and cont (captured trees that do not are skipped and counted); ASCII whitespace for '
        '\\s and rstrip; str.splitlines only for \\n. Fuel: theorems hold for every fuel for which the model returns a value; '
        'termination is proved for string items only (C04_str_item_terminates), the driver uses fuel 10^6. C04_width needs '
        'cont[0] = head + newline (true for the Fortran and pragma continuations, example in Props).')
    technique = 'Lean 4 theorems (induction on fuel / lists) about a hand-written model + correspondence with the real code + direct oracle'
    rule = ('synthetic: flat lists (expressions, keyword arguments, literals of both quote kinds with doubled quotes, blank and '
            'over-long items; seps ", " " " "" " + " "," " // " " :: "; widths 20..132; Fortran, pragma and newline-only '
            'continuations), one-long-item assignments, nested trees up to depth 3 with add/radd/cat, format_line calls with '
            'indent/comment/no_wrap/no_indent/trim flags, edge cases (widths 1..19, odd conts); captured: every top-level '
            'str(JoinableStringList) and every format_line call while fgen prints generated routines with long declarations, '
            'expressions, argument lists, literals and pragmas at line widths 60..132 in both Fortran styles; the chunker alone '
            'on random strings. non-trivial = the real output contains a line break; distinct by request line')
    trusted_base = ['harness/props/c04.py: ftokens/logical_line (free-form lexer), width_failures/breakable_inside, atoms', 'Lean driver evaluation of the model definitions']
    assumptions = ['all JoinableStringList objects of one tree share width and cont (as Stringifier.join_items builds them)',
                   'ASCII text; cont has at most one newline for the width theorem (cont[0] = head + newline)',
                   'items are whole tokens for the token oracle (checked per input, skipped otherwise)']
    extra_obligations = ['oracle: width statement on every physical line of the real output',
                         'oracle: removing cont[0]+cont[1] from the real output gives the real unbounded-width output',
                         'oracle: Fortran token sequence of wrapped = unwrapped real output']

    def classes(self):
        return []      # all four classes found by the build round were repaired by fix: commits

    # ---- tables regenerated from the repo
    def tables(self):
        def lit(s):
            return '"' + s.replace('\\', '\\\\').replace('"', '\\"').replace('\n', '\\n') + '"'
        styles = []
        for name in ('DefaultStyle', 'FortranStyle', 'IFSFortranStyle'):
            o = getattr(loki_style, name)()
            styles.append((name, int(o.linewidth), str(o.indent_char)))
        lc = FortranCodegen(style=loki_style.FortranStyle()).line_cont
        fmt = getattr(lc, '__self__', None)
        if not isinstance(fmt, str):
            fmt = '<not a str.format>'
        # the pragma continuation is an f-string in visit_Pragma: take it from the source
        src = (REPO / 'loki' / 'backend' / 'fgen.py').read_text()
        pragma = '<not found>'
        for node in ast.walk(ast.parse(src)):
            if isinstance(node, ast.Assign) and any(getattr(t, 'id', None) == 'line_cont' for t in node.targets) \
                    and isinstance(node.value, ast.JoinedStr):
                pragma = ''.join(v.value if isinstance(v, ast.Constant) else '{}' for v in node.value.values)
        body = ['/-! generated from /repo by harness/props/c04.py (`PROP.tables()`); do not edit -/',
                'namespace LokiModel.C04.Generated',
                '/-- (style class, linewidth, indent_char) from loki/backend/style.py -/',
                'def styles : List (String × Nat × String) := [' + ', '.join(
                    f'({lit(n)}, {w}, {lit(c)})' for n, w, c in styles) + ']',
                '/-- the format string behind `FortranCodegen.line_cont` (loki/backend/fgen.py) -/',
                f'def fortranLineCont : String := {lit(fmt)}',
                '/-- the f-string `line_cont` of `FortranCodegen.visit_Pragma` with the keyword replaced by `{}` -/',
                f'def pragmaLineCont : String := {lit(pragma)}',
                '/-- `JoinableStringList._pattern_quoted_string.pattern` -/',
                f'def quotedPattern : String := {lit(JoinableStringList._pattern_quoted_string.pattern)}',
                '/-- `JoinableStringList._pattern_chunk_separator.pattern` -/',
                f'def chunkSepPattern : String := {lit(JoinableStringList._pattern_chunk_separator.pattern)}',
                'end LokiModel.C04.Generated', '']
        return {'LokiModel/Generated/C04Tables.lean': '\n'.join(body)}

    # ---- inputs
    def gen(self, rng, tier):
        n = {'quick': 1, 'thorough': 15, 'search': 6}.get(tier, 1)

        def case(req, stream):
            return Case(req, stream=stream, nontrivial=self._wraps(req))

        # (a) synthetic flat lists
        for _ in range(150 * n):
            W = rng.choice([20, 24, 30, 40, 50, 60, 72, 80, 90, 100, 132, rng.randint(20, 132)])
            cont = rng.choice(CONTS)
            kinds = rng.choice([None, ['expr'], ['lit'], ['lit', 'expr'], ['kw', 'expr', 'lit'], ['long', 'expr']])
            sep = rng.choice(SEPS)
            items = rand_flat(rng, None, kinds)
            if sep == '' and rng.random() < 0.8:      # keep item boundaries on token boundaries
                items = [[A('s'), i[1] + rng.choice([' ', ', ', ' + ', ')', '('])] for i in items]
            yield case([A('str'), W, cont, [A('j'), sep, rng.random() < 0.8] + items], 'flat')
        # one very long literal / expression as the only item after a short head (the assignment shape)
        for _ in range(50 * n):
            W = rng.choice([30, 40, 60, 80, 132])
            item = rand_literal(rng, rng.choice([20, 40, 60])) if rng.random() < 0.6 else rand_expr(rng, 6)
            yield case([A('str'), W, rng.choice(CONTS[:4]), [A('j'), '', True, [A('s'), '  '], [A('s'), 'msg'], [A('s'), ' = '],
                                                              [A('s'), item]]], 'long-item')
        # (a) nested lists, __add__/__radd__
        for _ in range(140 * n):
            W = rng.choice([20, 30, 40, 60, 80, 100, 132, rng.randint(20, 132)])
            yield case([A('str'), W, rng.choice(CONTS), rand_tree(rng, rng.choice([1, 1, 1, 1, 2, 2, 3]))], 'nested')
        # the statement shape fgen produces: indent, keyword, '(', argument list, ')'
        for _ in range(80 * n):
            W = rng.choice([40, 60, 80, 100, 132])
            depth = rng.choice([0, 2, 4, 8, 30])
            args = [A('j'), ', ', True] + rand_flat(rng, rng.randint(1, 25), ['expr', 'kw', 'lit', 'expr'])
            head = rng.choice([['CALL ', 'sub', '('], ['REAL(KIND=8), INTENT(IN) :: '], ['x = f('], ['IF ('], ['ALLOCATE (']])
            tail = rng.choice([[')'], [') THEN'], [], [' ']])
            items = [[A('s'), h] for h in head] + [args] + [[A('s'), t] for t in tail]
            comment = rng.choice([A('none'), A('none'), '  ! trailing comment ' + 'c' * rng.randint(0, 120), ''])
            yield case([A('fmt'), W, ' &\n{}& ', depth, items, comment, rng.random() < 0.1, rng.random() < 0.1,
                        rng.random() < 0.85], 'format_line')
        # edge cases: tiny widths, odd continuation strings, empty items
        for _ in range(60 * n):
            W = rng.randint(1, 19)
            cont = rng.choice(CONTS + ['', 'xx', '\n\n', 'a\nb\nc', ' &\n' + ' ' * rng.randint(0, 25) + '& ', '~~\n'])
            t = rand_tree(rng, rng.choice([0, 1, 2])) if rng.random() < 0.6 else \
                [A('j'), rng.choice(SEPS), True] + rand_flat(rng, None, ['blank', 'expr', 'blank', 'lit'])
            yield case([A('str'), W, cont, t], 'edge')
        # chunker alone
        for _ in range(60 * n):
            s = rng.choice([rand_expr(rng, 3), rand_literal(rng), rand_expr(rng, 1) + ' ' + rand_literal(rng) + rand_expr(rng, 1),
                            ''.join(rng.choice('ab \'")%(,') for _ in range(rng.randint(0, 14)))])
            yield Case([A('chunks'), s], stream='chunks', nontrivial=True)
        # (b) captured from fgen on generated routines
        reqs, skipped = capture_fgen(rng, {'quick': 4, 'thorough': 40, 'search': 12}.get(tier, 4))
        seen = set()
        plain = 0
        for r in reqs:
            line = dumps(r)
            if line in seen:
                continue
            seen.add(line)
            nt = self._wraps(r)
            if not nt:
                plain += 1
                if plain > 40 * n:
                    continue
            yield Case(r, stream='fgen-' + str(r[0]), nontrivial=nt)

    def _wraps(self, req):
        try:
            r = self.impl(req)
            return len(r) > 1 and isinstance(r[1], str) and '\n' in r[1]
        except Exception:
            return False

    # ---- real code
    def _obj(self, req, W=None):
        W = int(req[1]) if W is None else W
        obj = build(req[3], W, str(req[2]))
        if not isinstance(obj, JoinableStringList):
            raise ValueError('top level must be a list')
        return obj

    def _fmt(self, req, W=None):
        """returns (text, cont, comment, item objects)"""
        W = int(req[1]) if W is None else W
        cf, depth = str(req[2]), int(req[3])
        if not _isstr(req[2]) or not isinstance(req[4], list):
            raise ValueError('malformed fmt request')
        st = Stringifier(style=loki_style.DefaultStyle(linewidth=W, indent_char=' '), depth=depth, line_cont=cf.format)
        cont = cf.format(st.indent)
        items = [build(t, W, cont) for t in req[4]]
        comment = None if (isinstance(req[5], A) and str(req[5]) == 'none') else str(req[5])
        out = st.format_line(*items, comment=comment, no_wrap=str(req[6]) == 'true', no_indent=str(req[7]) == 'true',
                             trim_spaces=str(req[8]) == 'true')
        return out, cont, comment, items

    def impl(self, req):
        req = loads(dumps(req))      # canonical form (python bools -> atoms), as on replay
        op = str(req[0])
        try:
            if op == 'str':
                return [A('ok'), str(self._obj(req))]
            if op == 'fmt':
                return [A('ok'), self._fmt(req)[0]]
            if op == 'chunks':
                # the chunk_list construction of _add_item_to_line, re-run with the class's compiled patterns
                s = str(req[1])
                q, sp = JoinableStringList._pattern_quoted_string, JoinableStringList._pattern_chunk_separator
                cl, off = [], 0
                for m in q.finditer(s):
                    if m.start() > off:
                        cl += sp.split(s[off:m.start()])
                    cl += [m[0]]
                    off = m.end()
                if off < len(s):
                    cl += sp.split(s[off:])
                return [A('ok')] + cl
        except AssertionError:
            return [A('error'), A('assertion')]
        except AttributeError:
            return [A('error'), A('attributeerror')]
        raise ValueError(op)

    # ---- direct oracle on the real code
    def oracle(self, req):
        req = loads(dumps(req))
        op = str(req[0])
        fails = []
        if op == 'chunks':
            return []
        W = int(req[1])
        try:
            if op == 'str':
                obj = self._obj(req)
                out = str(obj)
                ref = str(wide(obj))
                c0, c1 = obj.cont
                objs = [obj]
                exempt = False
                trim = False
                nowrap = False
            else:
                out, cont, comment, items = self._fmt(req)
                ref = self._fmt(req, WIDE)[0]
                c0, c1 = JoinableStringList([], '', W, cont).cont
                # format_line puts the items (and the indent) into one list: nested lists are non-root
                objs = [JoinableStringList(items, '', W, cont)]
                exempt = bool(comment)
                nowrap = str(req[6]) == 'true'
                trim = str(req[8]) == 'true' and not exempt
        except AssertionError:
            return []       # the constructor refuses this width/cont
        except AttributeError as e:
            return [Failure(f'str() of the list raised AttributeError: {e}')]
        # 1 width
        # (no_wrap: the caller asked for the items to be concatenated as they are; no width statement)
        for f in ([] if nowrap else width_failures(out, W, c0, c1, exempt_last=exempt)):
            fails.append(Failure(f))
        # 2 removing the continuation markers gives the unwrapped text
        if (c0 + c1) not in ref:
            un, un_ref = out.replace(c0 + c1, ''), ref
            if trim:
                # a blank-only last item that was wrapped onto its own line leaves a bare continuation behind once
                # format_line strips the blanks (outside this property's statement; see notes/C04.md)
                bare = (c0 + c1).rstrip()
                if bare and out.endswith(bare):
                    un = out[:len(out) - len(bare)].replace(c0 + c1, '')
                un, un_ref = un.rstrip(), ref.rstrip()
            if un != un_ref:
                fails.append(Failure('removing the continuation markers does not give the unwrapped text: '
                                     f'{un[:80]!r} vs {un_ref[:80]!r}'))
        # 3 same Fortran tokens (when the items are whole tokens: the token sequence of the unwrapped text is the
        #   concatenation of the token sequences of the leaf strings and separators)
        if fortran_cont(c0, c1) and '\n' not in ref:
            at = [a for o in objs for a in atoms(o)]
            tb = ftokens(ref)
            if ''.join(at).rstrip() == (ref[:len(ref) - len(comment)] if (op == 'fmt' and exempt) else ref).rstrip() \
                    and [t for a in at for t in ftokens(a)] == ftokens(''.join(at)):
                ta = ftokens(out)
                if ta != tb:
                    k = next((i for i, (x, y) in enumerate(zip(ta, tb)) if x != y), min(len(ta), len(tb)))
                    fails.append(Failure(f'token sequence changed by wrapping at token {k}: {ta[k:k + 3]} vs {tb[k:k + 3]}'))
        return fails


PROP = C04()
READY = True
