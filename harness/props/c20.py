"""C20 — recorded source locations match the original text.

Requests:
    (reader (lines "l1" ...))              FortranReader: statement lines, spans, source_from_current_line strings
    (span "string" l1 a b)                 Source((l1, l1+#nl), string).clone_with_span((a, b))
    (join (l1 l2 "s") ...)                 join_source_list
    (file (lines "l1" ...))                oracle-only: every node with `source` from FP and REGEX (model answers (ok file))

oracle (real objects): for every IR node carrying `source` produced by the REGEX and the FP frontend on the file:
lines lie within the file; REGEX: `string` equals the file text at those lines (inline-IF pieces: is contained and the
call piece starts with CALL); FP: `string` is contained in the text of those lines modulo case/blanks (comment blocks
line by line).  Reader requests: the span of every statement covers exactly the physical lines it was read from.
"""
import logging
import re

from loki import Sourcefile, FindNodes, Module, Subroutine
from loki.ir import nodes as ir
from loki.frontend import REGEX, FP
from loki.frontend.source import Source, FortranReader, join_source_list
import loki.logging as llog

from ..core import Prop, Case, Failure
from ..sexpr import A, dumps
from . import c19

llog.set_log_level(logging.ERROR)


def norm(s):
    return re.sub(r'\s+', '', s.lower())


def all_nodes(sf):
    out = []

    def rec_unit(u):
        out.append(u)
        for part in (u.docstring, u.spec, getattr(u, 'body', None), u.contains):
            if part is None:
                continue
            for n in FindNodes(ir.Node).visit(part):
                out.append(n)
                if isinstance(n, ir.Interface):
                    for b in n.body:
                        if isinstance(b, Subroutine):
                            rec_unit(b)
        for c in (u.contains.body if u.contains else []):
            if isinstance(c, (Subroutine, Module)):
                rec_unit(c)

    for n in sf.ir.body:
        if isinstance(n, (Module, Subroutine)):
            rec_unit(n)
        else:
            out.append(n)
    return out


def check_nodes(text, fe):
    """[(kind, node type, lines, detail)] for every node whose recorded location does not match the file"""
    flines = text.split('\n')
    nonblank = [i + 1 for i, l in enumerate(flines) if l.strip()]
    first_nb, last_nb = (nonblank[0], nonblank[-1]) if nonblank else (1, 1)
    sf = Sourcefile.from_source(text, frontend=fe)
    bad = []
    nodes = all_nodes(sf)

    def rng_of(n):
        src = getattr(n, 'source', None)
        if src is None or src.string is None:
            return None
        a, b = src.lines
        return a, (b or a)

    # REGEX: the two pieces of an inline-IF call (RawSource with the condition, CallStatement) are produced with
    # clone_with_span from one statement: together they must be exactly the text of their joint line range
    pair = {}
    if fe == REGEX:
        for r, c in zip(nodes, nodes[1:]):
            if type(r).__name__ == 'RawSource' and type(c).__name__ == 'CallStatement' and rng_of(r) and rng_of(c):
                (ra, rb), (ca, cb) = rng_of(r), rng_of(c)
                if 1 <= ra <= cb <= len(flines) and ra <= ca and r.source.string + c.source.string == '\n'.join(flines[ra - 1:cb]):
                    pair[id(r)] = pair[id(c)] = True
    # FP: statements inside the body of an inline IF
    inline_body = set()
    if fe == FP:
        for n in nodes:
            if isinstance(n, ir.Conditional) and n.inline:
                for m in n.body:
                    inline_body.add(id(m))
    for n in nodes:
        if rng_of(n) is None:
            continue
        src = n.source
        a, b = rng_of(n)
        tn = type(n).__name__
        if not 1 <= a <= b <= len(flines):
            bad.append(('range', tn, src.lines, ''))
            continue
        region = '\n'.join(flines[a - 1:b])
        if fe == REGEX:
            if id(n) in pair:
                if src.string not in region:
                    bad.append(('text', tn, src.lines, src.string[:50] + ' <> ' + region[:50]))
                elif tn == 'CallStatement' and not src.string.lstrip().lower().startswith('call'):
                    bad.append(('inline-if', tn, src.lines, src.string[:40]))
                continue
            # exact: the recorded string IS the text of the recorded lines (source.strip() drops the outer blanks of
            # the whole file, so nodes touching the first/last non-blank line are compared modulo outer blanks)
            ok = src.string == region or ((a <= first_nb or b >= last_nb) and src.string.strip() == region.strip())
        elif tn == 'CommentBlock' and src.string.count('\n') == b - a:
            ok = all(norm(x) in norm(y) for x, y in zip(src.string.split('\n'), flines[a - 1:b]))
        elif id(n) in inline_body:
            # action statement of an inline IF: its text stands verbatim in exactly the recorded lines
            ok = src.string.strip() in region and b - a == src.string.strip('\n').count('\n')
        else:
            ok = norm(src.string) in norm(region)
        if not ok:
            bad.append(('text', tn, src.lines, src.string[:50] + ' <> ' + region[:50]))
    return bad


def has_inline_if_call(text):
    for s in c19.reader_stmts(text):
        t = c19.toks(s[0])
        if t[:2] == ['if', '('] and 'call' in t:
            return True
    return False


FEATS20 = dict(c19.FEATS, p_inline_if=0.4, p_internal=0.5)
LAYOUTS20 = {
    'ifcont': dict(case='lower', p_break=0.04, p_semi=0.0, p_comment=0.3, p_inline=0.15, indent=2, p_ifbreak=0.8, p_head=0.3),
    'heads': dict(case='mixed', p_break=0.0, p_semi=0.0, p_comment=0.1, p_inline=0.05, indent=2, p_ifbreak=0.3, p_head=0.9),
}


class C20(Prop):
    id = 'C20'
    title = 'Recorded source locations match the original text'
    model_modules = ['LokiModel.C19.Reader', 'LokiModel.C20.Model']
    props_module = 'LokiModel.Props.C20'
    findings_module = 'LokiModel.Findings.C20'
    driver = 'Drivers/C20.lean'
    theorems = ['C20_clone_with_span_within', 'C20_clone_with_string_within', 'C20_join_hull', 'C20_join_two_consistent',
                'C20_reader_span_ok']
    design_ref = 'DESIGN.md 4.C C20'
    level = 'proof'
    level_text = ('Theorems (Lean kernel): C20_clone_with_span_within — for every consistent Source and every a <= b the clone lies '
                  'inside the parent lines, is consistent and its text occurs in the parent text at that offset; '
                  'C20_clone_with_string_within — the same for clone_with_string whenever find succeeds (the search itself is '
                  'evaluated on the real objects only); C20_join_hull / C20_join_two_consistent — join_source_list spans the hull '
                  'and keeps text/line consistency for non-overlapping inputs; C20_reader_span_ok — every statement span of the '
                  'reader model is well formed. NOT proved: span_sound in the form "re-reading the lines of a span gives the '
                  'statement text" — it is checked by correspondence (reader model vs FortranReader on every generated file: text, '
                  'span, source_from_current_line string) and by the direct oracle on every node of FP and REGEX trees.')
    level_note = ('Partial for the FP frontend: fparser\'s own line bookkeeping is not modelled; FP nodes are covered by the oracle only. '
                  'find() (case/blank-insensitive search) is not modelled, its result is a parameter of cloneWithString.')
    technique = 'Lean 4 theorems about a hand-written model of Source/FortranReader + correspondence + oracle on real IR nodes'
    rule = ('generated multi-unit files of C19 (6 layouts: continuation lines, semicolons, comments, case, labels, strings with keywords), '
            'with and without leading blank lines; random clone_with_span / join_source_list requests; non-trivial = file has a '
            'continuation or a ;-joined line; distinct by request line')
    trusted_base = ['harness/props/c19.py generator and renderer', 'harness/props/c20.py node walker (all_nodes) and text normalisation']
    assumptions = ['free-form sources without tab characters, INCLUDE lines or backslash-continued cpp directives',
                   'FP frontend: oracle only (containment modulo case/blanks)']
    extra_obligations = ['oracle: node.source lines/string vs file text for FP and REGEX', 'reader spans vs FortranReader']

    def gen(self, rng, tier):
        n = {'quick': 15, 'thorough': 300, 'search': 100}.get(tier, 15)
        for i in range(n):
            if i % 3 == 2:
                # inline IFs with the action on a continuation line, comment/blank lines at the head of nested sections
                prog = c19.gen_prog(rng, FEATS20)
                lname = ['ifcont', 'heads'][(i // 3) % 2]
                lines = c19.render(rng, prog, LAYOUTS20[lname])
            else:
                prog = c19.gen_prog(rng, c19.FEATS)
                lname = list(c19.LAYOUTS)[i % len(c19.LAYOUTS)]
                lines = c19.render(rng, prog, c19.LAYOUTS[lname])
            if i % 5 == 4:
                lines = [''] * rng.randint(1, 2) + lines + ['']
            nt = any(l.rstrip().endswith('&') or ';' in l for l in lines)
            yield Case([A('reader'), [A('lines')] + lines], stream='reader-' + lname, nontrivial=nt)
            yield Case([A('file'), [A('lines')] + lines], stream='file-' + lname, nontrivial=nt)
        m = {'quick': 150, 'thorough': 3000, 'search': 1000}.get(tier, 150)
        alphabet = ['a', 'b ', '\n', 'call x', '\n\n', ' & ', '! c']
        for _ in range(m):
            t = ''.join(rng.choice(alphabet) for _ in range(rng.randint(0, 8)))
            a = rng.randint(0, len(t) + 1)
            b = rng.randint(a, len(t) + 2)
            yield Case([A('span'), t, rng.randint(1, 50), a, b], stream='span', nontrivial='\n' in t)
            srcs, l = [], rng.randint(1, 5)
            for _ in range(rng.randint(0, 4)):
                s_ = ''.join(rng.choice(alphabet) for _ in range(rng.randint(0, 4)))
                srcs.append([l, l + s_.count('\n'), s_])
                l = l + s_.count('\n') + rng.randint(0, 3)
            yield Case([A('join')] + srcs, stream='join', nontrivial=len(srcs) > 1)

    def impl(self, req):
        op = c19.head(req)
        if op == 'reader':
            lines = [str(l) for l in req[1][1:]]
            text = '\n'.join(lines)
            off = len(text) - len(text.lstrip())
            off = text[:off].count('\n')
            r = FortranReader(text)
            out = []
            for line in r:
                out.append([line.line, line.span[0], line.span[1], r.source_from_current_line().string])
            return [A('ok'), [A('offset'), off], [A('stmts')] + out]
        if op == 'span':
            t, l1, a, b = str(req[1]), int(str(req[2])), int(str(req[3])), int(str(req[4]))
            r = Source((l1, l1 + t.count('\n')), t).clone_with_span((a, b))
            return [A('ok'), r.lines[0], r.lines[1], r.string]
        if op == 'join':
            srcs = [Source((int(str(x[0])), int(str(x[1]))), str(x[2])) for x in req[1:]]
            r = join_source_list(srcs)
            if r is None:
                return [A('ok'), A('none')]
            return [A('ok'), r.lines[0], r.lines[1], r.string]
        if op == 'file':
            return [A('ok'), A('file')]
        raise ValueError(op)

    def canon_model(self, resp):
        return resp

    def oracle(self, req):
        op = c19.head(req)
        fails = []
        if op == 'reader':
            lines = [str(l) for l in req[1][1:]]
            text = '\n'.join(lines)
            stripped = text.strip().split('\n')
            r = FortranReader(text)
            for k, line in enumerate(r):
                a, b = line.span
                if not 1 <= a <= b <= len(stripped):
                    fails.append(Failure(f'statement span {line.span} outside the source'))
                    continue
                src = r.source_from_current_line()
                if src.string != '\n'.join(stripped[a - 1:b]) or src.lines != line.span:
                    fails.append(Failure(f'source_from_current_line {src.lines} does not hold the text of lines {line.span}'))
                # the statement text is what a fresh reader produces from exactly those lines
                # (a plain first line keeps fparser's format detection away from a leading statement label)
                if a == b and ';' not in stripped[a - 1] and k % 7:
                    continue
                again = [x.line for x in FortranReader('dummy = 0\n' + '\n'.join(stripped[a - 1:b])).sanitized_lines]
                if line.line not in again:
                    fails.append(Failure(f'statement {line.line!r} is not what the lines {line.span} sanitise to: {again}'))
        elif op == 'file':
            lines = [str(l) for l in req[1][1:]]
            text = '\n'.join(lines)
            if c19.known_classes(text):
                return []
            lead = bool(lines) and not lines[0].strip()
            for fe in (REGEX, FP):
                try:
                    bad = check_nodes(text, fe)
                except Exception as e:  # noqa
                    return [Failure(f'{fe} frontend raised {type(e).__name__}: {str(e)[:100]}', error=True)]
                for kind, tn, ln, detail in bad[:3]:
                    if kind == 'inline-if':
                        cls = 'inline-if-call-split'
                    elif fe == REGEX and lead:
                        cls = 'leading-blank-lines'
                    else:
                        cls = None
                    fails.append(Failure(f'{fe}: {tn} at lines {ln}: {kind} {detail!r}', cls))
        elif op == 'span':
            t, l1, a, b = str(req[1]), int(str(req[2])), int(str(req[3])), int(str(req[4]))
            p = Source((l1, l1 + t.count('\n')), t)
            r = p.clone_with_span((a, b))
            if not (p.lines[0] <= r.lines[0] <= r.lines[1] <= p.lines[1]) or r.string not in t \
                    or r.lines[1] - r.lines[0] != r.string.count('\n'):
                fails.append(Failure(f'clone_with_span({a},{b}) of {p.lines} gives {r.lines} {r.string!r}'))
        elif op == 'join':
            srcs = [Source((int(str(x[0])), int(str(x[1]))), str(x[2])) for x in req[1:]]
            r = join_source_list(srcs)
            if srcs and (r.lines[0] != srcs[0].lines[0] or r.lines[1] != srcs[-1].lines[1]
                         or r.lines[1] - r.lines[0] != r.string.count('\n')):
                fails.append(Failure(f'join_source_list gives {r.lines} with {r.string.count(chr(10))} newlines'))
        return fails

    def classes(self):
        return ['leading-blank-lines', 'inline-if-call-split']


PROP = C20()
READY = True
