"""C33 — region outlining (`outline_pragma_regions`) and extraction of internal procedures preserve behaviour."""
import random as _random

from ..core import Prop, Case, Failure, REPO
from ..sexpr import A, dumps, loads
from .. import fir

START = 'loki outline'
END = 'loki end outline'

K_CALL = 'outline-call-in-region'
K_OVR = 'outline-override-array'
K_PRINT = 'outline-print-var'
K_SHAPE = 'outline-shape-symbol'
K_LVIN = 'outline-loopvar-intent-in'
K_LIVE = 'outline-local-live'
K_OUT = 'outline-out-maybe-undefined'
K_EXT = 'extract-keyword-call-external'
CLASS_ORDER = [K_CALL, K_OVR, K_PRINT, K_SHAPE, K_LVIN, K_LIVE, K_OUT]


def h(x):
    return str(x[0]) if isinstance(x, list) and x else None


def units(prog):
    return prog[2:]


def main_unit(prog):
    m = str(prog[1])
    for u in units(prog):
        if str(u[1]) == m:
            return u
    raise ValueError('no main unit')


def is_comment(s):
    return h(s) == 'nop' and str(s[1]) == 'comment'


def norm_prog(prog):
    """normalisation of the correspondence: comment nops dropped (Loki turns blank lines into comments)"""
    return fir.canon(fir.map_program(fir.canon(prog), fs=lambda ss: [s for s in ss if not is_comment(s)]))


def sub_lists(s):
    k = h(s)
    if k == 'do':
        return [s[5]]
    if k == 'while':
        return [s[2]]
    if k == 'if':
        return [s[2], s[3]]
    if k == 'select':
        return [c[1] for c in s[2]] + [s[3]]
    if k == 'assoc':
        return [s[2]]
    return []


# ---------------------------------------------------------------- mirrors of the Lean definitions (LokiModel/C33/Model.lean)

def ex_vars(e):
    """Lean: exVars (list with repetitions, order irrelevant for the uses made here)"""
    if not isinstance(e, list):
        return []
    k = h(e)
    if k == 'v':
        return [str(e[1])]
    if k in ('idx', 'sec'):
        return [str(e[1])] + [x for c in e[2:] for x in ex_vars(c)]
    if k == 'call':
        return [x for c in e[2:] for x in ex_vars(c)]
    if k in ('i', 'r', 'b'):
        return []
    return [x for c in e[1:] for x in ex_vars(c)]      # neg not bin(op a b) at rng


def lhs_sub_vars(e):
    return [x for c in e[2:] for x in ex_vars(c)] if h(e) in ('idx', 'sec') else []


def stmt_vars(s):
    """Lean: stmtVars — FindVariables over a statement; PRINT is text for Loki"""
    k = h(s)
    if k == 'assign':
        return ex_vars(s[1]) + ex_vars(s[2])
    if k == 'do':
        return [str(s[1])] + ex_vars(s[2]) + ex_vars(s[3]) + ex_vars(s[4]) + body_vars(s[5])
    if k == 'while':
        return ex_vars(s[1]) + body_vars(s[2])
    if k == 'if':
        return ex_vars(s[1]) + body_vars(s[2]) + body_vars(s[3])
    if k == 'select':
        return ex_vars(s[1]) + [x for c in s[2] for x in body_vars(c[1])] + body_vars(s[3])
    if k == 'assoc':
        return [x for b in s[1] for x in ex_vars(b[1])] + body_vars(s[2])
    if k == 'callsub':
        return [str(s[1])] + [x for a in s[2:] for x in ex_vars(a)]
    return []


def body_vars(ss):
    return [x for s in ss for x in stmt_vars(s)]


def print_vars(ss):
    out = []
    for s in ss:
        if h(s) == 'print':
            out += [x for a in s[1:] for x in ex_vars(a)]
        for l in sub_lists(s):
            out += print_vars(l)
    return out


def loop_vars(ss):
    out = []
    for s in ss:
        if h(s) == 'do':
            out.append(str(s[1]))
        for l in sub_lists(s):
            out += loop_vars(l)
    return out


def has_kind(ss, kind):
    return any(h(s) == kind or any(has_kind(l, kind) for l in sub_lists(s)) for s in ss)


def live_in(x, ss):
    """Lean: liveIn — True: may be read first, False: surely overwritten first, None: falls through"""
    for s in ss:
        r = live_in_s(x, s)
        if r is not None:
            return r
    return None


def _join(a, b):
    if a is True or b is True:
        return True
    if a is False and b is False:
        return False
    return None


def live_in_s(x, s):
    k = h(s)
    if k == 'assign':
        if x in ex_vars(s[2]) or x in lhs_sub_vars(s[1]):
            return True
        if h(s[1]) == 'v' and str(s[1][1]) == x:
            return False
        return None
    if k == 'do':
        if x in ex_vars(s[2]) + ex_vars(s[3]) + ex_vars(s[4]):
            return True
        if str(s[1]) == x:
            return False
        return True if live_in(x, s[5]) is True else None
    if k == 'while':
        if x in ex_vars(s[1]):
            return True
        return True if live_in(x, s[2]) is True else None
    if k == 'if':
        if x in ex_vars(s[1]):
            return True
        return _join(live_in(x, s[2]), live_in(x, s[3]))
    if k == 'select':
        if x in ex_vars(s[1]):
            return True
        r = False
        for c in reversed(s[2]):
            r = _join(live_in(x, c[1]), r)
        return _join(r, live_in(x, s[3]))
    if k == 'assoc':
        if any(x in ex_vars(b[1]) for b in s[1]):
            return True
        return True if live_in(x, s[2]) is True else None
    if k == 'callsub':
        return True if any(x in ex_vars(a) for a in s[2:]) else None
    if k == 'print':
        return True if any(x in ex_vars(a) for a in s[1:]) else None
    return None


def live_after(dummies, k, x):
    r = live_in(x, k)
    return r if r is not None else x in dummies


def must_def(x, ss):
    for s in ss:
        k = h(s)
        if k == 'assign' and h(s[1]) == 'v' and str(s[1][1]) == x:
            return True
        if k == 'do' and str(s[1]) == x:
            return True
        if k == 'if' and must_def(x, s[2]) and must_def(x, s[3]):
            return True
    return False


def parse_start(text):
    """Lean: parseStart"""
    ws = [w for w in text.split(' ') if w]
    if ws[:2] != ['loki', 'outline']:
        return None
    kv = {}
    for w in ws[2:]:
        key, _, rest = w.partition('(')
        kv.setdefault(key, rest.split(')')[0])
    lst = lambda k: [x for x in kv.get(k, '').split(',') if x]
    return dict(name=kv.get('name'), pin=lst('in'), pinout=lst('inout'), pout=lst('out'))


def start_of(s):
    return parse_start(str(s[2])) if h(s) == 'nop' and str(s[1]) == 'pragma' else None


def is_end(s):
    return h(s) == 'nop' and str(s[1]) == 'pragma' and [w for w in str(s[2]).split(' ') if w] == ['loki', 'end', 'outline']


def find_regions(prog):
    """Lean: olStmts — the regions of the main unit in creation order: dicts(hdr, body, k = continuation, name), and
    the flag `bad` (ASSOCIATE in or around a region)"""
    u = main_unit(prog)
    regions = []
    state = dict(bad=False)

    def stmts(ss, k):
        i = 0
        while i < len(ss):
            s = ss[i]
            hd = start_of(s)
            if hd is not None:
                ends = [j for j in range(i + 1, len(ss)) if is_end(ss[j])]
                if ends:
                    j = ends[0]
                    body = ss[i + 1:j]
                    name = hd['name'] or f'{u[1]}_outlined_{len(regions)}'
                    regions.append(dict(hdr=hd, body=body, k=ss[j + 1:] + k, name=name))
                    if has_kind(body, 'assoc') or has_marker(body):
                        state['bad'] = True
                    i = j + 1
                    continue
                i += 1
                continue
            kk = ss[i + 1:] + k
            kind = h(s)
            if kind in ('do', 'while'):
                stmts(sub_lists(s)[0], [s] + kk)
            elif kind == 'assoc':
                n0 = len(regions)
                stmts(s[2], kk)
                if len(regions) != n0:
                    state['bad'] = True
            else:
                for l in sub_lists(s):
                    stmts(l, kk)
            i += 1

    stmts(u[4], [])
    return regions, state['bad']


def decl_map(u):
    out = {}
    for d in u[3]:
        out.setdefault(str(d[1]), d)
    return out


def syntactic_classes(prog):
    """classes decided on the original program alone (those that put a program outside the modelled class)"""
    u = main_unit(prog)
    dm = decl_map(u)
    regions, bad = find_regions(prog)
    cs = []
    for r in regions:
        if has_kind(r['body'], 'callsub') and K_CALL not in cs:
            cs.append(K_CALL)
        hd = r['hdr']
        bv = body_vars(r['body'])
        if any(x in dm and dm[x][4] and x in bv for x in hd['pin'] + hd['pinout'] + hd['pout']) and K_OVR not in cs:
            cs.append(K_OVR)
    return [c for c in CLASS_ORDER if c in cs], regions, bad


def classes_from_real(prog, tp, regions):
    """the remaining classes, decided on the REAL outlined units (arguments, intents, locals as Loki made them) and the
    continuation of each region in the original program"""
    u = main_unit(prog)
    dm = decl_map(u)
    dummies = [str(a) for a in u[2]]
    cs = []
    for r in regions:
        ou = fir.find_unit(tp, r['name'])
        if ou is None:
            continue
        args = [str(a) for a in ou[2]]
        decls = ou[3]
        names = [str(d[1]) for d in decls]
        intent = {str(d[1]): str(d[3]) for d in decls}
        scalar_args = [str(d[1]) for d in decls if str(d[1]) in args and not d[4]]
        body = r['body']
        if any(x not in names for x in print_vars(body)):
            cs.append(K_PRINT)
        if any(x not in scalar_args for d in decls for b in d[4] for x in ex_vars(b[0]) + ex_vars(b[1])):
            cs.append(K_SHAPE)
        if any(v in args and intent.get(v) == 'in' for v in loop_vars(body)):
            cs.append(K_LVIN)
        local = [x for x in names if x not in args]
        if any(fir._is_none(dm[x][5]) and live_after(dummies, r['k'], x) for x in local if x in dm):
            cs.append(K_LIVE)
        for x in args:
            if intent.get(x) == 'out':
                li = live_in(x, body)
                if li is True or (li is None and live_after(dummies, r['k'], x)):
                    cs.append(K_OUT)
                    break
    return [c for c in CLASS_ORDER if c in cs]


# ---------------------------------------------------------------- the real transformation

class TransformError(Exception):
    pass


def recase_text(text, names, rng, style='mixed'):
    """Fortran is case-insensitive: respell every OCCURRENCE of the given names (whole words, code lines only: comment and
    pragma lines are left alone) independently — 'mixed': each occurrence upper or lower at random; 'upper': all upper"""
    import re
    if not names:
        return text
    pat = re.compile(r'(?<![A-Za-z0-9_.])(' + '|'.join(sorted((re.escape(n) for n in names), key=len, reverse=True))
                     + r')(?![A-Za-z0-9_])', re.I)

    def sub(m):
        w = m.group(1)
        if style == 'upper' or rng.random() < 0.5:
            return w.upper()
        return w.lower()
    out = []
    for line in text.split('\n'):
        out.append(line if line.lstrip().startswith('!') else pat.sub(sub, line))
    return '\n'.join(out)


def _parse(prog, case=0):
    text = fir.emit_fortran(prog, wrap_program=False)
    if case:
        names = {str(d[1]) for u in units(prog) for d in u[3]} | {str(u[1]) for u in units(prog) if str(u[1]) != str(prog[1])}
        text = recase_text(text, names, _random.Random(case))
    return fir.parse_fortran(text)


_CACHE = {}


def real_outline(prog, case=0):
    """cached front end of `_real_outline` (impl, classifier and oracle ask for the same program); `case` != 0: the source
    text handed to Loki has every name occurrence respelled in random letter case (seed `case`)"""
    key = dumps(prog) + f'#{case}'
    if key not in _CACHE:
        if len(_CACHE) > 64:
            _CACHE.clear()
        try:
            _CACHE[key] = ('ok', _real_outline(prog, case))
        except Exception as e:
            _CACHE[key] = ('exc', e)
    tag, val = _CACHE[key]
    if tag == 'exc':
        raise val
    return val


def _real_outline(prog, case=0):
    """(transformed program in wire form, fgen text of the whole file).  Errors of the harness printer / the frontend
    propagate; errors of the transformation and of fgen raise TransformError; a transformed IR outside FIR raises
    fir.Unsupported."""
    from loki import fgen
    from loki.transformations.extract import ExtractTransformation
    sf = _parse(prog, case)
    try:
        fir.export_unit(sf, main=fir.prog_main(prog))
    except fir.Unsupported as e:
        raise ValueError(f'request program is outside FIR after parsing: {e.kind}') from e
    try:
        text0 = fgen(sf.ir)
    except Exception:
        text0 = None
    try:
        ExtractTransformation(extract_internals=False, outline_regions=True).transform_file(sf)
        text = fgen(sf.ir)
    except Exception as e:
        raise TransformError(f'{type(e).__name__}: {str(e)[:120]}') from e
    return fir.export_unit(sf, main=fir.prog_main(prog)), (text, text0)


# ---------------------------------------------------------------- strict INTENT(OUT) interpreter

class StrictInterp(fir.Interp):
    """the reference interpreter with the standard's rule for INTENT(OUT) (F2018 19.6.6 (14)/(24)): when a procedure is invoked,
    the actual argument of an INTENT(OUT) dummy becomes undefined.  By-reference implementations (and `Sem.lean`) keep the old
    value, which hides a dummy that is OUT but not assigned on every path."""

    def exec_call(self, f, s, st):
        u = self.units.get(str(s[1]))
        if u is not None and len(u[2]) == len(s) - 2:
            intent = {}
            for d in u[3]:
                intent.setdefault(str(d[1]), str(d[3]))
            for x, a in zip(u[2], s[2:]):
                if intent.get(str(x)) == 'out' and h(a) == 'v' and st.loc(str(a[1])) is None:
                    c = st.cell(str(a[1]))
                    if c is not None:
                        c.data = [None] * len(c.data)
        return super().exec_call(f, s, st)


def strict_interp(prog, inputs, fuel=100000):
    return StrictInterp(prog).run_main(inputs, fuel)


# ---------------------------------------------------------------- generator

GEN_CFG = dict(max_stmts=16, max_depth=3, symbolic_prob=0.35, n_callees=(0, 1), pragmas=('omp simd', 'loki foo'),
               n_scalars=(2, 5), n_arrays=(1, 3),
               weights={'assoc': 0, 'call': 2, 'print': 5, 'do': 14, 'if': 10, 'select': 2, 'while': 2, 'exit': 1, 'cycle': 1,
                        'pragma': 1, 'comment': 1, 'assign_scalar': 20, 'accumulate': 5})


def has_marker(ss):
    """Lean: hasMarker — an outline start / end pragma somewhere in ss"""
    return any(start_of(s) is not None or is_end(s) or any(has_marker(l) for l in sub_lists(s)) for s in ss)


def escapes(ss):
    """an EXIT / CYCLE in ss that belongs to a loop outside ss"""
    for s in ss:
        k = h(s)
        if k in ('exit', 'cycle'):
            return True
        if k in ('if', 'select', 'assoc') and any(escapes(l) for l in sub_lists(s)):
            return True
    return False


def _lists(ss, depth=0, in_assoc=False):
    """all statement lists of a body with their nesting depth (lists below an ASSOCIATE are skipped)"""
    yield ss, depth
    for s in ss:
        if h(s) == 'assoc':
            continue
        for l in sub_lists(s):
            yield from _lists(l, depth + 1)


def add_regions(rng, prog):
    """mark 1-2 disjoint regions in the main unit (contiguous slices of one statement list; no EXIT/CYCLE that leaves the
    slice, no ASSOCIATE inside — the undocumented but obvious preconditions of outlining)"""
    prog = fir.canon(prog)
    u = main_unit(prog)
    dm = decl_map(u)
    body = u[4]
    n_regions = 1 if rng.random() < 0.7 else 2
    used = []
    for _ in range(n_regions):
        inside = [x for r in used for s in r for sl_ in sub_lists(s) for x, _ in _lists(sl_)]
        cands = [(l, d) for l, d in _lists(body)
                 if l and not has_marker(l) and not any(l is x for x in inside)]
        if not cands:
            break
        wts = [1.0 / (1 + 2 * d) for _, d in cands]
        l, d = rng.choices(cands, weights=wts)[0]
        ok = None
        for _try in range(8):
            i = rng.randrange(len(l))
            j = min(len(l), i + 1 + int(rng.random() ** 2 * 5))
            sl = l[i:j]
            if escapes(sl) or has_kind(sl, 'assoc') or any(start_of(s) or is_end(s) for s in sl):
                continue
            ok = (i, j)
            break
        if ok is None:
            continue
        i, j = ok
        sl = l[i:j]
        text = START
        if rng.random() < 0.2:
            text += f' name(reg{len(used)})'
        if rng.random() < 0.3:
            bv = sorted(set(body_vars(sl)))
            scal = [x for x in bv if x in dm and not dm[x][4] and fir._is_none(dm[x][5]) and x not in loop_vars(sl)
                    and str(dm[x][3]) != 'in']      # an INTENT(IN) variable of the caller cannot be an INOUT actual
            arrs = [x for x in bv if x in dm and dm[x][4] and str(dm[x][3]) != 'in']
            pool = scal + (arrs if rng.random() < 0.25 else [])
            if pool:
                x = rng.choice(pool)
                text += f' inout({x})'
        l[i:j] = [[A('nop'), A('pragma'), text]] + sl + [[A('nop'), A('pragma'), END]]
        used.append(sl)
    return fir.canon(prog)


def decode(req):
    kind = str(req[0])
    if kind == 'extract':
        if len(req) not in (4, 5) or not isinstance(req[1], str) or not isinstance(req[2], list) or len(req[2]) != 1 \
                or not isinstance(req[2][0], str) or str(req[3]) not in ('mod', 'file') \
                or (len(req) == 5 and str(req[4]) not in ('extract', 'both', 'outline')):
            raise ValueError('malformed request')
        return kind, req[1], req[2], str(req[3])
    prog = req[1]
    inputs = req[2]
    flag = str(req[3]) if len(req) > 3 else 'nogf'
    if len(req) > 5 or (len(req) == 5 and int(str(req[4])) < 0):
        raise ValueError('malformed request')
    if kind != 'outline' or h(prog) != 'program' or not isinstance(inputs, list) or flag not in ('gf', 'nogf') or len(prog) < 3:
        raise ValueError('malformed request')
    for u in prog[2:]:
        if h(u) != 'unit' or len(u) != 5 or not all(isinstance(x, list) for x in u[2:]):
            raise ValueError('malformed unit')
    main_unit(prog)
    return kind, prog, inputs, flag


def case_of(req):
    """letter-case seed of an outline request (0 = the printer's lower case) / flags of an extract request"""
    if str(req[0]) == 'extract':
        return str(req[4]) if len(req) > 4 else 'extract'
    return int(str(req[4])) if len(req) > 4 else 0


# ---------------------------------------------------------------- extraction of internal procedures (text level)

def extract_source(rng, region=None, plain=False):
    """a host routine with one internal subroutine that uses host-associated variables, plus the hand-inlined FIR equivalent
    (the oracle's reference).  `region`: None | 'call' (a `!$loki outline` region of the host contains a call to the internal
    procedure) | 'nocall' (a region elsewhere in the host); `plain`: the file / module also has a routine WITHOUT a
    CONTAINS section (before or after the host).  Every occurrence of a variable / procedure name in the host text
    is respelled (Fortran is case-insensitive): style 'upper-body' = declarations lower case, internal procedure body upper
    case (legacy style); 'mixed' = every occurrence upper or lower at random; 'lower'.  Returns (fortran text, reference)."""
    n_sym = rng.random() < 0.5
    ext = 'n' if n_sym else str(rng.randint(2, 5))
    c1, c2, c3 = rng.randint(1, 4), rng.randint(0, 5), rng.randint(1, 3)
    use_arr = rng.random() < 0.7
    use_y = rng.random() < 0.6
    twice = rng.random() < 0.5
    shadow = rng.random() < 0.4          # the internal procedure has a local that shadows a host variable
    style = rng.choice(('upper-body', 'upper-body', 'mixed', 'mixed', 'lower'))
    inner = []
    if shadow:
        inner.append(f't = o + {c3}')
    inner.append(f'o = o * {c1} + k' + (' + t' if shadow else ''))
    if use_arr:
        inner.append(f'a(1) = a(1) + o')
    if use_y:
        inner.append('y = y + 0.5')
        inner.append('k = k + 1')
    head = ['subroutine kernel(n, a, k, o, y)', '  implicit none', '  integer, intent(in) :: n',
            f'  integer, intent(inout) :: a({ext})', '  integer, intent(inout) :: k', '  integer, intent(inout) :: o',
            '  real, intent(inout) :: y', '  integer :: t']
    S, E = '!$loki outline name(r1)', '!$loki end outline'
    body = []
    if region == 'nocall':
        body += [S, f'  t = {c2}', f'  k = k + {c2}', E, '  call inner(o)']
    elif region == 'call':
        body += [f'  t = {c2}', f'  k = k + {c2}', S, '  call inner(o)']
    else:
        body += [f'  t = {c2}', f'  k = k + {c2}', '  call inner(o)']
    if twice or region == 'call':
        body += ['  o = o + t']
    if region == 'call':
        body += [E]
    if twice:
        body += ['  call inner(o)']
    body += ['  a(1) = a(1) + t']
    inner_head = ['  subroutine inner(o)', '    integer, intent(inout) :: o'] + (['    integer :: t'] if shadow else [])
    inner_body = ['    ' + x for x in inner]
    names = ['n', 'a', 'k', 'o', 'y', 't', 'inner']
    crng = _random.Random(rng.getrandbits(30))
    if style == 'upper-body':
        inner_body = recase_text('\n'.join(inner_body), names, crng, 'upper').split('\n')
    elif style == 'mixed':
        head = recase_text('\n'.join(head[:1]), [], crng).split('\n') + recase_text('\n'.join(head[1:]), names, crng).split('\n')
        body = recase_text('\n'.join(body), names, crng).split('\n')
        inner_head = recase_text('\n'.join(inner_head), names, crng).split('\n')
        inner_body = recase_text('\n'.join(inner_body), names, crng).split('\n')
    lines = head + body + ['contains'] + inner_head + inner_body + ['  end subroutine inner', 'end subroutine kernel']
    src = '\n'.join(lines) + '\n'
    if plain:
        extra = 'subroutine plain(x)\n  implicit none\n  integer, intent(inout) :: x\n  x = x + 1\nend subroutine plain\n'
        src = extra + src if rng.random() < 0.5 else src + extra
    # reference: the internal procedure inlined by hand (shadowed local renamed), region markers dropped
    ref_inner = [x.replace('t = ', 't_in = ').replace('+ t', '+ t_in') if shadow else x for x in inner]
    ref = ['subroutine kernel(n, a, k, o, y)', '  implicit none', '  integer, intent(in) :: n',
           f'  integer, intent(inout) :: a({ext})', '  integer, intent(inout) :: k', '  integer, intent(inout) :: o',
           '  real, intent(inout) :: y', '  integer :: t', '  integer :: t_in', f'  t = {c2}', f'  k = k + {c2}']
    ref += ['  ' + x for x in ref_inner]
    if twice or region == 'call':
        ref += ['  o = o + t']
    if twice:
        ref += ['  ' + x for x in ref_inner]
    ref += ['  a(1) = a(1) + t', 'end subroutine kernel']
    return src, '\n'.join(ref) + '\n'


def real_extract(src, form, flags='extract'):
    """the real `ExtractTransformation` entry points: form 'file': the host is a free subroutine (transform_file on the
    Sourcefile), form 'mod': the host is wrapped in a module (transform_module on the Module); flags 'extract' / 'outline' /
    'both' = which of extract_internals / outline_regions is switched on.  Returns (Sourcefile, fgen text)"""
    from loki import fgen
    from loki.transformations.extract import ExtractTransformation
    if form == 'mod':
        src = 'module m\nimplicit none\ncontains\n' + src + 'end module m\n'
    sf = fir.parse_fortran(src)
    try:
        t = ExtractTransformation(extract_internals=flags in ('extract', 'both'), outline_regions=flags in ('outline', 'both'))
        if form == 'mod':
            t.transform_module(sf['m'])
        else:
            t.transform_file(sf)
        text = fgen(sf.ir)
    except Exception as e:
        raise TransformError(f'{type(e).__name__}: {str(e)[:120]}') from e
    return sf, text


def top_routines(sf, form):
    return list(sf['m'].subroutines) if form == 'mod' else list(sf.subroutines)


def structural_problems(sf, form):
    """independent of execution: (1) every CALL to a routine of the file supplies exactly the callee's dummies (count, keyword
    names), (2) every variable used in the body of a (no longer contained) routine is declared in that routine"""
    from loki.ir import FindNodes, FindVariables, CallStatement
    from loki.expression import symbols as sym
    tops = top_routines(sf, form)
    every = list(tops) + [c for r in tops for c in r.subroutines]
    by_name = {r.name.lower(): r for r in every}
    out = []
    for r in every:
        for call in FindNodes(CallStatement).visit(r.body):
            callee = by_name.get(str(call.name).lower())
            if callee is None:
                continue
            dummies = [a.name.lower() for a in callee.arguments]
            n_actual = len(call.arguments) + len(call.kwarguments)
            if n_actual != len(dummies):
                out.append(f"in '{r.name}': call to '{callee.name}' passes {n_actual} argument(s), dummies are {dummies}")
            bad = [str(k) for k, _ in call.kwarguments if str(k).lower() not in dummies]
            if bad:
                out.append(f"in '{r.name}': keyword(s) {bad} are not dummies of '{callee.name}' {dummies}")
    for r in tops:
        declared = {v.name.lower() for v in r.variables}
        called = {str(c.name).lower() for c in FindNodes(CallStatement).visit(r.body)}
        for v in FindVariables().visit(r.body):
            if isinstance(v, sym.ProcedureSymbol) or getattr(v, 'parent', None) or v.name.lower() in called:
                continue
            if v.name.lower() not in declared:
                out.append(f"'{v.name}' is used in '{r.name}' but neither declared nor passed in")
    return sorted(set(out))


def positional_calls(sf):
    """rewrite `call f(a, x=x, y=y)` to positional form using the callee's dummy order (FIR has no keyword arguments);
    a keyword that is not a dummy of the callee raises TransformError"""
    from loki.ir import FindNodes, CallStatement, Transformer
    routines = {r.name.lower(): r for r in sf.all_subroutines}
    for r in sf.all_subroutines:
        m = {}
        for call in FindNodes(CallStatement).visit(r.body):
            if not call.kwarguments:
                continue
            callee = routines.get(str(call.name).lower())
            if callee is None:
                raise TransformError(f'call to unknown routine {call.name}')
            dummies = [a.name.lower() for a in callee.arguments]
            args = list(call.arguments)
            kw = {str(k).lower(): v for k, v in call.kwarguments}
            for dname in dummies[len(args):]:
                if dname not in kw:
                    raise TransformError(f'dummy {dname} of {callee.name} gets no actual argument')
                args.append(kw.pop(dname))
            if kw:
                raise TransformError(f'keyword(s) {sorted(kw)} are not dummies of {callee.name}')
            m[call] = call.clone(arguments=tuple(args), kwarguments=())
        if m:
            r.body = Transformer(m).visit(r.body)


class C33(Prop):
    id = 'C33'
    title = 'Region outlining and procedure extraction preserve behaviour'
    model_modules = ['LokiModel.C33.Model', 'LokiModel.C33.Enc']
    props_module = 'LokiModel.Props.C33'
    findings_module = 'LokiModel.Findings.C33'
    driver = 'Drivers/C33.lean'
    theorems = ['region_coincidence', 'outline_sound_partial', 'outline_failure_preserved']
    design_ref = 'DESIGN.md 4.F C33'
    level = 'proof'
    level_text = ('region_coincidence (full, unbounded: a region body without ASSOCIATE/CALL runs identically from any two states that '
                  'agree on its variables, all fuels); outline_sound_partial / outline_failure_preserved (the CALL to the outlined '
                  'unit = entry state, body, copy-out of the interpreter; body result agrees with the region run in the caller on '
                  'all region variables and the output; hypotheses: entry state exists and agrees with the caller on the region '
                  'variables; missing: derivation of that hypothesis from a typing invariant and the copy-out lemma). Classification '
                  'in/inout/out, ordering, declarations, call: modelled and tied by correspondence. Extraction of internal '
                  'procedures: oracle only.')
    level_note = ('FIR call semantics (Sem.lean) = copy-in for every dummy, copy-out for non-IN dummies: OUT and INOUT behave alike, as '
                  'with by-reference compilers; the INTENT(OUT)-becomes-undefined rule of the standard is only in the harness '
                  '(StrictInterp) and in class outline-out-maybe-undefined.')
    technique = ('Lean 4 theorems about a hand-written model of outline_region on FIR programs + correspondence with the real '
                 'code + original-vs-transformed execution oracle')
    rule = ('generated FIR programs (weights towards loops, IF, PRINT, scalar/element/section assignment; no ASSOCIATE in the main unit) '
            'with 1-2 disjoint `!$loki outline` regions over contiguous statement slices at any nesting depth (no escaping EXIT/CYCLE), '
            'optional name(..) and inout(..) overrides; 2-3 input sets each; plus generated hosts with an internal procedure using '
            'host-associated scalars/arrays and optionally a region that calls it (transform_module / transform_file x extract / outline / both); '
            'every name occurrence respelled in random letter case in part of the cases. non-trivial = has a region')
    trusted_base = ['harness/fir.py (printer, exporter from Loki IR, reference interpreter)', 'gfortran 12.2 (thorough tier)']
    assumptions = ['marked regions contain no EXIT/CYCLE of an enclosing loop and no ASSOCIATE, and are not nested (preconditions of '
                   'outlining, not checked by Loki)', 'pragma override lists are written without blanks (`in(a,b)`)']
    extra_obligations = ['oracle: original vs really outlined program on generated inputs',
                         'oracle: host with internal procedure vs extracted procedures']

    def classes(self):
        return CLASS_ORDER + [K_EXT]

    # ---- generation
    def gen(self, rng, tier):
        n = {'quick': 40, 'thorough': 200, 'search': 120}.get(tier, 40)
        n_in = 2 if tier == 'quick' else 3
        for j in range(n):
            base = fir.gen_program(rng, GEN_CFG)
            prog = add_regions(rng, base)
            inputs = fir.gen_inputs(rng, prog, n_in)
            gf = tier == 'thorough' and j % 4 == 0
            regions, _ = find_regions(prog)
            yield Case([A('outline'), prog, inputs, A('gf' if gf else 'nogf')], stream='outline', nontrivial=bool(regions))
        # respelled variants (every name occurrence in random letter case) of some of the programs: oracle only
        n_case = {'quick': 5, 'thorough': 30, 'search': 15}.get(tier, 5)
        for j in range(n_case):
            prog = add_regions(rng, fir.gen_program(rng, GEN_CFG))
            inputs = fir.gen_inputs(rng, prog, n_in)
            yield Case([A('outline'), prog, inputs, A('nogf'), 1 + rng.getrandbits(20)], stream='outline-case',
                       nontrivial=bool(find_regions(prog)[0]))
        # hosts with an internal procedure (+ optionally a region); entry points x flags
        n_ext = {'quick': 8, 'thorough': 36, 'search': 16}.get(tier, 8)
        plan = [('mod', 'extract', None), ('mod', 'both', 'call'), ('mod', 'extract', None), ('mod', 'both', 'call'),
                ('mod', 'both', 'nocall'), ('file', 'both', 'call'), ('mod', 'outline', 'nocall'), ('file', 'outline', 'nocall'),
                ('mod', 'extract', 'call'), ('file', 'extract', None), ('mod', 'both', 'call'), ('file', 'both', 'nocall')]
        for j in range(n_ext):
            form, flags, region = plan[j % len(plan)]
            src, ref = extract_source(rng, region, plain=j % 3 == 1)
            yield Case([A('extract'), src, [ref], A(form), A(flags)], stream='extract')

    def shrink_candidates(self, req):
        """structure-preserving shrinking: drop one non-marker statement of the main unit, or one input set"""
        import copy
        try:
            kind, prog, inputs, flag = decode(req)
        except Exception:
            return
        if kind != 'outline':
            return
        for k in range(len(inputs)):
            if len(inputs) > 1:
                yield [req[0], prog, inputs[:k] + inputs[k + 1:]] + list(req[3:])
        n = sum(len(l) for l, _ in _lists(main_unit(prog)[4]))
        for k in range(n):
            p2 = copy.deepcopy(prog)
            j = k
            for l, _ in _lists(main_unit(p2)[4]):
                if j < len(l):
                    if start_of(l[j]) is None and not is_end(l[j]):
                        del l[j]
                        yield [req[0], p2, inputs] + list(req[3:])
                    break
                j -= len(l)

    # ---- real code
    def impl(self, req):
        kind, prog, inputs, flag = decode(req)
        if kind == 'extract':
            return [A('extract'), A('oracle-only')]
        if case_of(req):
            # respelled names change `sorted(…, key=str)` (upper case first), i.e. the order of the dummies: no model for that
            return [A('case-variant'), A('oracle-only')]
        cs, regions, bad = syntactic_classes(prog)
        if bad or cs:
            return [A('result'), [A(c) for c in cs], A('excluded')]
        try:
            tp, _ = real_outline(prog)
        except fir.Unsupported as e:
            return [A('unsupported'), str(e.kind)]
        return [A('result'), [A(c) for c in classes_from_real(prog, tp, regions)], norm_prog(tp)]

    def canon_model(self, resp):
        if h(resp) == 'result' and h(resp[2]) == 'program':
            return [resp[0], resp[1], norm_prog(resp[2])]
        if h(resp) == 'error':      # the driver has no `extract` op: extraction is oracle-only
            return [A('extract'), A('oracle-only')]
        return resp

    # ---- direct oracle
    def classes_of(self, prog, case=0):
        cs, regions, bad = syntactic_classes(prog)
        try:
            tp, _ = real_outline(prog, case)
            cs = cs + classes_from_real(prog, tp, regions)
        except Exception:
            pass
        return [c for c in CLASS_ORDER if c in cs]

    def oracle(self, req):
        kind, prog, inputs, flag = decode(req)
        if kind == 'extract':
            return self.oracle_extract(prog, inputs[0], flag, case_of(req))
        case = case_of(req)
        cs = self.classes_of(prog, case)
        plain = [c for c in cs if c != K_OUT]
        cls = plain[0] if plain else None
        try:
            tp, text = real_outline(prog, case)
        except (TransformError, fir.Unsupported) as e:
            return [Failure(f'outline: transformation or export of its result raised {type(e).__name__}: {str(e)[:120]}', cls)]
        fails = []
        runs = []
        for inp in inputs:
            a = fir.interp(prog, inp)
            if a[0] != 'ok':
                continue
            b = fir.interp(tp, inp)
            d = fir.compare_results(a, b, undef_wild=False)
            if d:
                return [Failure(f'outline: transformed program behaves differently (interpreter): {d}', cls)]
            runs.append(inp)
            if not fails:
                c = strict_interp(tp, inp)
                d = fir.compare_results(a, c, undef_wild=False)
                if d:
                    fails.append(Failure('outline: under the standard\'s INTENT(OUT) rule (actual becomes undefined at the call) '
                                         f'the transformed program differs: {d}', K_OUT if K_OUT in cs else None))
        if flag == 'gf' and runs:
            text, text0 = text
            err = fir.gfortran_syntax_check(text)
            if err and text0 is not None and fir.gfortran_syntax_check(text0) is None:
                # (when gfortran already rejects fgen's text of the UNTRANSFORMED routine the defect is the printer's: C06)
                return [Failure(f'outline: gfortran rejects the transformed source printed by fgen: {err[:160]}', cls)]
            items = []
            for inp in runs:
                st = {}
                fir.interp(prog, inp, stats=st)
                if fir.exact_in_hardware(st):
                    items += [(prog, inp), (tp, inp)]
            res = fir.run_gfortran(items) if items else []
            for k in range(0, len(res), 2):
                if res[k][0] != 'ok':
                    continue
                d = fir.compare_results(res[k], res[k + 1])
                if d:
                    return [Failure(f'outline: transformed program behaves differently (gfortran): {d}', cls)]
        return fails

    def oracle_extract(self, src, ref_src, form, flags='extract'):
        """host + internal procedure (reference = hand-inlined equivalent, executed by the interpreter) vs the result of the
        real ExtractTransformation entry point: gfortran syntax check of Loki's own text, structural consistency (every call
        against its callee, every used name declared), then the keyword calls made positional, exported to FIR and executed.
        flags 'outline' alone leaves the internal procedure in place (outside FIR): a second real pass with flags 'extract'
        follows before the export."""
        fails = []
        ref = fir.export_unit(fir.parse_fortran(ref_src), main='kernel')
        try:
            sf, text = real_extract(src, form, flags)
        except TransformError as e:
            return [Failure(f'extract[{form},{flags}]: transformation raised {str(e)[:140]}', None)]
        err = fir.gfortran_syntax_check(text)
        if err:
            # Lean: KnownExtractExternal — keyword call to an external procedure (free-file form with extraction)
            known = form == 'file' and flags != 'outline' and 'Keyword argument requires explicit interface' in err
            fails.append(Failure(f'extract[{form},{flags}]: gfortran rejects the source printed by fgen: {err[:160]}',
                                 K_EXT if known else None))
            if not known:
                return fails
        probs = structural_problems(sf, form)
        if probs:
            return fails + [Failure(f'extract[{form},{flags}]: inconsistent result: ' + '; '.join(probs)[:300], None)]
        try:
            # second application of the real entry point with extract_internals on: for flags 'outline' it extracts the
            # internal procedure (the outlined routines have no CONTAINS section), otherwise it must be a no-op
            # (formerly class extract-no-contains-crash, repaired: a routine without CONTAINS is left alone)
            from loki import fgen
            from loki.transformations.extract import ExtractTransformation
            t = ExtractTransformation(extract_internals=True, outline_regions=False)
            try:
                if form == 'mod':
                    t.transform_module(sf['m'])
                else:
                    t.transform_file(sf)
                text2 = fgen(sf.ir)
            except Exception as e:
                return fails + [Failure(f'extract[{form},{flags}]: applying ExtractTransformation(extract_internals=True) to the '
                                        f'result raised {type(e).__name__}: {str(e)[:120]}', None)]
            if flags != 'outline' and text2 != text:
                return fails + [Failure(f'extract[{form},{flags}]: a second extraction pass changes the result '
                                        '(nothing is left to extract)', None)]
            if flags == 'outline':
                probs = structural_problems(sf, form)
                if probs:
                    return fails + [Failure(f'extract[{form},outline then extract]: inconsistent result: '
                                            + '; '.join(probs)[:300], None)]
            positional_calls(sf)
            tp = fir.export_unit(sf['m'] if form == 'mod' else sf, main='kernel')
        except (TransformError, fir.Unsupported) as e:
            return fails + [Failure(f'extract[{form},{flags}]: transformation or export of its result raised '
                                    f'{type(e).__name__}: {str(e)[:120]}', None)]
        rng = _random.Random(len(src) * 7919 + sum(map(ord, src)))
        for inp in fir.gen_inputs(rng, ref, 3):
            a = fir.interp(ref, inp)
            if a[0] != 'ok':
                continue
            b = fir.interp(tp, inp)
            d = fir.compare_results(a, b, undef_wild=False)
            if d:
                return fails + [Failure(f'extract[{form},{flags}]: transformed program behaves differently (interpreter): {d}', None)]
        return fails


PROP = C33()
READY = True
