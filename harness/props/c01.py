"""C01 — parsing and regenerating Fortran preserves program behaviour.

Requests
  (c01 lines STYLE (LINE...))       program of the Lean-covered class as token lines (same wire form as C02)
  (c01 fir STYLE PROG (INPUTS...))  a fir-generated program with input sets for its main unit
  (c01 src "text" (INPUTS...))      hand-written source (witnesses); units must be exportable to FIR
  (c01 firlay STYLE PROG (INPUTS...) MODE SEED)  the FIR program written by `emit_layout(PROG, SEED)`: CASE blocks in random order with
                                    CASE DEFAULT first / in the middle / last, value runs as ranges, ELSE IF chains or ELSE + nested IF,
                                    inline IF, declarations and units in random (dependency-respecting) order, keyword case, ENDDO/ENDIF
Response (correspondence, `lines` only): (ok PROG1) with PROG1 = fir.export_unit(parse(fgen(parse(src)))) — on the Lean side the
denotation of re-reading the regenerated lines with the reference parser; `(error parse)` / `(error reparse)`; else `(skip)`.

Oracle (real code only): original source vs regenerated source.
  quick : export_unit(parse(emit(p))) == normalize(p) (the frontend reads what the harness wrote), then the python FIR
          interpreter on export_unit(parse(src)) vs export_unit(parse(fgen(parse(src)))) for every input set;
  thorough: additionally gfortran on the ORIGINAL program p and on the exported regenerated program, 4 input sets each
          (batched), canonical output compared exactly; regenerated text that gfortran rejects is a failure.
Programs with constructs outside FIR (derived types, internal procedures, labelled DO, OPEN, modules): stream `outside-fir`,
gfortran -fsyntax-only of the regenerated text + C02's structural oracle only; reported separately, not under a theorem.
"""
import random
import re

from ..core import Prop, Case, Failure
from ..sexpr import A, dumps, loads
from .. import fir
from . import c02
from .c02 import parse, to_text, lex_text, unlex, ScalarGen, fir_flags, STYLES

CLASSES = (
    'select-empty-case',        # bodies slide to other CASE values: different results
    'assoc-selector-crash',     # valid ASSOCIATE selectors make the frontend raise (source rejected)
    'double-not-unparsable',    # regenerated `.not..not.p` is rejected by the frontend
    'if-body-dropped-on-swallowed-exception',  # a construct that makes the frontend raise TypeError/NotImplementedError, inside an
                                # IF branch: as_tuple(<generator>) swallows the exception and the whole branch body is dropped
    'construct-name-exit-cycle',  # `CYCLE name` loses the construct name (other loop is cycled); `EXIT name` crashes the frontend
)
_RE_NAMED = re.compile(r'^[^!\n]*\b(exit|cycle)[ \t]+[a-z_]\w*[ \t]*$', re.I | re.M)

# ASSOCIATE selectors the frontend accepts: names, element/section references with literal or `v + c`, `c*v` subscripts,
# sums and products of such (notes/FIR.md L2).  Everything else is in the class.


def _sel_ok(e, top=True):
    h = fir._h(e)
    if h in ('v', 'i', 'r', 'b'):
        return True
    if h == 'idx':
        return all(_sub_ok(s) for s in e[2:])
    if h == 'sec':
        for d in e[2:]:
            if fir._h(d) == 'at':
                if not _sub_ok(d[1]):
                    return False
            else:
                lo, hi, st = d[1], d[2], d[3]
                if not fir._is_none(st) and fir._h(st) != 'i':
                    return False
                if not fir._is_none(lo) and fir._h(lo) != 'i':
                    return False
                if fir._is_none(hi) and not fir._is_none(lo):
                    return False
                if not fir._is_none(hi) and not _sub_ok(hi):
                    return False
        return True
    if h == 'bin' and str(e[1]) in ('add', 'mul'):
        a, b = e[2], e[3]
        if fir._h(a) in ('idx', 'sec') or fir._h(b) in ('idx', 'sec'):
            return fir._h(a) == fir._h(b) and _sel_ok(a) and _sel_ok(b)
        return _sel_ok(a, False) and _sel_ok(b, False)
    if h == 'call' and str(e[1]) in ('real', 'int'):
        return all(_sel_ok(a, False) for a in e[2:])
    return False


def _sub_ok(e):
    h = fir._h(e)
    if h in ('v', 'i'):
        return True
    if h == 'bin' and str(e[1]) in ('add', 'mul'):
        return _sub_ok(e[2]) and _sub_ok(e[3])
    return False


def _bad_assoc(s):
    return fir._h(s) == 'assoc' and not all(_sel_ok(b[1]) for b in s[1])


def c01_flags(prog):
    fl = set(fir_flags(prog)) & {'select-empty-case', 'double-not-unparsable'}
    for _n, _a, _d, body in fir.prog_units(prog):
        for s in fir.iter_stmts(body):
            if _bad_assoc(s):
                fl.add('assoc-selector-crash')
            if fir._h(s) == 'if' and any(_bad_assoc(t) for t in fir.iter_stmts(list(s[2]) + list(s[3]))):
                fl.add('if-body-dropped-on-swallowed-exception')
    return fl


# ---------------------------------------------------------------------------------------------------------------
# source-level ordering freedoms: the same FIR program written in different (equally legal) layouts

def _case_vals_text(vals, rng, ranges=True):
    """value list of a CASE; runs of consecutive values may be written as ranges"""
    vals = [int(str(v)) for v in vals]
    out, i = [], 0
    while i < len(vals):
        j = i
        while j + 1 < len(vals) and vals[j + 1] == vals[j] + 1:
            j += 1
        if ranges and j > i and rng.random() < 0.7:
            out.append(f'{vals[i]}:{vals[j]}')
            i = j + 1
        else:
            out.append(str(vals[i]))
            i += 1
    return ', '.join(out)


def _names_in(e, acc):
    h = fir._h(e)
    if h == 'v':
        acc.add(str(e[1]))
    elif h in ('idx', 'call'):
        if h == 'idx':
            acc.add(str(e[1]))
        for c in e[2:]:
            _names_in(c, acc)
    elif h in ('neg', 'not'):
        _names_in(e[1], acc)
    elif h == 'bin':
        _names_in(e[2], acc); _names_in(e[3], acc)
    return acc


def _shuffle_decls(decls, rng):
    """a random order of the declarations in which every name is declared before it is used in a bound / initial value"""
    deps = {}
    for d in decls:
        name, _ty, _it, dims, pm = fir.decl_fields(d)
        acc = set()
        for lo, hi in dims:
            _names_in(lo, acc); _names_in(hi, acc)
        if pm is not None:
            _names_in(pm, acc)
        deps[name] = acc
    left, out, done = list(decls), [], set()
    while left:
        ready = [d for d in left if deps[str(d[1])] & {str(x[1]) for x in left if x is not d} == set()]
        if not ready:
            return list(decls)
        d = rng.choice(ready)
        left.remove(d); out.append(d); done.add(str(d[1]))
    return out


def emit_layout(prog, seed, lean=False):
    """(source text, the same program with cases / declarations / units in the order in which they were written).
    ``lean``: only the freedoms the Lean reference parser models (order of CASE blocks, position of CASE DEFAULT, order of CASE
    values, of declarations and of units, ENDDO/ENDIF) - no value ranges, inline IF, ELSE + nested IF, upper case"""
    rng = random.Random(seed)
    upper = rng.random() < 0.25 and not lean
    end_glued = rng.random() < 0.3

    def kw(s):
        return s.upper() if upper else s

    def end(s):
        return kw('end' + s) if (end_glued and s in ('do', 'if')) else kw('end ' + s)

    def ex(e):
        t = fir.emit_ex(e)
        return t.upper() if upper else t

    def stmts(ss, ind, out):
        p = '  ' * ind
        res = []
        for s in ss:
            h = fir._h(s)
            if h == 'assign':
                out.append(f'{p}{ex(s[1])} = {ex(s[2])}'); res.append(s)
            elif h == 'do':
                step = '' if fir._is_none(s[4]) else ', ' + ex(s[4])
                out.append(f'{p}{kw("do")} {ex(fir.V(str(s[1])))} = {ex(s[2])}, {ex(s[3])}{step}')
                body = stmts(s[5], ind + 1, out)
                out.append(p + end('do')); res.append(s[:5] + [body])
            elif h == 'while':
                out.append(f'{p}{kw("do while")} ({ex(s[1])})')
                body = stmts(s[2], ind + 1, out)
                out.append(p + end('do')); res.append(s[:2] + [body])
            elif h == 'if':
                res.append(emit_if(s, ind, out, kw('if')))
            elif h == 'select':
                out.append(f'{p}{kw("select case")} ({ex(s[1])})')
                blocks = [('case', c) for c in s[2]]
                rng.shuffle(blocks)                       # the order of CASE blocks is free (selectors are disjoint)
                if s[3]:
                    blocks.insert(rng.randrange(len(blocks) + 1), ('default', s[3]))
                cases, dflt = [], []
                for kind, c in blocks:
                    if kind == 'default':
                        out.append(f'{p}{kw("case default")}')
                        dflt = stmts(c, ind + 1, out)
                    else:
                        vals = list(c[0])
                        if rng.random() < 0.5:             # the order of the values of one CASE is free as well
                            vals = sorted(vals, key=lambda v: int(str(v)))
                        out.append(f'{p}{kw("case")} ({_case_vals_text(vals, rng, ranges=not lean)})')
                        cases.append([vals, stmts(c[1], ind + 1, out)])
                out.append(p + kw('end select')); res.append([s[0], s[1], cases, dflt])
            elif h == 'assoc':
                out.append(f'{p}{kw("associate")} (' + ', '.join(f'{ex(fir.V(str(b[0])))} => {ex(b[1])}' for b in s[1]) + ')')
                body = stmts(s[2], ind + 1, out)
                out.append(p + kw('end associate')); res.append(s[:2] + [body])
            elif h == 'callsub':
                out.append(f'{p}{kw("call")} {ex(fir.V(str(s[1])))}(' + ', '.join(ex(a) for a in s[2:]) + ')'); res.append(s)
            elif h == 'print':
                out.append(f'{p}{kw("print")} *' + ''.join(', ' + ex(a) for a in s[1:])); res.append(s)
            elif h in ('exit', 'cycle'):
                out.append(p + kw(h)); res.append(s)
            elif h == 'nop':
                out.append(f'{p}!$' + str(s[2]) if str(s[1]) == 'pragma' else f'{p}! ' + str(s[2])); res.append(s)
            else:
                raise ValueError('malformed statement ' + dumps(s))
        return res

    def simple(s):
        return fir._h(s) in ('assign', 'callsub', 'exit', 'cycle', 'print')

    def emit_if(s, ind, out, head):
        p = '  ' * ind
        els = s[3]
        if not lean and head == kw('if') and not els and len(s[2]) == 1 and simple(s[2][0]) and rng.random() < 0.3:   # inline IF
            tmp = []
            body = stmts(s[2], 0, tmp)
            out.append(f'{p}{kw("if")} ({ex(s[1])}) {tmp[0].strip()}')
            return [s[0], s[1], body, []]
        out.append(f'{p}{head} ({ex(s[1])}) {kw("then")}')
        thn = stmts(s[2], ind + 1, out)
        if len(els) == 1 and fir._h(els[0]) == 'if':
            if lean or rng.random() < 0.5:                 # ELSE IF chain ...
                inner = emit_if(els[0], ind, out, kw('else if'))
                return [s[0], s[1], thn, [inner]]
            out.append(p + kw('else'))                     # ... or ELSE + nested IF (the exporter maps both to the same FIR)
            inner = emit_if(els[0], ind + 1, out, kw('if'))
            out.append(p + end('if'))
            return [s[0], s[1], thn, [inner]]
        if els:
            out.append(p + kw('else'))
            e2 = stmts(els, ind + 1, out)
        else:
            e2 = []
        out.append(p + end('if'))
        return [s[0], s[1], thn, e2]

    units = list(prog[2:])
    main = str(prog[1])
    rng.shuffle(units)
    lines, units2 = [], []
    for u in units:
        name, args, decls, body = str(u[1]), [str(a) for a in u[2]], u[3], u[4]
        d2 = _shuffle_decls(decls, rng)
        lines += [f'{kw("subroutine")} {ex(fir.V(name))}(' + ', '.join(ex(fir.V(a)) for a in args) + ')', '  ' + kw('implicit none')]
        for d in d2:
            t = fir._emit_decl(d)
            lines.append('  ' + (t.upper() if upper else t))
        b2 = stmts(body, 1, lines)
        lines += [f'{kw("end subroutine")} {ex(fir.V(name))}', '']
        units2.append([u[0], u[1], u[2], d2, b2])
    return '\n'.join(lines), [prog[0], prog[1]] + units2


def regenerate(src, style):
    """(sf0, t1) or raises"""
    sf0 = parse(src)
    return sf0, to_text(sf0, style)


class C01(Prop):
    id = 'C01'
    title = 'Parsing and regenerating Fortran preserves program behaviour'
    model_modules = ['LokiModel.C01.Model', 'LokiModel.C02.Codec']
    props_module = 'LokiModel.Props.C01'
    findings_module = 'LokiModel.Findings.C01'
    driver = 'Drivers/C01.lean'
    theorems = ['C01_sem_partial', 'exprRT_good', 'meaning_unique', 'C01_step_one']
    design_ref = 'DESIGN.md 4.C C01/C02'
    level = 'proof'
    level_text = (
        'Proved (Lean): for statement lists of the covered class (C02) whose expression slots are trees of C06\'s class Good, the '
        'text written by the model of fgen is read by the reference parser (C02 statement parser + C07 fparse, sound and complete '
        'for the Fortran expression grammar, which is unambiguous) to the same statement skeleton, up to the unprinted unit DO step, '
        'with a value-equal expression in every slot (C01_sem_partial; unbounded nesting).  Not proved: the congruence step from '
        'slot-wise value equality to equal runs of Fir.Sem; arrays, calls in expressions, declarations; that is covered by the '
        'direct oracle (python FIR interpreter every run, gfortran in the thorough tier) on generated programs.')
    level_note = ('the real frontend is assumed to be the reference parser on the subset and fgen the model printer: both are '
                  'checked by correspondence on every run (C02 token/IR correspondence, C01 re-read correspondence)')
    technique = 'Lean 4 theorems about a hand-written model + correspondence with the real code + execution oracle (interpreter, gfortran)'
    rule = ('lines: random programs of the covered class; fir: fir.gen_program with varied cfg (assoc selectors full, empty case '
            'bodies included), 4 input sets each (one extreme); outside-fir: hand-written programs with derived types, internal '
            'procedures, labelled DO, OPEN, WHERE; distinct = distinct request lines')
    trusted_base = ['harness lexer', 'fparser', 'fir.export_unit', 'fir.interp', 'gfortran 12 (thorough tier)']
    assumptions = ['FIR programs are alias-free and standard conforming by construction (fir.gen_program)']
    extra_obligations = ['export(parse(fgen(parse(src)))) = denote(pStmts(gStmts(pStmts(lines))))']

    def classes(self):
        return list(CLASSES)

    def shrink_candidates(self, req):
        """only FIR programs are shrunk (malformed FIR makes the oracle raise = not a failure); token lines and source text are
        replayed as they are, because every text the frontend rejects would count as 'still failing'"""
        from ..core import _subterms_replace
        if str(req[1]) in ('fir', 'firlay'):
            for i, v in enumerate(_subterms_replace(req[3])):
                yield req[:3] + [v] + req[4:]

    # ------------------------------------------------------------------ generation
    def gen(self, rng, tier):
        n_lines = {'quick': 12, 'thorough': 120, 'search': 80}[tier]
        n_fir = {'quick': 10, 'thorough': 100, 'search': 60}[tier]
        for k in range(n_lines):
            g = ScalarGen(rng, hazards=False)
            src = fir.emit_fortran(g.program(), wrap_program=False) if k % 2 == 0 else emit_layout(g.program(), rng.randrange(10 ** 6), lean=True)[0]
            yield Case([A('c01'), A('lines'), A(STYLES[k % 2]), lex_text(src)], stream='lines')
        cfgs = [None, None, {'assoc_selectors': 'full', 'weights': {'assoc': 16}, 'max_stmts': 16},
                {'empty_case_bodies': True, 'weights': {'select': 25}, 'max_stmts': 12},
                {'weights': {'do': 20, 'while': 6, 'exit': 5, 'cycle': 5}, 'steps': (1, 2, -1, -3, 3)},
                {'n_callees': (1, 2), 'weights': {'call': 20, 'print': 10, 'assign_section': 14}}]
        for k in range(n_fir):
            p = fir.gen_program(rng, cfgs[k % len(cfgs)])
            ins = fir.gen_inputs(rng, p, 3) + fir.gen_inputs(rng, p, 1, extreme=True)
            yield Case([A('c01'), A('fir'), A(STYLES[k % 2]), p, ins, A('gf' if tier == 'thorough' else 'interp')], stream='fir')
        n_lay = {'quick': 8, 'thorough': 120, 'search': 60}[tier]
        lay_cfgs = [{'weights': {'select': 30, 'if': 16}, 'max_stmts': 14, 'n_callees': (0, 1)},
                    {'weights': {'select': 18, 'if': 22, 'do': 8}, 'max_stmts': 18, 'max_depth': 4},
                    {'weights': {'select': 12, 'call': 14}, 'n_callees': (1, 2), 'max_stmts': 14}]
        for k in range(n_lay):
            p = fir.gen_program(rng, lay_cfgs[k % len(lay_cfgs)])
            ins = fir.gen_inputs(rng, p, 3) + fir.gen_inputs(rng, p, 1, extreme=True)
            yield Case([A('c01'), A('firlay'), A(STYLES[k % 2]), p, ins, A('gf' if tier == 'thorough' else 'interp'),
                        rng.randrange(10 ** 6)], stream='layout')
        outside = list(OUTSIDE_FIR)
        if tier == 'quick':           # gfortran is slow on a loaded machine: three of them per quick run (the named-cycle witness is
            rng.shuffle(outside)      # replayed from known_findings.json on every run anyway)
            outside = outside[:3]
        for name, src, drv in outside:
            yield Case([A('c01'), A('outside'), src, drv], stream='outside-fir')

    # ------------------------------------------------------------------ correspondence
    def impl(self, req):
        if str(req[1]) != 'lines':
            return [A('skip')]
        style = str(req[2])
        src = unlex(req[3])
        try:
            sf0, t1 = regenerate(src, style)
        except Exception:  # noqa: BLE001
            return [A('error'), A('parse')]
        try:
            sf1 = parse(t1)
        except Exception:  # noqa: BLE001
            return [A('error'), A('reparse')]
        return [A('ok'), fir.export_unit(sf1)]

    # ------------------------------------------------------------------ direct oracle
    def oracle(self, req):
        kind = str(req[1])
        if kind == 'lines':
            src = unlex(req[3])
            try:
                sf0, t1 = regenerate(src, str(req[2]))
                sf1 = parse(t1)
                e0, e1 = fir.export_unit(sf0), fir.export_unit(sf1)
            except Exception as e:  # noqa: BLE001
                return [Failure(f'round trip raised {type(e).__name__}: {str(e)[:100]}', None)]
            nm = {'do-step-one-dropped', 'logical-regroup'}
            if dumps(c02.norm_fir(e0, nm)) != dumps(c02.norm_fir(e1, nm)):
                return [Failure('regenerated program denotes another FIR program', None)]
            return []
        if kind == 'outside':
            return self.oracle_outside(str(req[2]), str(req[3]) if len(req) > 3 else '')
        if kind == 'src':
            return self.oracle_fir(None, str(req[2]), 'fortran', list(req[3]), thorough=True)
        if kind == 'firlay':
            text, prog_l = emit_layout(req[3], int(str(req[6])))
            return self.oracle_fir(fir.canon(prog_l), text, str(req[2]), list(req[4]), thorough=(str(req[5]) == 'gf'),
                                   main=str(req[3][1]))
        return self.oracle_fir(req[3], None, str(req[2]), list(req[4]), thorough=(len(req) > 5 and str(req[5]) == 'gf'))

    def oracle_fir(self, prog, src, style, inputs, thorough, main=None):
        out = []
        flags = c01_flags(prog) if prog is not None else (c02.text_flags(src) & set(CLASSES))
        if prog is not None and (len(prog) < 3 or not all(fir._h(u) == 'unit' and len(u) == 5 for u in prog[2:])):
            raise ValueError('malformed program')
        if src is None:
            src = fir.emit_fortran(prog, wrap_program=False)
        try:
            sf0, t1 = regenerate(src, style)
        except Exception as e:  # noqa: BLE001
            cls = 'assoc-selector-crash' if ('assoc-selector-crash' in flags or (prog is None and 'associate' in src.lower())) else None
            if prog is not None and len(prog) < 3:
                raise ValueError('malformed program')
            return [Failure(f'the frontend rejects valid source ({type(e).__name__}: {str(e)[:80]})', cls)]
        try:
            e0 = fir.export_unit(sf0, main=main)
        except fir.Unsupported as e:
            return [Failure(f'IR of a FIR program is not exportable: {e.kind}', 'select-empty-case' if 'select-empty-case' in flags else None)]
        swallowed = 'if-body-dropped-on-swallowed-exception' if 'if-body-dropped-on-swallowed-exception' in flags else None
        if prog is not None and 'select-empty-case' not in flags and dumps(e0) != dumps(fir.normalize(prog)):
            out.append(Failure('the frontend did not read what the harness wrote: export_unit(parse(emit(p))) != normalize(p)', swallowed))
        try:
            sf1 = parse(t1)
            e1 = fir.export_unit(sf1, main=main)
        except Exception as e:  # noqa: BLE001
            cls = 'double-not-unparsable' if ('double-not-unparsable' in flags and re.search(r'\.not\.\s*\.not\.', t1, re.I)) else None
            return out + [Failure(f'regenerated source is rejected ({type(e).__name__}: {str(e)[:80]})', cls)]
        ref_prog = prog if prog is not None else e0
        if 'select-empty-case' in flags and prog is None:
            ref_prog = None
        cls_sem = 'select-empty-case' if 'select-empty-case' in flags else swallowed
        # python interpreter: original program (as generated / as first read) vs regenerated program (as re-read)
        for k, ins in enumerate(inputs):
            if ref_prog is None:
                break
            r0 = fir.interp(ref_prog, ins)
            r1 = fir.interp(e1, ins)
            d = fir.compare_results(r0, r1, undef_wild=False) if r0[0] == 'ok' else (None if r1[0] != 'ok' else 'original fails, regenerated runs')
            if d:
                out.append(Failure(f'regenerated program behaves differently (interpreter, input set {k}): {d}', cls_sem))
                break
        if thorough and ref_prog is not None:
            out += self.gfortran_compare([(ref_prog, e1, inputs, cls_sem)])
        return out

    def gfortran_compare(self, triples):
        """[(orig, regen, inputs, cls)] -> failures; batched"""
        items, idx = [], []
        for j, (p0, p1, inputs, cls) in enumerate(triples):
            for ins in inputs:
                items.append((p0, ins)); items.append((p1, ins)); idx.append((j, cls))
        res = fir.run_gfortran(items, batch=40)
        out, seen = [], set()
        for k, (j, cls) in enumerate(idx):
            a, b = res[2 * k], res[2 * k + 1]
            if j in seen:
                continue
            if b[0] == 'compile-error' and a[0] != 'compile-error':
                seen.add(j); out.append((j, Failure('gfortran rejects the regenerated program: ' + str(b[1])[:120], cls)))
            elif a[0] == 'ok' and b[0] == 'ok':
                d = fir.compare_results(a, b, undef_wild=False)
                if d:
                    seen.add(j); out.append((j, Failure('regenerated program behaves differently (gfortran): ' + d, cls)))
            elif a[0] == 'ok' and b[0] != 'ok':
                seen.add(j); out.append((j, Failure(f'regenerated program fails under gfortran: {b[:2]}', cls)))
        return [f for _, f in out] if len(triples) == 1 else out

    def oracle_outside(self, src, driver=''):
        """constructs outside FIR: the regenerated text must be accepted by the frontend and by gfortran; with a driver
        program (plain text, not passed through Loki) original and regenerated units are run and their output compared"""
        out = []
        cls = 'construct-name-exit-cycle' if _RE_NAMED.search(src) else None
        try:
            sf0, t1 = regenerate(src, 'fortran')
        except Exception as e:  # noqa: BLE001
            return [Failure(f'the frontend rejects valid source ({type(e).__name__}: {str(e)[:80]})', cls)]
        if fir.gfortran_syntax_check(src) is not None:
            return []       # not a valid reference program for this gfortran
        err = fir.gfortran_syntax_check(t1)
        if err:
            out.append(Failure('gfortran rejects the regenerated text: ' + err[:120], None))
        elif driver:
            out += [Failure(f.what, cls) for f in self.run_text_pair(src + '\n' + driver, t1 + '\n' + driver)]
        return out

    def run_text_pair(self, src, t1):
        """programs that print their own results: compile+run original and regenerated text, compare stdout"""
        import subprocess, tempfile, shutil
        from pathlib import Path
        d = Path(tempfile.mkdtemp(prefix='c01_'))
        try:
            outs = []
            for name, text in (('a', src), ('b', t1)):
                (d / f'{name}.f90').write_text(text)
                p = subprocess.run([fir.GFORTRAN] + fir.GFORTRAN_FLAGS + [f'{name}.f90', '-o', name], cwd=d, stdout=subprocess.PIPE,
                                   stderr=subprocess.STDOUT, text=True)
                if p.returncode != 0:
                    outs.append(('compile-error', p.stdout[-200:]))
                    continue
                q = subprocess.run([str(d / name)], cwd=d, stdout=subprocess.PIPE, stderr=subprocess.STDOUT, text=True, timeout=30)
                outs.append((q.returncode, q.stdout))
            if outs[0][0] == 'compile-error':
                return []
            if outs[0] != outs[1]:
                return [Failure(f'regenerated program prints something else: {outs[0][1][:80]!r} vs {outs[1][1][:80]!r}', None)]
            return []
        finally:
            shutil.rmtree(d, ignore_errors=True)

    def post(self, cases, impl_out, model_raw, oracle_fail):
        n_out = sum(1 for c in cases if c.stream == 'outside-fir')
        return [], dict(not_under_a_theorem=f'{n_out} outside-fir programs (derived types, internal procedures, labelled DO, OPEN, '
                                            'WHERE, modules): gfortran/stdout oracle only; fir stream: execution oracle only')


# programs outside FIR: PROGRAM units with their own driver code are not accepted by Loki ("No support for PROGRAM" is only a
# warning: the unit is skipped), so these are modules/subroutines + a main program appended AFTER regeneration is impossible;
# they are checked for acceptance (frontend, gfortran syntax) and C02-stability of the regenerated text.
OUTSIDE_FIR = [
    ('derived-type', """module tmod
  implicit none
  type :: pt
    real :: x, y
    integer :: tag(3)
  end type pt
contains
  subroutine move(p, dx)
    type(pt), intent(inout) :: p
    real, intent(in) :: dx
    p%x = p%x + dx
    p%tag(2) = p%tag(1) - 1
  end subroutine move
end module tmod
""", """program main
  use tmod
  type(pt) :: p
  p%x = 1.5; p%y = 0.0; p%tag = (/4, 5, 6/)
  call move(p, 0.25)
  print *, p%x, p%tag
end program main
"""),
    ('internal-procedure', """subroutine outer(a, n)
  implicit none
  integer, intent(in) :: n
  real, intent(inout) :: a(n)
  integer :: i
  do i = 1, n
    a(i) = twice(a(i)) - 1.0
  end do
contains
  function twice(x) result(y)
    real, intent(in) :: x
    real :: y
    y = 2.0 * x
  end function twice
end subroutine outer
""", """program main
  real :: a(3)
  a = (/1.0, 2.5, -3.0/)
  call outer(a, 3)
  print *, a
end program main
"""),
    ('labelled-do', """subroutine lab(a, n, s)
  implicit none
  integer, intent(in) :: n
  real, intent(in) :: a(n)
  real, intent(out) :: s
  integer :: i
  s = 0.0
  do 10 i = 1, n
    if (a(i) < 0.0) goto 10
    s = s + a(i)
10 continue
end subroutine lab
""", """program main
  real :: a(4), s
  a = (/1.0, -2.0, 3.0, 0.5/)
  call lab(a, 4, s)
  print *, s
end program main
"""),
    ('open-write', """subroutine wr(a, n)
  implicit none
  integer, intent(in) :: n
  real, intent(in) :: a(n)
  integer :: u, i
  open (newunit=u, file='c01_out.txt', status='replace', action='write')
  do i = 1, n
    write (u, '(I4,1X,F8.3)') i, a(i)
  end do
  close (u)
end subroutine wr
""", ''),
    ('where', """subroutine wh(a, b, n)
  implicit none
  integer, intent(in) :: n
  real, intent(inout) :: a(n)
  real, intent(in) :: b(n)
  where (b > 0.0)
    a = a / b
  elsewhere (b < 0.0)
    a = -a
  elsewhere
    a = 0.0
  end where
end subroutine wh
""", """program main
  real :: a(4), b(4)
  a = (/1.0, 2.0, 3.0, 4.0/)
  b = (/2.0, -1.0, 0.0, 0.5/)
  call wh(a, b, 4)
  print *, a
end program main
"""),
    ('named-cycle', """subroutine nc(n, k)
  implicit none
  integer, intent(in) :: n
  integer, intent(out) :: k
  integer :: i, j
  k = 0
  outer: do i = 1, n
    do j = 1, n
      if (j == 2) cycle outer
      k = k + 1
    end do
  end do outer
end subroutine nc
""", """program main
  integer :: k
  call nc(3, k)
  print *, k
end program main
"""),
    ('named-exit', """subroutine ne(n, k)
  implicit none
  integer, intent(in) :: n
  integer, intent(out) :: k
  integer :: i, j
  k = 0
  outer: do i = 1, n
    do j = 1, n
      if (j == 2) exit outer
      k = k + 1
    end do
  end do outer
end subroutine ne
""", """program main
  integer :: k
  call ne(3, k)
  print *, k
end program main
"""),
    ('named-select-ranges', """subroutine ns(k)
  implicit none
  integer, intent(inout) :: k
  sel: select case (k)
  case (:0) sel
    k = -1
  case (1:5) sel
    k = 1
  case default sel
    k = 2
  end select sel
end subroutine ns
""", """program main
  integer :: k
  k = 3
  call ns(k)
  print *, k
  k = -7
  call ns(k)
  print *, k
end program main
"""),
    ('inline-if-char', """subroutine ic(s, n, m)
  implicit none
  character(len=*), intent(in) :: s
  integer, intent(in) :: n
  integer, intent(out) :: m
  m = 0
  if (n > 0) m = len_trim(s) + n
  if (s(1:1) == 'a' .or. s == "it's") m = -m
  print *, 'value: ', m, ' of "', trim(s), '"'
end subroutine ic
""", """program main
  integer :: m
  call ic('abc ', 2, m)
  call ic("it's", 0, m)
  call ic('zz', 5, m)
end program main
"""),
]


PROP = C01()
READY = True
