"""C35 — Fortran-to-C transpilation preserves behaviour.

Request families (decoded strictly from the request line):

* ``(cindex ((lo hi)…) (i…))`` — one array reference ``a(i1,…,ik)`` of an array declared ``a(lo1:hi1,…)`` goes through the REAL
  ``FortranCTransformation.generate_c_kernel``; the value of the flat C subscript it produces vs the Lean model ``cIndex``
  (correspondence) and vs the column-major offset of the Fortran element (oracle).
* ``(divmod a b)`` — operator choice of the real ``cgen`` for integer ``/``, integer ``MOD`` and real ``MOD`` plus the C99 values;
  thorough tier: the values are also computed by gcc.
* ``(passby)`` — by-value / pointer declarators of the C kernel and ``VALUE`` attributes of the ISO-C interface for the six
  (scalar|array) × intent combinations, read from the really generated files; must equal the table the Lean theorems are about.
* ``(prog <fir program> (inputs…)…)`` — thorough tier: a generated routine is translated by ``FortranCTransformation`` and
  ``FortranISOCWrapperTransformation``, the C kernel is compiled with gcc, wrapper + a Fortran driver with gfortran, linked and run
  on every input set; results are compared with the reference interpreter.
"""
import functools
import os
import re
import shutil
import subprocess
import tempfile
from concurrent.futures import ThreadPoolExecutor
from fractions import Fraction
from pathlib import Path

from ..core import Prop, Case, Failure, WORK
from ..sexpr import A, dumps, loads
from .. import fir
from ..feval import feval, tdiv
from . import c36 as G          # generator of transpilable routines, static types, helpers (same author, read-only use)

GCC = '/usr/bin/gcc'
h = G.h

TGEN_C = dict(clamp_subscripts=False, p_lower=0.35, p_step=0.3, p_int=0.01, p_mod=0.06, p_intdiv=0.1, p_pow=0.0,
              p_local_arrays=0.0, int_calls=False, p_nary=0.35)


# ====================================================================== class predicates (FIR side)

def c_type(e, dm):
    """type of the C expression generated for FIR expression e: MIN/MAX/ABS become fmin/fmax/fabs and `**` becomes pow, all of
    which return double whatever the operands"""
    k = h(e)
    if k == 'call' and str(e[1]) in ('min', 'max', 'abs'):
        return 'real'
    if k == 'bin' and str(e[1]) == 'pow':
        return 'real'
    if k == 'neg':
        return c_type(e[1], dm)
    if k == 'bin' and str(e[1]) in ('add', 'sub', 'mul', 'div'):
        return 'real' if 'real' in (c_type(e[2], dm), c_type(e[3], dm)) else 'int'
    if k == 'call' and str(e[1]) == 'mod':
        return G.ex_type(e, dm)
    return G.ex_type(e, dm)


def known_int_as_double(prog):
    """Lean/notes: class c-integer-intrinsic-double — an expression of Fortran type integer whose C translation has type double
    (integer MIN/MAX/ABS → fmin/fmax/fabs, integer ** → pow) is used where C needs an integer or where the type decides the
    operation: as array subscript, as operand of `%`, as operand of an integer `/`"""
    dm = G.decl_map(prog)
    isd = lambda e: G.ex_type(e, dm) == 'int' and c_type(e, dm) == 'real'
    for e in G.all_exprs(prog):
        k = h(e)
        if k == 'idx' and any(isd(s) for s in e[2:]):
            return True
        if k == 'call' and str(e[1]) == 'mod' and G.ex_type(e, dm) == 'int' and any(isd(a) for a in e[2:]):
            return True
        if k == 'bin' and str(e[1]) == 'div' and G.ex_type(e, dm) == 'int' and (isd(e[2]) or isd(e[3])):
            return True
    return False


def known_nested_subscript(prog):
    return G.known_nested_subscript(prog)


def known_neg_step_symbolic(prog):
    """a DO step that is not a literal (cgen chooses `<=` unless it can prove the step positive)"""
    for s in G.all_stmts(G.unit_of(prog)[4]):
        if h(s) == 'do' and h(s[4]) and G.const_int(s[4]) is None:
            return True
    return False


def known_int_cast(prog):
    """the INT(x) conversion: CCodeMapper.map_cast looks the name `int` up in BasicType.from_fortran_type and raises KeyError"""
    return any(h(e) == 'call' and str(e[1]) == 'int' for e in G.all_exprs(prog))


def known_mod_factor(prog):
    """an integer MOD is the right operand of `*` or `/`: CCodeMapper prints `(a)%(b)` without enclosing parentheses, so
    `x*(a)%(b)` is read `(x*a)%b` by C"""
    dm = G.decl_map(prog)
    return any(h(e) == 'bin' and str(e[1]) in ('mul', 'div') and h(e[3]) == 'call' and str(e[3][1]) == 'mod'
               and G.ex_type(e[3], dm) == 'int' for e in G.all_exprs(prog))


def known_loop_bound_modified(prog):
    """a variable occurring in the bounds or step of a DO loop is assigned in the loop body: the generated `for` re-evaluates the
    bound on every iteration, Fortran fixes the trip count at entry"""
    def names(e):
        return {str(x[1]) for x in G.sub_exprs(e) if h(x) in ('v', 'idx')}
    for s in G.all_stmts(G.unit_of(prog)[4]):
        if h(s) == 'do':
            used = set().union(*[names(e) for e in (s[2], s[3], s[4]) if h(e)])
            for t in G.all_stmts(s[5]):
                if h(t) == 'assign' and str(t[1][1]) in used:
                    return True
                if h(t) == 'do' and str(t[1]) in used:
                    return True
    return False


def known_empty_body(prog):
    """(repaired, no longer a class: kept as a generator predicate) the routine has no statement at all — before the fix
    generate_c_kernel did `kernel.body.prepend(…)` on a body that is None"""
    return len(G.unit_of(prog)[4]) == 0


def known_minmax_variadic(prog):
    """(repaired, no longer a class: kept as a generator predicate) MIN / MAX with more than two arguments — before the fix
    `fmin(a, b, c)` was printed, which does not compile; now the calls are nested pairwise"""
    return any(h(e) == 'call' and str(e[1]) in ('min', 'max') and len(e) > 4 for e in G.all_exprs(prog))


PROG_CLASSES = [
    ('c-int-cast', known_int_cast),
    ('c-loop-bound-modified', known_loop_bound_modified),
    ('c-mod-unparenthesised', known_mod_factor),
    ('c-nested-subscript', known_nested_subscript),
    ('c-integer-intrinsic-double', known_int_as_double),
]


def classify_prog(prog):
    for name, pred in PROG_CLASSES:
        if pred(prog):
            return name
    return None


# ====================================================================== real transformations → files → executable

_SCRATCH = None


def scratch():
    global _SCRATCH
    if _SCRATCH is None:
        WORK.mkdir(exist_ok=True)
        _SCRATCH = Path(tempfile.mkdtemp(prefix=f'c35_{os.getpid()}_', dir=str(WORK)))
        import atexit
        atexit.register(lambda: shutil.rmtree(_SCRATCH, ignore_errors=True))
    return _SCRATCH


def transpile_c(prog, d):
    """run the two real transformations on the main unit; returns (c file, wrapper file, routine name)"""
    from loki.transformations.transpile import FortranCTransformation, FortranISOCWrapperTransformation
    src = fir.emit_fortran(prog, wrap_program=False)
    routine = fir.parse_fortran(src).routines[0]
    FortranCTransformation().apply(source=routine, path=d)
    FortranISOCWrapperTransformation().apply(source=routine, path=d)
    name = routine.name.lower()
    return d / f'{name}_c.c', d / f'{name}_fc.F90', name


def driver_source(prog, inputs, name):
    """Fortran main program: one driver subroutine per input set, each calling the ISO-C wrapper `<name>_fc`"""
    lines = []
    for k, inp in enumerate(inputs):
        drv = fir.emit_driver(prog, inp, name=f'drv_{k}', tag=k)
        out = []
        for l in drv:
            if l.strip() == 'implicit none':
                out.append(f'  use {name}_fc_mod, only: {name}_fc')
            out.append(l.replace(f'call {name}(', f'call {name}_fc('))
        lines += out + ['']
    lines += ['program c35_main', '  implicit none'] + [f'  call drv_{k}()' for k in range(len(inputs))] + ['end program c35_main', '']
    return '\n'.join(lines)


def sh(cmd, cwd, timeout=120):
    p = subprocess.run(cmd, cwd=cwd, stdout=subprocess.PIPE, stderr=subprocess.STDOUT, text=True, timeout=timeout)
    return p.returncode, p.stdout


def _first_error(out):
    for l in out.splitlines():
        if 'error' in l.lower():
            return l.strip()[:240]
    return out.strip()[:240]


# ====================================================================== subscript family

def cindex_real(bounds, idx):
    return _cindex_real(tuple(bounds), tuple(idx))


@functools.lru_cache(maxsize=4096)
def _cindex_real(bounds, idx):
    """value of the flat subscript the real pipeline generates for a(i1..ik), a declared with `bounds`"""
    from loki.transformations.transpile import FortranCTransformation
    from loki import FindNodes, Assignment
    k = len(bounds)
    names = [f'j{q + 1}' for q in range(k)]
    decl = ', '.join(f'{lo}:{hi}' for lo, hi in bounds)
    src = (f'subroutine probe(a, {", ".join(names)})\n  implicit none\n  integer, intent(inout) :: a({decl})\n'
           + ''.join(f'  integer, intent(in) :: {n}\n' for n in names)
           + f'  a({", ".join(names)}) = 1\nend subroutine probe\n')
    routine = fir.parse_fortran(src).routines[0]
    kernel = FortranCTransformation().generate_c_kernel(routine, targets=None)
    asg = FindNodes(Assignment).visit(kernel.body)[0]
    dims = asg.lhs.dimensions
    if len(dims) != 1:
        return ('subscripts', len(dims))
    return ('ok', feval(dims[0], dict(zip(names, idx))))


def fortran_offset(bounds, idx):
    """column-major offset of element idx (None when out of bounds)"""
    off, stride = 0, 1
    for (lo, hi), i in zip(bounds, idx):
        if not lo <= i <= hi:
            return None
        off += (i - lo) * stride
        stride *= hi - lo + 1
    return off


# ====================================================================== operator family

def c_trunc_div(a, b):
    """C99 6.5.5 written independently: sign · (|a| div |b|)"""
    q = abs(a) // abs(b)
    return q if (a < 0) == (b < 0) else -q


class CExprError(Exception):
    pass


_CX_TOK = re.compile(r"""\s*(?:(?P<real>(?:\d+\.\d*|\.\d+)(?:[eE][+-]?\d+)?|\d+[eE][+-]?\d+)|(?P<int>\d+)|(?P<id>[A-Za-z_]\w*)
                         |(?P<op>\+|-|\*|/|%|\(|\)|,))""", re.X)
_CX_TYPES = ('int', 'double', 'float')


def c_eval_text(text, env):
    """value of a C expression text under C99 semantics, written from the standard (6.5.5: `* / %` one precedence level, left
    associative, above `+ -`; unary minus above them; `/` on two ints truncates; `%` needs two ints; the usual arithmetic
    conversions).  C `int` = Python int, C `double` = Fraction (exact).  Supported: integer and floating constants, identifiers
    from `env`, `+ - * / %`, unary `- +`, parentheses, casts `(int)`/`(double)`, and the calls fmod fmin fmax fabs pow.
    Raises CExprError for anything else, for division by zero and for `%` with a floating operand (a constraint violation in C)."""
    toks, pos = [], 0
    text = text.strip()
    while pos < len(text):
        m = _CX_TOK.match(text, pos)
        if not m or m.end() == pos:
            raise CExprError(f'cannot tokenise {text[pos:]!r}')
        pos = m.end()
        toks.append(('real', m.group('real')) if m.group('real') else ('int', m.group('int')) if m.group('int')
                    else ('id', m.group('id')) if m.group('id') else ('op', m.group('op')))
    k = 0

    def peek(j=0):
        return toks[k + j] if k + j < len(toks) else (None, None)

    def take(kind=None, val=None):
        nonlocal k
        t = peek()
        if t[0] is None or (kind and t[0] != kind) or (val and t[1] != val):
            raise CExprError(f'unexpected {t[1]!r} in {text!r}')
        k += 1
        return t

    def trunc(q):
        return int(q.numerator // q.denominator) if q >= 0 else -int((-q.numerator) // q.denominator)

    def arith(op, a, b):
        ints = isinstance(a, int) and isinstance(b, int)
        if op == '%':
            if not ints:
                raise CExprError('invalid operands to binary % (have double)')
            if b == 0:
                raise CExprError('division by zero')
            return a - c_trunc_div(a, b) * b
        if op == '/':
            if b == 0:
                raise CExprError('division by zero')
            return c_trunc_div(a, b) if ints else Fraction(a) / Fraction(b)
        r = a + b if op == '+' else a - b if op == '-' else a * b
        return r if ints else Fraction(r)

    def call(name, args):
        fr = [Fraction(a) for a in args]
        if name == 'fmod' and len(fr) == 2:
            if fr[1] == 0:
                raise CExprError('fmod by zero')
            return fr[0] - trunc(fr[0] / fr[1]) * fr[1]
        if name in ('fmin', 'fmax') and len(fr) == 2:
            return min(fr) if name == 'fmin' else max(fr)
        if name == 'fabs' and len(fr) == 1:
            return abs(fr[0])
        if name == 'pow' and len(fr) == 2 and fr[1].denominator == 1 and abs(fr[1]) <= 32:
            if fr[0] == 0 and fr[1] < 0:
                raise CExprError('pow(0, negative)')
            return fr[0] ** int(fr[1])
        raise CExprError(f'call {name} with {len(args)} arguments')

    def primary():
        t = take()
        if t[0] == 'int':
            return int(t[1])
        if t[0] == 'real':
            return Fraction(t[1])
        if t[0] == 'id':
            if peek() == ('op', '('):
                take()
                args = []
                if peek() != ('op', ')'):
                    args.append(additive())
                    while peek() == ('op', ','):
                        take()
                        args.append(additive())
                take('op', ')')
                return call(t[1], args)
            if t[1] not in env:
                raise CExprError(f'unknown identifier {t[1]}')
            return env[t[1]]
        if t == ('op', '('):
            if peek()[0] == 'id' and peek()[1] in _CX_TYPES and peek(1) == ('op', ')'):      # cast
                ty = take()[1]
                take('op', ')')
                v = unary()
                return (v if isinstance(v, int) else trunc(v)) if ty == 'int' else Fraction(v)
            v = additive()
            take('op', ')')
            return v
        raise CExprError(f'unexpected {t[1]!r} in {text!r}')

    def unary():
        if peek() == ('op', '-'):
            take()
            return -unary()
        if peek() == ('op', '+'):
            take()
            return unary()
        return primary()

    def multiplicative():
        v = unary()
        while peek()[0] == 'op' and peek()[1] in '*/%':
            op = take()[1]
            v = arith(op, v, unary())
        return v

    def additive():
        v = multiplicative()
        while peek()[0] == 'op' and peek()[1] in '+-':
            op = take()[1]
            v = arith(op, v, multiplicative())
        return v

    v = additive()
    if k != len(toks):
        raise CExprError(f'trailing {peek()[1]!r} in {text!r}')
    return v


@functools.lru_cache(maxsize=None)
def cgen_ops():
    """texts the real cgen prints for i / j, mod(i, j), mod(x, y), mod(i, 2.0)"""
    from loki.backend.cgen import cgen
    from loki import FindNodes, Assignment
    src = ('subroutine ops(i, j, k, x, y, z)\n  implicit none\n  integer, intent(in) :: i, j\n  integer, intent(out) :: k\n'
           '  real, intent(in) :: x, y\n  real, intent(out) :: z\n  k = i / j\n  k = mod(i, j)\n  z = mod(x, y)\n  z = mod(i, 2.0)\n'
           'end subroutine ops\n')
    routine = fir.parse_fortran(src).routines[0]
    return tuple(cgen(a.rhs) for a in FindNodes(Assignment).visit(routine.body))


def op_choice(text):
    """which C operator / function a printed text uses (independent of its parenthesisation)"""
    return 'fmod' if 'fmod(' in text else 'pct' if '%' in text else 'slash' if '/' in text else 'other'


def ops_values(a, b):
    """[(text, C value or error text, Fortran value)] of the four operator probes at i = a, j = b, x = a/2, y = b/2"""
    env = {'i': a, 'j': b, 'x': Fraction(a, 2), 'y': Fraction(b, 2)}
    rt = lambda q: int(q.numerator // q.denominator) if q >= 0 else -int((-q.numerator) // q.denominator)
    x, y = env['x'], env['y']
    want = [tdiv(a, b), a - tdiv(a, b) * b, x - rt(x / y) * y, Fraction(a) - rt(Fraction(a, 2)) * 2]
    out = []
    for text, w in zip(cgen_ops(), want):
        try:
            got = c_eval_text(text, env)
        except CExprError as e:
            got = f'error: {e}'
        out.append((text, got, w))
    return out


_GCC_DIVMOD = None


def gcc_divmod(R=12):
    """{(a, b): (a/b, a%b)} computed by a gcc-compiled program for the box [-R, R]²"""
    global _GCC_DIVMOD
    if _GCC_DIVMOD is None:
        d = Path(tempfile.mkdtemp(prefix='dm_', dir=str(scratch())))
        (d / 'dm.c').write_text(
            '#include <stdio.h>\nint main(void){ for (int a=-%d;a<=%d;a++) for (int b=-%d;b<=%d;b++) if (b) '
            'printf("%%d %%d %%d %%d\\n", a, b, a/b, (a)%%(b)); return 0; }\n' % (R, R, R, R))
        rc, out = sh([GCC, '-std=c99', 'dm.c', '-o', 'dm.x'], d)
        if rc != 0:
            raise RuntimeError('gcc: ' + out[:200])
        rc, out = sh(['./dm.x'], d)
        _GCC_DIVMOD = {}
        for l in out.splitlines():
            a, b, q, r = map(int, l.split())
            _GCC_DIVMOD[(a, b)] = (q, r)
    return _GCC_DIVMOD


# ====================================================================== argument passing table

@functools.lru_cache(maxsize=None)
def pass_table():
    """[(is_array, intent, 'value'|'pointer', iface VALUE)] from the really generated kernel and wrapper of six probe routines"""
    from loki.transformations.transpile import FortranCTransformation, FortranISOCWrapperTransformation
    rows = []
    d = Path(tempfile.mkdtemp(prefix='pb_', dir=str(scratch())))
    for arr in (False, True):
        for intent in ('in', 'inout', 'out'):
            name = f'pb_{"a" if arr else "s"}_{intent}'
            decl = 'v(3)' if arr else 'v'
            # (a routine without any executable statement makes generate_c_kernel fail: `kernel.body` is None there)
            body = '  t = 1\n' + ('' if intent == 'in' else ('  v(1) = 1\n' if arr else '  v = 1\n'))
            src = (f'subroutine {name}(v)\n  implicit none\n  integer, intent({intent}) :: {decl}\n  integer :: t\n{body}'
                   f'end subroutine {name}\n')
            routine = fir.parse_fortran(src).routines[0]
            FortranCTransformation().apply(source=routine, path=d)
            FortranISOCWrapperTransformation().apply(source=routine, path=d)
            ctext = (d / f'{name}_c.c').read_text()
            m = re.search(name + r'_c\(([^)]*)\)', ctext)
            if not m:
                raise ValueError('C signature not found')
            rows.append((arr, intent, 'pointer' if '*' in m.group(1) else 'value',
                         bool(re.search(r'VALUE\s*::\s*v\b', (d / f'{name}_fc.F90').read_text(), re.I))))
    shutil.rmtree(d, ignore_errors=True)
    return tuple(rows)


def gen_tables():
    import ast as _ast
    rows = pass_table()
    b = lambda v: 'true' if v else 'false'
    src = (Path(os.environ.get('LOKI_REPO', '/repo')) / 'loki/transformations/transpile/fortran_c.py').read_text()
    m = re.search(r'function_map\s*=\s*(\{.*?\})', src, re.S)
    fmap = _ast.literal_eval(m.group(1)) if m else {}
    return '\n'.join([
        '/-! GENERATED by harness/props/c35.py from /repo — do not edit. -/',
        'namespace LokiModel.C35.Tables',
        '/-- (is array, intent, C declarator of the kernel argument: "value" | "pointer", ISO-C interface has VALUE) — one row per probe routine run through the real transformations -/',
        'def passTable : List (Bool × String × String × Bool) := [',
        '  ' + ', '.join(f'({b(a)}, "{i}", "{p}", {b(v)})' for a, i, p, v in rows) + ']',
        "/-- `FortranCTransformation`'s intrinsic function map -/",
        'def functionMap : List (String × String) := [' + ', '.join(f'("{k}", "{v}")' for k, v in fmap.items()) + ']',
        'end LokiModel.C35.Tables']) + '\n'


# ====================================================================== integer MOD expressions (family `cexpr`)

from ..fir import I, V, BIN, NEG, CALL, ilit       # noqa: E402


def gen_mod_expr(rng, in_class=False):
    """an integer expression over i, j, k built around MOD calls whose operands are products, quotients, sums, negations and
    nested MODs (the operand shapes where the parenthesisation of the printed `%` matters).  `in_class`: a MOD is the right
    operand of `*` or `/` (class c-mod-unparenthesised of the unchanged code); otherwise MODs only stand where the unchanged
    printer is right (top level, left operand, term of a sum, argument of another MOD)."""
    var = lambda: V(rng.choice('ijk'))
    small = lambda: I(rng.randint(2, 7))

    def pos():          # a strictly positive integer expression (safe second operand / divisor)
        r = rng.random()
        v = var()
        if r < 0.3:
            return BIN('add', BIN('mul', v, v), I(rng.randint(1, 4)))
        if r < 0.5:
            return small()
        if r < 0.75:
            return BIN('add', CALL('mod', BIN('mul', v, v), small()), I(1))
        return BIN('add', BIN('mul', v, var()), I(100))

    def second(d):      # second operand: the seeded family is product / quotient; also sum, variable, literal, nested mod
        r = rng.random()
        if r < 0.3:
            return BIN('mul', small(), pos())                       # 2*k
        if r < 0.45:
            return BIN('mul', pos(), small())
        if r < 0.6:
            return BIN('div', BIN('add', pos(), I(12)), small())     # n/2  (≥ 1)
        if r < 0.7:
            return BIN('div', BIN('mul', I(20), pos()), pos()) if d > 0 else pos()
        if r < 0.8:
            return pos()
        if r < 0.9:
            return small()
        return BIN('add', mod(d - 1), I(50)) if d > 0 else small()

    def first(d):
        r = rng.random()
        if r < 0.25:
            return BIN('mul', small(), var())
        if r < 0.4:
            return BIN(rng.choice(('add', 'sub')), var(), var())
        if r < 0.5:
            return BIN('div', BIN('mul', var(), var()), small())
        if r < 0.6:
            return NEG(var())
        if r < 0.75 and d > 0:
            return mod(d - 1)
        if r < 0.85:
            return BIN('add', BIN('mul', var(), small()), I(rng.randint(1, 30)))
        return var()

    def mod(d):
        return CALL('mod', first(d), second(d))

    m = mod(2)
    if in_class:
        return BIN(rng.choice(('mul', 'mul', 'div')), BIN('add', var(), I(20)) if rng.random() < 0.5 else small(),
                   BIN('add', m, I(0)) if False else m)
    r = rng.random()
    if r < 0.3:
        return m
    if r < 0.45:
        return BIN('add', m, mod(1))
    if r < 0.6:
        return BIN('sub', var(), m)
    if r < 0.75:
        return BIN('mul', m, small())
    if r < 0.85:
        return BIN('div', m, small())
    return NEG(m)


def cexpr_program(e):
    d = lambda x, intent: [A('decl'), A(x), A('int'), A(intent), [], fir.NONE]
    unit = [A('unit'), A('kernel'), [A('i'), A('j'), A('k'), A('r')], [d('i', 'in'), d('j', 'in'), d('k', 'in'), d('r', 'out')],
            [[A('assign'), V('r'), e]]]
    return fir.canon([A('program'), A('kernel'), unit])


def gen_cexpr(rng, in_class=False):
    """(program, [inputs]) with three input sets on which the Fortran value exists"""
    for _ in range(50):
        prog = cexpr_program(gen_mod_expr(rng, in_class))
        if known_mod_factor(prog) != in_class:
            continue
        inputs = []
        for _ in range(30):
            if len(inputs) == 3:
                break
            inp = [[A(x), fir.encode_val(rng.choice([v for v in range(-9, 10) if v]))] for x in 'ijk']
            stats = {}
            res = fir.interp(prog, inp, stats=stats)
            if res[0] == 'ok' and stats.get('max_int', 0) < 2 ** 28:
                inputs.append(inp)
        if len(inputs) == 3:
            return prog, inputs
    raise RuntimeError('no MOD expression found')


def cexpr_text(prog):
    """the C text of the right-hand side after the REAL generate_c_kernel + cgen"""
    from loki.transformations.transpile import FortranCTransformation
    from loki.backend.cgen import cgen
    from loki import FindNodes, Assignment
    routine = fir.parse_fortran(fir.emit_fortran(prog, wrap_program=False)).routines[0]
    kernel = FortranCTransformation().generate_c_kernel(routine, targets=None)
    asg = FindNodes(Assignment).visit(kernel.body)
    if len(asg) != 1:
        raise ValueError('expected one assignment')
    return cgen(asg[0].rhs)


# ====================================================================== loop headers (family `cloop`)

_FOR = re.compile(r'for \((\w+) = (.+); \1 (<=|>=|<|>) (.+); \1 \+= (.+)\) \{$')


def c_loop_header(s, e, st):
    """the `for (…)` line the real CCodegen.visit_Loop prints for `DO i = s, e[, st]` with literal bounds"""
    from loki.backend.cgen import cgen
    from loki.expression import symbols as sym
    from loki.ir import Loop
    from .. import exprs as X
    lit = lambda n: sym.IntLiteral(n) if n >= 0 else sym.Product((-1, sym.IntLiteral(-n)))
    bounds = sym.LoopRange((lit(s), lit(e), None if st is None else lit(st)))
    return cgen(Loop(variable=X.var('i'), bounds=bounds, body=())).splitlines()[0].strip()


def c_loop_values(header, cap=10000):
    """execute a C `for` header: the values of the loop variable for which the body runs, and its value after the loop
    (condition and increment are re-evaluated every time round, as C does)"""
    m = _FOR.match(header)
    if not m:
        raise CExprError(f'unexpected loop header {header!r}')
    v, start, crit, end, incr = m.groups()
    env = {}
    env[v] = c_eval_text(start, env)
    seen = []
    test = {'<=': lambda a, b: a <= b, '>=': lambda a, b: a >= b, '<': lambda a, b: a < b, '>': lambda a, b: a > b}[crit]
    while test(env[v], c_eval_text(end, env)):
        seen.append(env[v])
        if len(seen) > cap:
            raise CExprError('loop does not terminate')
        env[v] = env[v] + c_eval_text(incr, env)
    return seen, env[v]


def fortran_do(s, e, st):
    n = max(0, tdiv(e - s + st, st))
    return [s + q * st for q in range(n)], s + n * st


# ====================================================================== ABI of default REAL

ABI_SRC = '''
subroutine dr(x, y)
  implicit none
  real, intent(in) :: x
  real, intent(out) :: y
  y = x + 1.0
end subroutine dr
'''


def abi_default_real():
    """translate the fixed routine `y = x + 1.0` with default REAL dummies, build WITHOUT -fdefault-real-8, call through the
    wrapper with x = 2.5; returns the printed y as Fraction, or an error text"""
    from loki import Subroutine
    from loki.transformations.transpile import FortranCTransformation, FortranISOCWrapperTransformation
    d = Path(tempfile.mkdtemp(prefix='abi_', dir=str(scratch())))
    try:
        r = Subroutine.from_source(ABI_SRC)
        FortranCTransformation().apply(source=r, path=d)
        FortranISOCWrapperTransformation().apply(source=r, path=d)
        (d / 'main.f90').write_text('program m\n  use dr_fc_mod, only: dr_fc\n  implicit none\n  real :: x, y\n  x = 2.5\n  y = -1.0\n'
                                    '  call dr_fc(x, y)\n  write(*,\'(ES25.17E3)\') y\nend program m\n')
        for cmd in ([GCC, '-std=c99', '-c', 'dr_c.c', '-o', 'dr_c.o'], [fir.GFORTRAN, '-c', 'dr_fc.F90'],
                    [fir.GFORTRAN, 'main.f90', 'dr_fc.o', 'dr_c.o', '-lm', '-o', 'a.x']):
            rc, out = sh(cmd, d)
            if rc != 0:
                return 'build: ' + _first_error(out)
        rc, out = sh(['./a.x'], d)
        try:
            return Fraction(float(out.strip()))
        except ValueError:
            return 'run: ' + out[:100]
    finally:
        shutil.rmtree(d, ignore_errors=True)


# ====================================================================== the property

class C35(Prop):
    id = 'C35'
    title = 'Fortran-to-C transpilation preserves behaviour'
    model_modules = ['LokiModel.C35.Model']
    props_module = 'LokiModel.Props.C35'
    findings_module = 'LokiModel.Findings.C35'
    driver = 'Drivers/C35.lean'
    theorems = ['c_index_eq', 'c_div_eq', 'c_mod_eq', 'c_mod_choice_int', 'c_eval_eq_partial', 'c_print_eval_partial',
                'c_pass_writable_by_pointer', 'c_pass_value_iff_iface_value', 'c_pass_table_complete']
    design_ref = 'DESIGN.md 4.F C35'
    level = 'proof'
    level_text = (
        'Theorems (Lean kernel): c_index_eq — for every rank, bounds list and in-bounds subscript tuple the flat C subscript produced by '
        'normalise/invert/shift/flatten(order C) is the column-major offset of the Fortran element (induction on the dimension list); '
        'c_div_eq, c_mod_eq — C99 integer / and % (defined from sign and magnitude) are Fortran / and MOD for all signs; '
        'c_eval_eq_partial — outside the decidable class of integer-base powers (C pow returns double) the C value of a meaning tree is '
        'the Fortran value, composed with C06\'s printer theorem in c_print_eval_partial (printed tokens → C99 grammar → C value = Fortran '
        'value of the Loki tree, for trees in GoodC); c_pass_* — about the table regenerated from the real transformations on every run: '
        'everything the kernel may write is a pointer, by-value C parameters are exactly VALUE dummies of the ISO-C interface. '
        'Correspondence: the subscript the real pipeline generates vs the Lean model on generated bounds/subscripts; operator choice of '
        'the real cgen. Whole routines (statements, declarations, wrapper, ABI) are covered by the direct oracle only, in the thorough '
        'tier: gcc-compiled kernel + gfortran-compiled wrapper and driver vs the reference interpreter.')
    level_note = ('No Lean model of FortranCTransformation at statement level: oracle only. The C compiler and the Fortran/C ABI are '
                  'exercised, not modelled. Reals are exact rationals in model and reference; inputs are dyadic. Derived-type arguments, '
                  'module variables (getter functions), calls to other kernels, cpp/cuda back ends are not covered.')
    technique = ('Lean 4 theorems about a value-level model of the subscript pipeline and C operator semantics + correspondence with the '
                 'real pipeline + compiling and running the really generated C kernel through the generated ISO-C wrapper')
    rule = ('cindex: ranks 1-4, random literal bounds (any lower bound), every corner and random interior subscripts; divmod: all (a,b) of a '
            'box; passby: the six combinations; prog (thorough): routines from the C36 generator configured for C (any lower bounds, literal '
            'steps, INT, MOD, integer division), 3 dyadic input sets each; non-trivial = outside every known class')
    trusted_base = ['harness/fir.py reference interpreter (compared with Lean Fir.Sem on the same programs)', 'harness/feval.py',
                    'gcc 12 / gfortran 12 (thorough tier)', 'C99 6.5.5 as transcribed in cDiv/cMod (checked against gcc on a box)']
    assumptions = ['compiled with -fdefault-real-8: FIR has one real type (double); default REAL maps to C double in the generated code',
                   'integer overflow is not modelled (generated values stay below 2^28)']
    extra_obligations = ['oracle: flat C subscript vs column-major offset', 'oracle (thorough): C kernel through ISO-C wrapper vs reference interpreter',
                         'gcc values of / and % vs cDiv/cMod (thorough)', 'reference interpreter vs Lean FIR semantics on every generated routine']

    def tables(self):
        return {'LokiModel/Generated/C35Tables.lean': gen_tables()}

    def classes(self):
        return [c for c, _ in PROG_CLASSES] + ['c-default-real-double']

    # ---------------------------------------------------------------- generation
    def gen(self, rng, tier):
        self._tier = tier
        self._cache = {}
        n_idx = {'quick': 50, 'thorough': 300, 'search': 120}.get(tier, 50)
        for _ in range(n_idx):
            k = rng.choice((1, 2, 2, 3, 3, 4))
            bounds = []
            for _ in range(k):
                lo = rng.choice((1, 1, 0, -2, 3, rng.randint(-5, 5)))
                bounds.append((lo, lo + rng.randint(0, 4)))
            r = rng.random()
            if r < 0.2:
                idx = [lo for lo, hi in bounds]
            elif r < 0.4:
                idx = [hi for lo, hi in bounds]
            else:
                idx = [rng.randint(lo, hi) for lo, hi in bounds]
            yield Case([A('cindex'), [[lo, hi] for lo, hi in bounds], idx], stream=f'cindex-rank{k}',
                       nontrivial=any(i != lo for (lo, hi), i in zip(bounds, idx)))
        R = {'quick': 6, 'thorough': 12, 'search': 8}.get(tier, 6)
        for a in range(-R, R + 1):
            for b in range(-R, R + 1):
                if b:
                    yield Case([A('divmod'), a, b], stream='divmod', nontrivial=a % b != 0 and (a < 0 or b < 0))
        yield Case([A('passby')], stream='passby')
        # integer MOD with compound operands: the printed C text is evaluated with C semantics
        n_mod = {'quick': 40, 'thorough': 400, 'search': 150}.get(tier, 40)
        for q in range(n_mod):
            in_class = q % 8 == 7
            prog, inputs = gen_cexpr(rng, in_class)
            yield Case([A('cexpr'), prog] + inputs, stream='cexpr-class' if in_class else 'cexpr', nontrivial=not in_class)
        # loop headers: exhaustive box, every sign of the step, sequences that reach / miss the stop value, zero-trip loops
        RL = {'quick': 4, 'thorough': 7, 'search': 5}.get(tier, 4)
        for s0 in range(-RL, RL + 1):
            for e0 in range(-RL, RL + 1):
                for st in [None] + [c for c in range(-RL, RL + 1) if c != 0]:
                    seq, _ = fortran_do(s0, e0, 1 if st is None else st)
                    yield Case([A('cloop'), s0, e0, A('none') if st is None else st],
                               stream='cloop-down' if st is not None and st < 0 else 'cloop-up', nontrivial=bool(seq))
        if tier == 'quick':
            return
        n_prog = {'thorough': 90, 'search': 40}.get(tier, 0)
        reqs = []
        for k in range(n_prog):
            cfg = dict(TGEN_C)
            if k % 10 == 9:
                cfg.update(clamp_subscripts=True)          # class c-integer-intrinsic-double
            if k % 10 == 8:
                cfg.update(p_nested=0.5, int_calls=True, clamp_subscripts=True)
            prog, inputs = G.gen_routine(rng, cfg)
            if k % 30 == 7:
                # a routine without any executable statement (intent(out) dummies stay undefined: wildcards of the comparison)
                u = prog[2]
                prog = fir.canon([prog[0], prog[1], u[:4] + [[]]])
            cls = classify_prog(prog)
            c = Case([A('prog'), prog] + inputs, stream='prog-empty' if known_empty_body(prog) else 'prog', nontrivial=cls is None)
            reqs.append(c)
            yield c
        # compile and run everything in parallel now; the oracle looks the results up by request line
        self.prefetch(reqs)

    def prefetch(self, cases):
        jobs = []
        for c in cases:
            prog, inputs = self.dec_prog(c.req)
            jobs.append((c.line, prog, inputs))
        # the transformations run in this process (not thread safe: pydantic/loki global state) → serial; compilers in threads
        with ThreadPoolExecutor(max_workers=min(8, os.cpu_count() or 2)) as ex:
            futs = [(line, ex.submit(build_and_run_prepared, prepare(prog, inputs))) for line, prog, inputs in jobs]
            for line, f in futs:
                self._cache[line] = f.result()

    # ---------------------------------------------------------------- decoding
    @staticmethod
    def dec_prog(req):
        if len(req) < 3 or h(req[1]) != 'program' or not all(isinstance(i, list) for i in req[2:]):
            raise ValueError('malformed prog request')
        G.unit_of(req[1])[4]
        return req[1], req[2:]

    @staticmethod
    def dec_cindex(req):
        if len(req) != 3 or not isinstance(req[1], list) or not isinstance(req[2], list) or len(req[1]) != len(req[2]) or not req[1]:
            raise ValueError('malformed cindex request')
        bounds = [(int(str(b[0])), int(str(b[1]))) for b in req[1]]
        if any(len(b) != 2 for b in req[1]):
            raise ValueError('malformed cindex request')
        return bounds, [int(str(i)) for i in req[2]]

    # ---------------------------------------------------------------- real code → canonical response
    def impl(self, req):
        op = str(req[0])
        if op == 'cindex':
            bounds, idx = self.dec_cindex(req)
            tag, v = cindex_real(bounds, idx)
            return [A('ok'), v] if tag == 'ok' else [A('error'), A(tag), v]
        if op == 'divmod':
            a, b = int(str(req[1])), int(str(req[2]))
            choice = [A(op_choice(t)) for t in cgen_ops()]
            q = c_trunc_div(a, b)
            return [A('ok'), choice, q, a - q * b]
        if op == 'passby':
            return [A('ok')] + [[a, A(i), A(p), v] for a, i, p, v in pass_table()]
        if op == 'prog':
            prog, inputs = self.dec_prog(req)
            return [A('ok')] + [fir.result_to_sexp(fir.interp(prog, inp)) for inp in inputs]
        if op == 'abi':
            return [A('ok'), A('abi')]
        if op == 'cexpr':
            prog, inputs = self.dec_prog(req)
            return [A('ok')] + [fir.result_to_sexp(fir.interp(prog, inp)) for inp in inputs]
        if op == 'cloop':
            s0, e0, st = self.dec_cloop(req)
            try:
                return [A('ok')] + c_loop_values(c_loop_header(s0, e0, st))[0]
            except CExprError as e:
                return [A('error'), str(e)[:80]]
        raise ValueError(op)

    @staticmethod
    def dec_cloop(req):
        if len(req) != 4:
            raise ValueError('malformed cloop request')
        st = None if str(req[3]) == 'none' else int(str(req[3]))
        if st == 0:
            raise ValueError('zero step')
        return int(str(req[1])), int(str(req[2])), st

    # ---------------------------------------------------------------- direct oracle
    def oracle(self, req):
        op = str(req[0])
        if op == 'cindex':
            bounds, idx = self.dec_cindex(req)
            want = fortran_offset(bounds, idx)
            if want is None:
                return []
            tag, v = cindex_real(bounds, idx)
            if tag != 'ok' or v != want:
                return [Failure(f'a({", ".join(f"{lo}:{hi}" for lo, hi in bounds)}), element {idx}: generated C subscript has value '
                                f'{v} ({tag}), the Fortran element is at offset {want}')]
            return []
        if op == 'divmod':
            a, b = int(str(req[1])), int(str(req[2]))
            out = []
            # semantic: the texts cgen really prints for i/j, mod(i,j), mod(x,y), mod(i,2.0), evaluated with C semantics
            for text, got, want in ops_values(a, b):
                same = type(got) is type(want) and got == want if isinstance(want, int) else (not isinstance(got, (int, str)) and got == want)
                if not same:
                    out.append(Failure(f'cgen prints {text!r}; with i={a}, j={b}, x={a}/2, y={b}/2 its C value is {got}, Fortran gives {want}'))
            fq, fr = tdiv(a, b), a - tdiv(a, b) * b
            if getattr(self, '_tier', 'quick') != 'quick' and os.path.exists(GCC) and abs(a) <= 12 and abs(b) <= 12:
                q, r = gcc_divmod()[(a, b)]
            else:
                q = c_trunc_div(a, b)
                r = a - q * b
            if (q, r) != (fq, fr):
                out.append(Failure(f'{a} / {b}, {a} % {b}: C gives {(q, r)}, Fortran {(fq, fr)}'))
            return out
        if op == 'passby':
            out = []
            for arr, intent, p, v in pass_table():
                if (arr or intent != 'in') and p != 'pointer':
                    out.append(Failure(f'{"array" if arr else "scalar"} intent({intent}) is passed by value to the C kernel'))
                if (p == 'value') != v:
                    out.append(Failure(f'{"array" if arr else "scalar"} intent({intent}): C declarator {p} but interface VALUE={v}'))
            return out
        if op == 'prog':
            return self.oracle_prog(req)
        if op == 'cexpr':
            prog, inputs = self.dec_prog(req)
            cls = classify_prog(prog)
            try:
                text = cexpr_text(prog)
            except Exception as e:      # noqa: whatever the transformation raises
                return [Failure(f'generate_c_kernel / cgen raised {type(e).__name__}: {str(e)[:160]}', cls)]
            src = fir.emit_ex(G.unit_of(prog)[4][0][2])
            for inp in inputs:
                ref = fir.interp(prog, inp)
                if ref[0] != 'ok':
                    continue
                env = {str(r[0]): fir.decode_val(r[1]) for r in inp}
                want = ref[1]['r'][0]
                try:
                    got = c_eval_text(text, env)
                except CExprError as e:
                    got = f'error: {e}'
                if not (isinstance(got, int) and got == want):
                    return [Failure(f'r = {src} is translated to {text!r}; with {env} its C value is {got}, Fortran gives {want}', cls)]
            return []
        if op == 'cloop':
            s0, e0, st = self.dec_cloop(req)
            header = c_loop_header(s0, e0, st)
            want = fortran_do(s0, e0, 1 if st is None else st)
            try:
                got = c_loop_values(header)
            except CExprError as e:
                return [Failure(f'DO i = {s0}, {e0}, {st}: {e}')]
            if got[0] != want[0] or got[1] != want[1]:
                return [Failure(f'DO i = {s0}, {e0}, {st} runs its body for i = {want[0]} and leaves i = {want[1]}; the generated '
                                f'`{header}` runs it for {got[0]} and leaves i = {got[1]}')]
            return []
        if op == 'abi':
            if not (os.path.exists(GCC) and os.path.exists(fir.GFORTRAN)):
                return []
            y = abi_default_real()
            if y != Fraction(7, 2):
                return [Failure(f'default REAL dummies, y = x + 1.0 with x = 2.5 through the ISO-C wrapper (no -fdefault-real-8): '
                                f'y = {y}, expected 7/2 (the C kernel declares double, the interface REAL)', 'c-default-real-double')]
            return []
        raise ValueError(op)

    def oracle_prog(self, req):
        prog, inputs = self.dec_prog(req)
        if not (os.path.exists(GCC) and os.path.exists(fir.GFORTRAN)):
            return []
        line = dumps(req)
        res = getattr(self, '_cache', {}).get(line)
        if res is None:
            res = build_and_run(prog, inputs)
        cls = classify_prog(prog)
        if res[0] != 'ok':
            return [Failure(f'{res[0]}: {res[1]}', cls)]
        for k, (inp, got) in enumerate(zip(inputs, res[1])):
            stats = {}
            ref = fir.interp(prog, inp, stats=stats)
            if ref[0] != 'ok' or not fir.exact_in_hardware(stats):
                continue
            d = fir.compare_results(ref, got)
            if d:
                return [Failure(f'input set {k}: {d}', cls)]
        return []

    def shrink_candidates(self, req):
        if str(req[0]) == 'cexpr':
            yield from shrink_cexpr(req)
        if str(req[0]) == 'prog':
            for r in G.shrink_prog([req[0], A('plain')] + req[1:]):
                yield [r[0]] + r[2:]

    def post(self, cases, impl_out, model_raw, oracle_fail):
        cov = {'routines_compiled_and_run': len(getattr(self, '_cache', {})),
               'routines_outside_classes': sum(1 for c in cases if str(c.req[0]) == 'prog' and c.nontrivial)}
        return [], cov


def shrink_cexpr(req):
    """smaller requests of the same shape: fewer input sets, a subexpression of integer type in place of the right-hand side
    or of one of its operands"""
    prog, inputs = req[1], req[2:]
    if len(inputs) > 1:
        for q in range(len(inputs)):
            yield [req[0], prog] + inputs[:q] + inputs[q + 1:]
    rhs = G.unit_of(prog)[4][0][2]

    def variants(e):
        kids = [c for c in e[1:] if isinstance(c, list) and h(c)]
        for c in kids:
            yield c
        for q, c in enumerate(e):
            if isinstance(c, list) and h(c):
                for v in variants(c):
                    yield e[:q] + [v] + e[q + 1:]
    for v in variants(rhs):
        yield [req[0], cexpr_program(v)] + inputs


def prepare(prog, inputs):
    """serial part (Loki transformations, in-process): writes the files, returns what the compile/run part needs"""
    d = Path(tempfile.mkdtemp(prefix='p_', dir=str(scratch())))
    try:
        cfile, wfile, name = transpile_c(prog, d)
    except Exception as e:      # noqa
        shutil.rmtree(d, ignore_errors=True)
        return ('transform-error', f'{type(e).__name__}: {str(e)[:200]}')
    (d / 'driver.f90').write_text(driver_source(prog, inputs, name))
    return ('files', d, cfile.name, wfile.name, len(inputs))


def build_and_run_prepared(prep):
    if prep[0] != 'files':
        return prep
    _, d, cname, wname, n = prep
    try:
        rc, out = sh([GCC, '-std=c99', '-O0', '-c', cname, '-o', 'kernel_c.o'], d)
        if rc != 0:
            return ('c-compile-error', _first_error(out))
        rc, out = sh([fir.GFORTRAN] + fir.GFORTRAN_FLAGS + ['-c', wname, '-o', 'wrapper.o'], d)
        if rc != 0:
            return ('fortran-compile-error', _first_error(out))
        rc, out = sh([fir.GFORTRAN] + fir.GFORTRAN_FLAGS + ['driver.f90', 'wrapper.o', 'kernel_c.o', '-lm', '-o', 'run.x'], d)
        if rc != 0:
            return ('link-error', _first_error(out))
        try:
            p = subprocess.run(['./run.x'], cwd=d, stdout=subprocess.PIPE, stderr=subprocess.PIPE, text=True, timeout=20)
        except subprocess.TimeoutExpired:
            return ('run-error', 'timeout')
        runs, cur = {}, None
        for l in p.stdout.splitlines():
            t = l.strip()
            if t.startswith('B '):
                cur = int(t[2:])
                runs[cur] = []
            elif t.startswith('E ') and cur is not None:
                runs[cur].append(None)
                cur = None
            elif cur is not None:
                runs[cur].append(l)
        res = []
        for k in range(n):
            ls = runs.get(k)
            if ls is None or ls[-1:] != [None]:
                res.append(('error', f'run ended in input set {k}: ' + (p.stderr.strip().splitlines() or ['?'])[0][:160]))
            else:
                res.append(fir.parse_canonical(ls[:-1]))
        return ('ok', res)
    finally:
        shutil.rmtree(d, ignore_errors=True)


def build_and_run(prog, inputs):        # noqa: F811 — single-request form (replay, shrinking)
    return build_and_run_prepared(prepare(prog, inputs))


PROP = C35()
READY = True
